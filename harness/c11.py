"""C11 — pretty-printed JSON-like data reads back as the same data (ak/ppobj.py, PrettyPrinter)."""
import ast
import json
import os
import re

from harness.core import enc_str, dec_str

PROPERTY = "C11"
READY = True
THEOREMS = ["C11.consts_ok", "C11.wf_checked", "C11.distinct_checked", "C11.json_domain_in_python_domain", "C11.no_loss", "C11.read_render", "C11.int_text", "C11.norm_perm", "C11.key_order", "C11.keys_sorted", "C11.order_is_local", "C11.lines",
            "C11.lines_own_chunks", "C11.read_lines", "C11.sort_then_render", "C11.one_line_fits", "C11.chunk_classes",
            "C11.text_determines_value"]
RULE = ("every case starts from the state of a fresh process (the package under test is imported anew, no printer object "
        "is kept: what an earlier case left in class-level or module-level state cannot reach a later case or a shrunk "
        "candidate; a history that matters is inside the case); one value per case, printed in both modes and consumed in every way a caller can (whole text, str(), lines "
        "streamed / collected first / rendered in reverse / by index / iterated twice / after the text / two results in "
        "lock step, text after iteration), plus call sequences of several values through the same printer; diagnostic: "
        "the chunk generator at offsets 0..40 with the syntax class of every chunk, colours on then stripped, PPWrap, "
        "and the specification's reader against json.loads / ast on every printed text and on JSON texts with 1-2 "
        "random character edits (the malformed stream). Values: all pairs (thorough: triples) of 9 atoms in lists/dicts, "
        "random nestings (depth <= 5), containers of 0,1,2,3,30,60,120 simple items at offsets 0..40, lists and dicts "
        "whose one-line length is the threshold -2..+2 at every even offset 0..40, dicts/lists where a *prefix* of the "
        "sorted entries reaches the threshold -6..+3 and more entries follow, wrapped lists with lines that reach the "
        "wrap limit -1..+2, one item of the width of an empty line -3..+3 / longer at the first, a middle, the last, "
        "the only position, long keys and values in dicts, containers of 255..258, 300, 1000, 5000 items / keys (lists of containers, of "
        "scalars, dicts with container values, mixed; sizes beyond the small-int cache), nesting depth 30..101 (offsets beyond both limits) in both "
        "modes and 200/400/600/900 in JSON mode at the default recursion limit, a value "
        "next to a string that spells it (1/'1', None/'None'/'null', 1.0/'1.0', []/'[]' ...) in one container and in "
        "consecutive calls, keys that trap code-point order; Python mode only: dicts with int / bool / None keys "
        "mixed with strings (every pair of key kinds in both insertion orders; '1' next to 1, 'True' next to True), "
        "int keys around 2**53, 2**63, 2**64, 10**30, 2**1024, 10**400 (adjacent, negative, inserted descending); "
        "int values beyond the float range (10**400, 200!, 2**1024) in both modes; strings and keys with "
        "non-printable / astral characters that are not control characters (ZWSP, U+2028, BOM, private use, tag "
        "characters, planes 15/16), keys from U+E000..U+FFFF against astral keys; "
        "values in which the same dict / list object occurs at several places (every layout, `[row]*3`, shared "
        "defaults), sent through the protocol as references; process history: dicts with twin keys (True/1/1.0, False/0/0.0 "
        "- equal and of equal hash for Python, different keys of two ranks for the printer) plus keys of other ranks, every "
        "pair in both orders inside ONE object (list, dict, nested) and as call sequences (same printer, a printer made "
        "for the call, line iteration first, a call of the other mode / an unrelated value in between) and random "
        "histories of 2..6 calls; float keys only there, judged by the oracle alone (`pf`/`lf`, not compared with the "
        "model). Thresholds are read from the tree under test. "
        "non-trivial = the value contains a non-empty container; distinct by protocol text")
TRUSTED = ["str() of float (the text is handed to the model as data; str(int) is modelled: showInt)",
           "json.loads / ast.literal_eval / ast.parse (the oracle's readers)"]
ASSUMPTIONS = ["str() of a finite float follows the JSON number grammar, is not an integer text, and json.loads / "
               "ast.literal_eval read that text back as the same float (C11.read_render keeps a float as its text; "
               "asserted by the generator for every float and exercised by every case with floats)",
               "json.loads / ast.literal_eval read a decimal integer text as that integer (the reader's intOf? is the "
               "specification of it; compared with both parsers on every printed text)",
               "Python's == on dicts ignores the order of entries (C11.norm_perm states the permutation)",
               "the keys of every dict are pairwise distinct (hypothesis DistinctKeys of C11.keys_sorted; true of every "
               "Python dict; decided by distinctB — C11.distinct_checked — which the driver evaluates on every request, "
               "and the adapter asserts that no two keys of a generated dict collide, e.g. 1 and True)",
               "no int has more than sys.get_int_max_str_digits() = 4300 decimal digits: CPython's str() raises "
               "ValueError beyond that, the model's showInt has no limit; such values are outside the domain (the "
               "oracle skips them, the driver answers err ValueError like the real printer; both sides of the boundary "
               "are generated)",
               "dict keys are strings, ints, True/False/None (float and tuple keys are not modelled: a float is text in "
               "the model and cannot be ordered there; tuple keys are never generated; float keys 0.0 / 1.0 are generated "
               "only in the process-history cases, through the operations pf / lf that the oracle alone judges - number "
               "keys by value, before strings, before constants - and that are not compared with the model)",
               "the state of the code under test at the start of a case is that of a fresh import (impl() forgets the "
               "modules of package `ak` and imports ak.ppobj again; state kept elsewhere - C extensions, the standard "
               "library - is not reset, the code under test has none)",
               "strings and keys are sequences of Unicode scalar values: lone surrogates (category Cs, e.g. '\\ud800') are "
               "outside the domain. They are never generated and cannot be expressed in the model (Lean Char = scalar "
               "value). Measured on HEAD: the printer, plain_text(), str() and the line iteration pass such a string "
               "through unchanged and json.loads reads the JSON-mode text back to an equal value; the Python-mode text "
               "cannot be read by ast.literal_eval / compile / eval, which fail with UnicodeEncodeError when they encode "
               "the *source text* to UTF-8 - Python source cannot hold a lone surrogate except as a backslash escape, "
               "and strings that need a backslash are outside the property - a limit of the reader, not of the printer"]


# ------------------------------------------------------------------ translator
def _lit_table(node):
    d = ast.literal_eval(node)
    if not isinstance(d, dict) or set(d.keys()) != {True, False, None} or len(d) != 3:
        raise ValueError("constants table is not {True:..., False:..., None:...}")
    for v in d.values():
        if not isinstance(v, str) or not re.fullmatch(r"[A-Za-z]+", v):
            raise ValueError("constant literal %r is not an ASCII word" % (v,))
    return d


def _find_cmp(nodes, names, op):
    """the unique `<name> + <name> <op> <int>` comparison below the given statements"""
    found = []
    for st in nodes:
        for n in ast.walk(st):
            if (isinstance(n, ast.Compare) and len(n.ops) == 1 and isinstance(n.left, ast.BinOp)
                    and isinstance(n.left.op, ast.Add)
                    and isinstance(n.left.left, ast.Name) and isinstance(n.left.right, ast.Name)
                    and (n.left.left.id, n.left.right.id) == names):
                if not isinstance(n.ops[0], op):
                    raise ValueError("comparison %s is not the expected %s" % (ast.unparse(n), op.__name__))
                c = n.comparators[0]
                if not (isinstance(c, ast.Constant) and type(c.value) is int and c.value >= 0):
                    raise ValueError("threshold in %s is not a natural number literal" % ast.unparse(n))
                found.append(c.value)
    if len(found) != 1:
        raise ValueError("expected exactly one comparison of %s, found %d" % ("+".join(names), len(found)))
    return found[0]


def translate(repo):
    src = open(os.path.join(repo, "ak", "ppobj.py")).read()
    tree = ast.parse(src)
    cls = [n for n in tree.body if isinstance(n, ast.ClassDef) and n.name == "PrettyPrinter"]
    if len(cls) != 1:
        raise ValueError("class PrettyPrinter not found")
    cls = cls[0]
    # keyword tables and the way __init__ selects one
    tables = None
    for n in cls.body:
        if isinstance(n, ast.Assign) and len(n.targets) == 1 and isinstance(n.targets[0], ast.Name) \
                and n.targets[0].id == "_CONSTANTS_LITERALS":
            if not isinstance(n.value, ast.Tuple) or len(n.value.elts) != 2:
                raise ValueError("_CONSTANTS_LITERALS is not a pair of dicts")
            tables = [_lit_table(e) for e in n.value.elts]
    if tables is None:
        raise ValueError("_CONSTANTS_LITERALS not found")
    fns = {n.name: n for n in cls.body if isinstance(n, ast.FunctionDef)}
    sel = [ast.unparse(n) for n in ast.walk(fns["__init__"]) if isinstance(n, ast.Assign)]
    if sel != ["self._consts = self._CONSTANTS_LITERALS[1 if fmt_json else 0]"]:
        raise ValueError("__init__ no longer selects the table by `1 if fmt_json else 0`")
    py, js = tables[0], tables[1]
    # layout numbers
    fn = fns["_gen_ch_chunks_for_obj"]
    top = fn.body[-1]
    try:
        br_dict = top.orelse[0]
        br_list = br_dict.orelse[0]
        ok = (ast.unparse(top.test) == "self._value_is_simple(obj_to_print)"
              and ast.unparse(br_dict.test) == "isinstance(obj_to_print, dict)"
              and ast.unparse(br_list.test) == "isinstance(obj_to_print, list)")
    except (AttributeError, IndexError):
        ok = False
    if not ok:
        raise ValueError("_gen_ch_chunks_for_obj is no longer `if simple / elif dict / elif list`")
    one_dict = _find_cmp(br_dict.body, ("offset", "scr_len"), ast.Lt)
    one_list = _find_cmp(br_list.body, ("offset", "scr_len"), ast.Lt)
    wrap = _find_cmp(br_list.body, ("len_yielded", "cur_chunk_len"), ast.Gt)
    steps = set()
    for n in ast.walk(fn):
        if isinstance(n, ast.BinOp) and isinstance(n.left, ast.Name) and n.left.id == "offset" \
                and not (isinstance(n.right, ast.Name) and n.right.id == "scr_len"):
            if not (isinstance(n.op, ast.Add) and isinstance(n.right, ast.Constant) and type(n.right.value) is int
                    and n.right.value >= 0):
                raise ValueError("unexpected offset arithmetic: " + ast.unparse(n))
            steps.add(n.right.value)
    if len(steps) != 1:
        raise ValueError("indentation step is not one number: %s" % sorted(steps))
    return {"AkVerif/Gen/C11.lean":
            "-- GENERATED by harness/c11.py:translate from /repo/ak/ppobj.py -- do not edit\n"
            "namespace Gen.C11\n"
            "def pyTrue : List Char := \"%s\".toList\n"
            "def pyFalse : List Char := \"%s\".toList\n"
            "def pyNone : List Char := \"%s\".toList\n"
            "def jsonTrue : List Char := \"%s\".toList\n"
            "def jsonFalse : List Char := \"%s\".toList\n"
            "def jsonNull : List Char := \"%s\".toList\n"
            "def oneLineDict : Nat := %d\n"
            "def oneLineList : Nat := %d\n"
            "def wrapLimit : Nat := %d\n"
            "def indent : Nat := %d\n"
            "end Gen.C11\n" % (py[True], py[False], py[None], js[True], js[False], js[None],
                               one_dict, one_list, wrap, steps.pop())}


# ------------------------------------------------------------------ value <-> protocol
_SURR = re.compile("[\ud800-\udfff]")
_STR_LIMIT = 10 ** 4300                    # first int CPython's str() refuses with the default limit


def enc_val(v, float_keys=False):
    """postfix program of a JSON-like value; a container object met again is sent as a reference
    (`r:<k>` = the k-th container completed so far) so that sharing survives the protocol.
    Float keys only for the oracle-only operations `pf` / `lf` (the model has no float keys)"""
    out = []
    done = {}                   # id(container) -> index of completion

    def atom(x):
        if x is True:
            out.append("T")
        elif x is False:
            out.append("F")
        elif x is None:
            out.append("Z")
        elif isinstance(x, str):
            out.append("s:" + enc_str(x))
        elif isinstance(x, int):
            if abs(x) >= _STR_LIMIT:        # str() refuses it: hexadecimal has no limit
                out.append("x:" + ("-" if x < 0 else "") + hex(abs(x))[2:])
            else:
                out.append("i:%d" % x)
        elif isinstance(x, float):
            out.append("n:" + enc_str(str(x)))
        else:
            raise TypeError(type(x))

    todo = [("visit", v)]           # explicit stack: values may be nested ~1000 deep
    while todo:
        tag, x = todo.pop()
        if tag == "key":
            if isinstance(x, float) and not float_keys:
                raise TypeError("float key")
            atom(x)
        elif tag == "close":
            out.append(("l:%d" if isinstance(x, list) else "d:%d") % len(x))
            done[id(x)] = len(done)
        elif isinstance(x, (list, dict)):
            if id(x) in done:
                out.append("r:%d" % done[id(x)])
                continue
            todo.append(("close", x))
            if isinstance(x, list):
                for y in reversed(x):
                    todo.append(("visit", y))
            else:
                for k, y in reversed(list(x.items())):
                    todo.append(("visit", y))
                    todo.append(("key", k))
        else:
            atom(x)
    return " ".join(out)


_INT = re.compile(r"-?[0-9]+\Z")


def dec_val(tokens):
    st = []
    built = []
    for t in tokens:
        if t == "T":
            st.append(True)
        elif t == "F":
            st.append(False)
        elif t == "Z":
            st.append(None)
        elif t.startswith("s:"):
            st.append(dec_str(t[2:]))
        elif t.startswith("i:"):
            st.append(int(t[2:]))
        elif t.startswith("x:"):
            st.append(int(t[2:], 16))
        elif t.startswith("n:"):
            st.append(float(dec_str(t[2:])))
        elif t.startswith("l:"):
            n = int(t[2:])
            items = st[len(st) - n:]
            del st[len(st) - n:]
            st.append(items)
            built.append(items)
        elif t.startswith("d:"):
            n = int(t[2:])
            items = st[len(st) - 2 * n:]
            del st[len(st) - 2 * n:]
            d = {items[2 * i]: items[2 * i + 1] for i in range(n)}
            assert len(d) == n, "colliding dict keys"
            st.append(d)
            built.append(d)
        elif t.startswith("r:"):
            st.append(built[int(t[2:])])
        else:
            raise ValueError(t)
    assert len(st) == 1
    return st[0]


_NUM = re.compile(r"-?(0|[1-9][0-9]*)(\.[0-9]+)?([eE][+-]?[0-9]+)?\Z")


def _nodes(v):
    """every node of a value, each container object once (iterative: values may be nested ~1000 deep)"""
    seen, todo = set(), [v]
    while todo:
        x = todo.pop()
        yield x
        if isinstance(x, (list, dict)):
            if id(x) in seen:
                continue
            seen.add(id(x))
            todo.extend(x.values() if isinstance(x, dict) else x)


def _numbers_ok(v):
    """every number of the value prints as a JSON number (finite), no float key: the domain of C11"""
    for x in _nodes(v):
        if isinstance(x, float) and not (_NUM.match(str(x)) and not _INT.match(str(x))):
            return False
        if isinstance(x, dict) and any(isinstance(k, float) for k in x):
            return False
    return True


def _str_keys_only(v):
    return all(isinstance(k, str) for x in _nodes(v) if isinstance(x, dict) for k in x)


def mk_deep(v, kind):
    """a very deeply nested value: JSON mode only (Python's own parser stops at 200 nested brackets) and few
    views (the text of a 900-level value has ~1.6 million characters of indentation)"""
    e = enc_val(v)
    lines = ["pp j " + e] + (["lc j " + e] if len(e) < 6000 else [])     # the line view up to ~400 levels only
    return {"lines": lines, "meta": {"kind": kind}}


def mk_case(v, kind, off=0, rng=None):
    assert _numbers_ok(v), "generator produced a non-finite number"
    e = enc_val(v)
    assert not any(isinstance(x, str) and _SURR.search(x) for y in _nodes(v)
                   for x in ([y] + (list(y) if isinstance(y, dict) else []))), \
        "generator produced a lone surrogate (outside the domain, ASSUMPTIONS)"
    if not _str_keys_only(v):               # int / bool / None keys: Python mode only (not JSON data)
        lines = ["pp p " + e, "ln p " + e, "lc p " + e, "lr p " + e, "l2 p " + e, "pa p " + e,
                 "gen p %d %s" % (off, e), "pc p " + e, "pw p " + e]
        try:
            text = _printer("p")(v, no_color=True).plain_text()
            if len(text) <= 3000:
                lines.append("rd p " + enc_str(text))
        except Exception:
            pass
        return {"lines": lines, "meta": {"kind": kind}}
    # every way a caller can consume the result: whole text, str(), streaming lines, lines collected first and
    # rendered afterwards (in order / reversed / by index), a second iteration, the whole text after an iteration
    lines = ["pp j " + e, "ln j " + e, "lc j " + e, "lr j " + e, "l2 j " + e, "li j " + e, "lp j " + e, "lz j " + e,
             "pa j " + e, "ps j " + e,
             "pp p " + e, "ln p " + e, "lc p " + e,
             "gen j %d %s" % (off, e), "gen p %d %s" % (off, e),
             # options of the call that C11 does not speak about (diagnostic): colours on, then stripped
             "pc j " + e, "pc p " + e, "pw p " + e]
    # the specification-side reader against the real parsers, on the text the real printer gives
    for mode in ("j", "p"):
        try:
            text = _printer(mode)(v, no_color=True).plain_text()
        except Exception:
            continue
        if len(text) > 3000:
            continue
        lines.append("rd %s %s" % (mode, enc_str(text)))
        if mode == "j" and rng is not None and len(text) <= 400:
            for _ in range(2):
                lines.append("rd j " + enc_str(_mutate(rng, text)))
    return {"lines": lines, "meta": {"kind": kind}}


_EDIT_CHARS = '[]{},:" \n0123456789-+.eEtrufalsn'


def _mutate(rng, text):
    """one or two random edits (delete / duplicate / swap / insert / replace)"""
    t = list(text)
    for _ in range(rng.choice([1, 1, 2])):
        i = rng.randrange(len(t) + 1)
        k = rng.randrange(5)
        if k == 0 and i < len(t):
            del t[i]
        elif k == 1 and i < len(t):
            t.insert(i, t[i])
        elif k == 2 and i + 1 < len(t):
            t[i], t[i + 1] = t[i + 1], t[i]
        elif k == 3:
            t.insert(i, rng.choice(_EDIT_CHARS))
        elif i < len(t):
            t[i] = rng.choice(_EDIT_CHARS)
    return "".join(t)


def observable(i, line):
    # the chunk generator is internal; `rd` compares the specification's reader with json / ast
    # (`pf` / `lf`: values with float keys, which the model cannot order - the oracle alone judges them)
    return not line.startswith(("gen ", "rd ", "pc ", "pw ", "pf ", "lf "))


# ------------------------------------------------------------------ real code
_PP = {}
_CODE = {}


def _fresh_code_under_test():
    """Every case starts from the state of a fresh process: all modules of the package under test are forgotten
    and `ak.ppobj` is imported again (new module and class objects: nothing an earlier case left in module-level
    or class-level state - caches, memo tables, counters - survives), and the printers of `_printer` are dropped.
    The history a failure needs therefore has to be inside the case, and a replay file reproduces it in a new
    process. The compiled code of the source files is kept (the tree does not change during a run), so that a
    re-import costs about a millisecond."""
    import importlib.machinery
    import sys
    _PP.clear()
    for name in [n for n in sys.modules if n == "ak" or n.startswith("ak.")]:
        del sys.modules[name]
    loader = importlib.machinery.SourceFileLoader
    orig = loader.get_code

    def get_code(self, fullname):
        if not (fullname == "ak" or fullname.startswith("ak.")):
            return orig(self, fullname)
        key = (fullname, self.get_filename(fullname))
        if key not in _CODE:
            _CODE[key] = orig(self, fullname)
        return _CODE[key]
    loader.get_code = get_code
    try:
        import ak.ppobj                         # noqa: F401
    finally:
        loader.get_code = orig


def _printer(mode):
    if mode not in _PP:
        from ak.ppobj import PrettyPrinter
        _PP[mode] = PrettyPrinter(fmt_json=(mode == "j"))
    return _PP[mode]


def impl(case):
    _fresh_code_under_test()
    out = []
    for line in case["lines"]:
        op, mode, *rest = line.split()
        try:
            pp = _printer(mode)
            if op in ("pp", "pf"):          # pf: the same call, for values with float keys (oracle only)
                out.append("ok " + enc_str(pp(dec_val(rest), no_color=True).plain_text()))
            elif op == "np":                # a printer object made for this call alone
                from ak.ppobj import PrettyPrinter
                out.append("ok " + enc_str(PrettyPrinter(fmt_json=(mode == "j"))(dec_val(rest), no_color=True).plain_text()))
            elif op == "lf":                # collected lines, for values with float keys (oracle only)
                lines = list(pp(dec_val(rest), no_color=True))
                out.append("ok " + "|".join(enc_str(l.plain_text()) for l in lines))
            elif op == "pc":                # colours on (default palette), escape sequences stripped afterwards
                from ak.color import CHText
                res = pp(dec_val(rest))
                a = CHText.strip_colors(str(res))
                b = "\n".join(CHText.strip_colors(str(l)) for l in pp(dec_val(rest), palette=type(pp).PPPalette))
                out.append("ok " + enc_str(a if a == b else a + "<lines with palette= differ>" + b))
            elif op == "pw":                # PPWrap (the interactive wrapper: Python mode, coloured)
                from ak.color import CHText
                from ak.ppobj import PPWrap
                out.append("ok " + enc_str(CHText.strip_colors(str(PPWrap(dec_val(rest))))))
            elif op == "ps":                # str() of a no-colour result
                out.append("ok " + enc_str(str(pp(dec_val(rest), no_color=True))))
            elif op == "pa":                # the whole text asked for after the lines were iterated
                res = pp(dec_val(rest), no_color=True)
                kept = list(res)
                out.append("ok " + enc_str(res.plain_text()))
                del kept
            elif op == "lz":                # two results of one printer iterated in lock step (side by side)
                v = dec_val(rest)
                pairs = list(zip(pp(v, no_color=True), pp(v, no_color=True)))
                a = [x.plain_text() for x, _ in pairs]
                b = [y.plain_text() for _, y in pairs]
                out.append("ok " + "|".join(enc_str(t) for t in (a if a == b else a + ["<the two results differ>"] + b)))
            elif op in LINE_OPS:
                out.append("ok " + "|".join(enc_str(t) for t in _consume_lines(op, pp(dec_val(rest), no_color=True))))
            elif op == "gen":
                # a coloured palette, so that the syntax class of every chunk can be read off its colour
                cp = pp._mk_palette(None, False, None)
                kinds = {}
                for letter, meth in (("t", cp.text), ("k", cp.name), ("d", cp.number), ("w", cp.keyword)):
                    kinds.setdefault(meth("x").c_prefix, letter)
                if len(kinds) != 4:
                    kinds = None                # the configuration does not tell the classes apart
                chunks = pp._gen_ch_chunks_for_obj(cp, dec_val(rest[1:]), offset=int(rest[0]))
                out.append("ok " + "|".join(
                    "N" if c is None else (kinds[c.c_prefix] if kinds else "?") + ":" + enc_str(c.text) for c in chunks))
            elif op == "rd":
                out.append(_rd(mode, dec_str(rest[0])))
            else:
                out.append("bad-op")
        except Exception as e:
            out.append("err " + type(e).__name__)
    return out


LINE_OPS = ("ln", "lc", "lr", "l2", "li", "lp", "lz", "lf")


def _consume_lines(op, res):
    """the texts of the lines of a result, in line order, obtained in one of the ways a caller can use"""
    if op == "ln":                          # streaming: render each line when it arrives
        return [l.plain_text() for l in res]
    if op == "lc":                          # collect all lines, render afterwards
        lines = list(res)
        return [l.plain_text() for l in lines]
    if op == "lr":                          # collect, render last line first
        lines = list(res)
        texts = [l.plain_text() for l in reversed(lines)]
        return texts[::-1]
    if op == "l2":                          # iterate the same result twice; render the first pass afterwards
        first = list(res)
        second = list(res)
        a = [str(l) for l in first]
        b = [l.plain_text() for l in second]
        return a if a == b else a + ["<second iteration differs>"] + b
    if op == "li":                          # collect, then index: odd lines first, then even ones
        lines = list(res)
        texts = {}
        for i in list(range(1, len(lines), 2)) + list(range(0, len(lines), 2)):
            texts[i] = lines[i].plain_text()
        return [texts[i] for i in range(len(lines))]
    if op == "lp":                          # the whole text first, then the lines of the same result
        whole = res.plain_text()
        lines = list(res)
        texts = [l.plain_text() for l in lines]
        return texts if "\n".join(texts) == whole else texts + ["<differs from the text built before>"]
    raise ValueError(op)


class _Num(str):
    """a number token kept as its text"""


def _no_constant(name):
    raise ValueError(name)


def _enc_read(x):
    out = []

    def go(y):
        if y is True:
            out.append("T")
        elif y is False:
            out.append("F")
        elif y is None:
            out.append("Z")
        elif isinstance(y, _Num):
            out.append(("i:%d" % int(y)) if _INT.match(y) else "n:" + enc_str(y))
        elif isinstance(y, str):
            out.append("s:" + enc_str(y))
        elif isinstance(y, _Pairs):
            for k, w in y:
                go(k)
                go(w)
            out.append("d:%d" % len(y))
        elif isinstance(y, list):
            for w in y:
                go(w)
            out.append("l:%d" % len(y))
        else:
            raise ValueError(type(y))
    go(x)
    return " ".join(out)


def _rd(mode, text):
    """what the real parser reads (numbers as their text, dicts as pair lists), or `none`"""
    try:
        if mode == "j":
            got = json.loads(text, object_pairs_hook=_Pairs, parse_int=_Num, parse_float=_Num,
                             parse_constant=_no_constant)
        else:
            ast.literal_eval(text)
            tree = ast.parse(text, mode="eval")

            def go(n):
                if isinstance(n, ast.Constant):
                    if type(n.value) in (int, float):
                        return _Num(ast.get_source_segment(text, n))
                    if n.value is True or n.value is False or n.value is None or type(n.value) is str:
                        return n.value
                    raise ValueError("constant")
                if isinstance(n, ast.UnaryOp) and isinstance(n.op, ast.USub) and isinstance(n.operand, ast.Constant) \
                        and type(n.operand.value) in (int, float):
                    return _Num(ast.get_source_segment(text, n))
                if isinstance(n, ast.List):
                    return [go(e) for e in n.elts]
                if isinstance(n, ast.Dict):
                    return _Pairs((go(k), go(w)) for k, w in zip(n.keys, n.values))
                raise ValueError("not a literal")
            got = go(tree.body)
        return "ok " + _enc_read(got)
    except (ValueError, SyntaxError, RecursionError, TypeError, MemoryError):
        return "none"


# ------------------------------------------------------------------ oracle: the property itself
class _Pairs(list):
    """a JSON / Python dict display as the list of its (key, value) pairs, in textual order"""


def _read_json(text):
    return json.loads(text, object_pairs_hook=_Pairs)


def _read_py(text):
    """the literal as data, dict displays as _Pairs; anything but a literal is refused (like ast.literal_eval)"""
    ast.literal_eval(text)                 # the statement: "evaluates as a Python literal"
    tree = ast.parse(text, mode="eval")

    def go(n):
        if isinstance(n, ast.Constant):
            return n.value
        if isinstance(n, ast.UnaryOp) and isinstance(n.op, (ast.USub, ast.UAdd)) and isinstance(n.operand, ast.Constant) \
                and type(n.operand.value) in (int, float):
            return -n.operand.value if isinstance(n.op, ast.USub) else n.operand.value
        if isinstance(n, ast.List):
            return [go(e) for e in n.elts]
        if isinstance(n, ast.Dict):
            if any(k is None for k in n.keys):
                raise ValueError("dict unpacking")
            return _Pairs((go(k), go(v)) for k, v in zip(n.keys, n.values))
        raise ValueError("not a literal: " + type(n).__name__)
    return go(tree.body)


def _doc_key_order(k):
    """the documented order of dict keys: numbers (by value), then strings (by code point), then the
    constants True / False / None (by name)"""
    if k is True or k is False or k is None:
        return (3, str(k))
    if isinstance(k, (int, float)):
        return (0, k)
    return (1, k)


def _kid(k):
    return (type(k).__name__, k)


def _same(got, want, path="$"):
    """None, or where the value read back differs from the value printed (explicit stack: deep values)"""
    todo = [(got, want, path)]
    while todo:
        got, want, path = todo.pop()
        if len(path) > 200:
            path = path[:90] + "..." + path[-90:]
        if isinstance(want, dict):
            if not isinstance(got, _Pairs):
                return "%s: a dict was printed, %s read back" % (path, type(got).__name__)
            keys = [_kid(k) for k, _ in got]
            expect = [_kid(k) for k in sorted(want.keys(), key=_doc_key_order)]
            if keys != expect:
                if sorted(keys, key=repr) == sorted(expect, key=repr):
                    return "%s: dict entries are not in sorted key order: %r" % (path, [k for k, _ in got][:8])
                return "%s: dict keys lost or duplicated: %d printed, %d read back" % (path, len(want), len(keys))
            byid = {_kid(k): w for k, w in want.items()}
            for k, g in reversed(got):
                todo.append((g, byid[_kid(k)], "%s[%r]" % (path, k)))
            continue
        if isinstance(want, list):
            if type(got) is not list:
                return "%s: a list was printed, %s read back" % (path, type(got).__name__)
            if len(got) != len(want):
                return "%s: list of %d items read back with %d items" % (path, len(want), len(got))
            for i in range(len(want) - 1, -1, -1):
                todo.append((got[i], want[i], "%s[%d]" % (path, i)))
            continue
        if want is True or want is False or want is None:
            if got is not want:
                return "%s: %r read back as %r" % (path, want, got)
            continue
        if isinstance(got, (_Pairs, list)) or got is True or got is False or got is None:
            return "%s: %r read back as a %s" % (path, want, type(got).__name__)
        if isinstance(want, str) != isinstance(got, str) or got != want:
            return "%s: %r read back as %r" % (path, want, got)
    return None


def check_text(text, value, mode):
    if "\033" in text:
        return "colour sequence in a no-colour rendering"
    try:
        got = _read_json(text) if mode == "j" else _read_py(text)
    except Exception as e:
        return "output is not %s: %s" % ("JSON" if mode == "j" else "a Python literal", type(e).__name__)
    return _same(got, value)


_WHICH = {"pp": "", "np": "-new-printer", "pf": "-float-keys", "lf": "-float-keys-lines", "ps": "-str", "pa": "-text-after-iteration", "ln": "-lines", "lc": "-collected-lines",
          "lr": "-collected-lines-reversed", "l2": "-second-iteration", "li": "-indexed-lines",
          "lp": "-lines-after-text", "lz": "-two-results-in-lock-step"}


def _unprintable_int(v):
    """the value holds an int that CPython's str() refuses (more than sys.get_int_max_str_digits() digits):
    outside the domain of C11 (the real printer raises ValueError; the driver answers the same)"""
    import sys
    lim = sys.get_int_max_str_digits() if hasattr(sys, "get_int_max_str_digits") else 0
    if not lim:
        return False
    big = 10 ** lim
    for x in _nodes(v):
        if isinstance(x, int) and not isinstance(x, bool) and abs(x) >= big:
            return True
        if isinstance(x, dict) and any(isinstance(k, int) and not isinstance(k, bool) and abs(k) >= big for k in x):
            return True
    return False


def oracle(case, replies):
    wholes = {}
    for line, rep in zip(case["lines"], replies):
        op, mode, *rest = line.split()
        if op not in _WHICH:
            continue
        value = dec_val(rest)
        if _unprintable_int(value):
            continue                        # outside the domain (ASSUMPTIONS); the correspondence still compares
        which = ("json" if mode == "j" else "python") + _WHICH[op]
        if not rep.startswith("ok "):
            return "%s-fails: printing raised %s" % (which, rep)
        if op in LINE_OPS:
            text = "\n".join(dec_str(t) for t in rep[3:].split("|"))
        else:
            text = dec_str(rep[3:])
        msg = check_text(text, value, mode)
        if msg:
            return "%s: %s" % (which, msg)
        if op != "pp":
            # every view of the result is the same text as the whole-text rendering
            key = (mode, " ".join(rest))
            if key not in wholes:
                wholes[key] = _printer(mode)(value, no_color=True).plain_text()
            if text != wholes[key]:
                return "%s-differs: this view of the result is not the text plain_text() gives" % which
    return None


# ------------------------------------------------------------------ generators
_ASCII = [chr(c) for c in range(32, 127) if chr(c) not in '"\\']
_ALPH = "abc xyz,:[]{}'#0129_-+.eE" + "é中  \U0001F600"
_WORDS = ["true", "false", "null", "True", "None", "nan", "1e5", "-", "[]", "{}", ", ", ": ", "//", "#", "'", " "]
_FLOATS = [0.5, -1.25e-7, 1e22, 3.14, 1 / 3, 2.0 ** 70, -0.0, 123456.789, 1e-5, 1e16, 5e-324, 1.7976931348623157e308,
           0.1, 100.0, -2.5e-10]
_KEYS = ["", " ", "a", "A", "B", "b", "ab", "a b", "a_b", "aB", "Z", "_", "10", "9", "1", "é", "e", "z", "~", "中", "\U0001F600",
         "aé", "az", "key", "Key", "k1", "k10", "k2", "-", "0"]


# characters that are not control characters (Cc) but not printable either / need surrogate pairs in UTF-16:
# format (Cf: ZWSP, BOM, tag characters), separators (Zl/Zp), private use (Co, BMP and planes 15/16), astral
_ODD = ["\u200b", "\u2028", "\u2029", "\ufeff", "\ue000", "\uf8ff", "\ufffd", "\uff76", "\uff21", "\uffee",
        "\U00010000", "\U0001f1e6", "\U0001f600", "\U000e0001", "\U000e0067", "\U000e007f", "\U000f0000",
        "\U000ffffd", "\U00100000", "\U0010fffd", "\U0002a6d6"]
_HUGE = [10 ** 400, -(10 ** 400), 2 ** 1024, 2 ** 1024 - 1, -(2 ** 1024), 10 ** 308, 10 ** 309, 3 ** 2000]


def _factorial(n):
    r = 1
    for i in range(2, n + 1):
        r *= i
    return r


_HUGE.append(_factorial(200))


def _rs(rng, mx):
    r = rng.random()
    if r < 0.05:
        return "".join(rng.choice(_ODD + ["a", " "]) for _ in range(rng.randint(1, 4)))
    if r < 0.08:
        return rng.choice(_WORDS)
    n = rng.randint(0, mx)
    if r < 0.6:
        return "".join(rng.choice(_ALPH) for _ in range(n))
    return "".join(rng.choice(_ASCII) for _ in range(n))


def _str_of_len(rng, n):
    """string whose chunk ('"' + s + '"') has exactly n characters (n >= 2)"""
    return "".join(rng.choice("abcdefgh ,:]}") for _ in range(n - 2))


def _num(rng):
    r = rng.random()
    if r < 0.5:
        return rng.randint(-10 ** rng.randint(0, 20), 10 ** rng.randint(0, 20))
    if r < 0.53:
        return rng.choice(_HUGE)
    if r < 0.7:
        return rng.choice([0, 1, -1, 2 ** 70, -2 ** 64, 10 ** 25, 7])
    if r < 0.9:
        return rng.choice(_FLOATS)
    return rng.uniform(-1e6, 1e6) * 10.0 ** rng.randint(-20, 20)


def _simple(rng, mx=12):
    k = rng.randint(0, 9)
    if k <= 2:
        return _rs(rng, mx)
    if k <= 5:
        return _num(rng)
    if k <= 7:
        return rng.choice([True, False, None])
    return rng.choice([[], {}])


def _key(rng):
    return rng.choice(_KEYS) if rng.random() < 0.5 else _rs(rng, 12)


def _value(rng, d, big):
    k = rng.randint(0, 9 if d < 4 else 5)
    if k <= 5:
        return _simple(rng, 30 if big else 8)
    if k in (6, 7):
        n = rng.choice([0, 1, 2, 3, 5, 30, 60, 120] if big else [1, 2, 3, 4])
        if rng.random() < 0.6:
            return [_simple(rng, 30 if big else 8) for _ in range(n)]
        return [_value(rng, d + 1, big and n < 10) for _ in range(min(n, 30))]
    n = rng.choice([1, 2, 3, 20, 40] if big else [1, 2, 3])
    if rng.random() < 0.6:
        return {_key(rng): _simple(rng, 30 if big else 8) for _ in range(n)}
    return {_key(rng): _value(rng, d + 1, big and n < 10) for _ in range(min(n, 20))}


def _wrap(rng, v, depth):
    """put v at offset 2*depth (the only item of nested non-simple containers)"""
    for _ in range(depth):
        v = [v] if rng.random() < 0.5 else {_key(rng): v}
    return v


def _nonempty(v):
    return isinstance(v, (list, dict)) and len(v) > 0


def _list_one_line(rng, total):
    """simple items with sum(len(chunk)) + 2*n == total (total >= 4)"""
    items, left = [], total
    while left > 0:
        if left < 8:
            if left >= 4:
                items.append(_str_of_len(rng, left - 2))
                left = 0
            elif items:                     # grow the last string
                last = items.pop()
                sz = (len(last) + 2 if isinstance(last, str) else len(str(last)))
                left += sz + 2
                items.append(_str_of_len(rng, left - 2))
                left = 0
            else:
                break
        else:
            it = _simple(rng, 20)
            sz = _chunk_len(it) + 2
            if sz > left - 4 and sz != left:
                continue
            items.append(it)
            left -= sz
    return items


def _chunk_len(x):
    if isinstance(x, str):
        return len(x) + 2
    if x is True:
        return 4
    if x is False:
        return 5
    if x is None:
        return 4
    if isinstance(x, (list, dict)):
        return 2
    return len(str(x))


def _dict_len_json(d):
    """scr_len of the one-line dict layout in JSON mode"""
    return 2 + sum(len(k) + 2 + 2 + _chunk_len(v) for k, v in d.items()) + 2 * max(0, len(d) - 1)


def _dict_one_line(rng, total):
    d = {}
    for _ in range(200):
        k = _key(rng)
        if k in d:
            continue
        cand = dict(d)
        cand[k] = _simple(rng, 15)
        if _dict_len_json(cand) <= total - 8:
            d = cand
        else:
            break
    # pad with one string entry of the exact size
    for _ in range(50):
        k = "pad%d" % rng.randint(0, 99)
        if k in d:
            continue
        rest = total - _dict_len_json(d) - (2 if d else 0) - (len(k) + 4)
        if rest >= 2:
            d[k] = _str_of_len(rng, rest)
            return d
        if not d:
            return d
        d.pop(next(iter(d)))
    return d


def _wrapped_list(rng, off, limit=150):
    """a long list of simple items in which some line reaches limit-1..limit+2 exactly"""
    items = []
    for _ in range(rng.randint(2, 6)):
        ly = off + 2
        first = True
        target = limit + rng.choice([-1, 0, 0, 1, 1, 2])
        while True:
            if ly > target - 40:
                cur = target - ly
                if cur >= 2:
                    items.append(_str_of_len(rng, cur))
                break
            it = _simple(rng, 25)
            items.append(it)
            ly += _chunk_len(it) + (0 if first else 2)
            first = False
        if rng.random() < 0.3:
            items.append(_str_of_len(rng, rng.choice([limit - off - 2, limit - off - 1, limit, limit + 1, 160, 220])))
    return items


def _entry_len(k, v):
    """characters a dict entry adds to the one-line form, without separator"""
    return len(k) + 2 + 2 + _chunk_len(v)


def _dict_prefix_boundary(rng, target, k, more):
    """all-simple dict, keys p00 < p01 < ...: `{` + the first k sorted entries (with separators) is exactly
    `target` characters, then `more` further entries"""
    d = {}
    length = 1
    for i in range(k):
        key = "p%02d" % i
        sep = 2 if i else 0
        if i == k - 1:
            need = target - length - sep - (len(key) + 4)
            if need < 2:
                return None
            d[key] = _str_of_len(rng, need)
            length = target
        else:
            room = (target - length) // (k - i) - 12
            v = _simple(rng, max(0, min(25, room)))
            d[key] = v
            length += sep + _entry_len(key, v)
    for j in range(more):
        d["q%02d" % j] = _simple(rng, 6)
    if rng.random() < 0.5:                  # insertion order != sorted order
        items = list(d.items())
        rng.shuffle(items)
        d = dict(items)
    return d


def _list_prefix_boundary(rng, target, k, more):
    """simple items: sum(len(chunk) + 2) over the first k items is exactly `target`, then `more` further items"""
    items = _list_one_line(rng, target) if target >= 4 else []
    return items + [_simple(rng, 6) for _ in range(more)]


def _long_item_list(rng, off, limit, pos):
    """a list that must be wrapped, with one item around / over the width of an empty line at position `pos`"""
    room = limit - off - 2                  # what fits an empty line
    n = rng.choice([room - 3, room - 2, room - 1, room, room + 1, room + 2, room + 3, limit, limit + 1, 160, 200, 250])
    n = max(2, n)
    big = _str_of_len(rng, n)
    if pos == "only":
        return [big]
    others = [_simple(rng, rng.choice([0, 5, 30])) for _ in range(rng.choice([1, 2, 5, 40]))]
    if pos == "first":
        return [big] + others
    if pos == "last":
        return others + [big]
    i = rng.randrange(1, len(others)) if len(others) > 1 else 1
    return others[:i] + [big] + others[i:]


_COLLIDE = [0, 1, -1, 42, 10 ** 20, 1.0, 2.5, -0.0, 1e22, 1e-07, True, False, None, [], {}]


def _spellings(x):
    """strings that could be confused with the value"""
    out = [str(x)]
    if x is True:
        out += ["true", "1"]
    elif x is False:
        out += ["false", "0"]
    elif x is None:
        out += ["null", ""]
    elif isinstance(x, float):
        out += [repr(x), str(int(x)) if x == int(x) and abs(x) < 1e15 else str(x)]
    elif isinstance(x, int):
        out += [str(float(x)), str(x) + " "]
    return out


def _collision_values(rng):
    x = rng.choice(_COLLIDE)
    sp = rng.choice(_spellings(x))
    pair = [x, sp] if rng.random() < 0.5 else [sp, x]
    fill = [rng.choice(_COLLIDE + ["1", "None", "True", "[]", "{}", "2.5", "x"]) for _ in range(rng.choice([0, 0, 2, 8, 90]))]
    lst = pair + fill
    if fill and rng.random() < 0.5:
        rng.shuffle(lst)
    return x, sp, lst


_PYKEYS = [0, 1, -1, 2, 9, 10, -10, 42, 10 ** 20, -(10 ** 20), True, False, None,
           "", "0", "1", "-1", "10", "9", "True", "False", "None", "true", "null", "a", "B", "b", "~", "é"]


_BIG = [2 ** 53, 2 ** 63, 2 ** 64, 10 ** 30, 2 ** 100, 2 ** 1024, 10 ** 400]


def _big_int_keys(rng, n):
    """int keys beyond the range where floats are exact: adjacent ones, negatives, in non-ascending insertion order"""
    base = rng.choice(_BIG) * rng.choice([1, 1, -1])
    ks = {base + d for d in rng.sample(range(-4, 5), min(n, 9))}
    if rng.random() < 0.5:
        ks |= {rng.choice(_BIG) + rng.randint(-2, 2), -rng.choice(_BIG), rng.randint(-3, 3)}
    ks = sorted(ks, reverse=True)               # descending = never the sorted order
    if rng.random() < 0.5:
        rng.shuffle(ks)
    return ks


def _pykey_dict(rng, n, value_fn):
    """a dict with int / bool / None / string keys mixed (keys that are equal for Python, such as 1 and True,
    never meet in one dict)"""
    d = {}
    for _ in range(n * 3):
        if len(d) >= n:
            break
        r = rng.random()
        k = rng.choice(_PYKEYS) if r < 0.7 else (rng.randint(-1000, 1000) if r < 0.85 else _key(rng))
        if k in d:                          # also refuses True when 1 is there
            continue
        d[k] = value_fn()
    return d


def _shared_values(rng, lim_w):
    """values in which the same container object occurs at several places (a DAG, no cycle)"""
    kind = rng.randrange(7)
    if kind == 0:
        row = {"id": rng.randint(0, 99), "ok": True, "tag": None}          # one-line dict
    elif kind == 1:
        row = {"k%02d" % i: _str_of_len(rng, 20) for i in range(12)}          # all-simple dict, too long for a line
    elif kind == 2:
        row = {"a": [1, 2], "b": {"x": {}}}                                  # nested dict
    elif kind == 3:
        row = [1, "x", None]                                                 # one-line list
    elif kind == 4:
        row = _wrapped_list(rng, 2, lim_w)                                   # wrapped list
    elif kind == 5:
        row = [[1], {"a": 1}]                                                # item-per-line list
    else:
        row = rng.choice([[], {}])                                           # empty (simple) containers
    shape = rng.randrange(7)
    if shape == 0:
        return [row] * rng.choice([2, 3, 5])
    if shape == 1:
        return {"a": row, "b": row}
    if shape == 2:
        return [row, [row], {"k": row}]
    if shape == 3:
        return {"defaults": row, "records": [{"n": i, "defaults": row} for i in range(3)]}
    if shape == 4:
        inner = [row, row]
        return [inner, inner, row]
    if shape == 5:
        return [row, dict(row) if isinstance(row, dict) else list(row), row]   # shared and equal-but-distinct
    return {"x": [row], "y": [row], "z": row}


def _deep_chain(rng, depth, shape):
    """single-item containers nested `depth` levels deep around a small payload"""
    v = rng.choice([[1], [1, "a", None], {"z": 0, "a": [True]}, "s", 7])
    for i in range(depth):
        as_list = shape == "list" or (shape == "mixed" and rng.random() < 0.5)
        v = [v] if as_list else {rng.choice(["k", "key", "a b"]): v}
    return v


def _deep_cases(rng, quick):
    """nesting up to what the unmodified printer handles at the DEFAULT recursion limit. Measured on HEAD adb5d03
    inside a pool worker: 975 levels print and are read back by json.loads, 985 raise RecursionError (outside the
    domain, ASSUMPTIONS); Python mode is limited to < 200 by Python's own parser, so these cases are JSON only."""
    shapes = ["list", "dict", "mixed"]
    if quick:
        rng.shuffle(shapes)
        plan = [(200, shapes[0]), (400, shapes[1]), (600, shapes[2]), (900, shapes[0])]
    else:
        plan = [(d, sh) for d in (200, 400, 600, 900, 950) for sh in shapes]
    for depth, shape in plan:
        yield mk_deep(_deep_chain(rng, depth, shape), "deep-json-%d" % depth)


def mk_big(v, kind):
    """a container with very many items: both modes, the whole text and the collected lines"""
    e = enc_val(v)
    return {"lines": ["pp j " + e, "lc j " + e, "pp p " + e, "lc p " + e], "meta": {"kind": kind}}


def _big_container(rng, n, shape):
    """n items / keys: sizes beyond CPython's small-int cache (256) and other round thresholds"""
    def cont(i):
        return rng.choice([[i], {"v": i}, [i, [i]], {"a": [i]}])
    if shape == "list-of-containers":
        return [cont(i) for i in range(n)]
    if shape == "list-of-scalars":
        return [rng.choice([i, str(i), None, i * 0.5, True]) for i in range(n)]
    if shape == "dict-of-containers":
        return {"k%05d" % rng.randrange(10 ** 5) + str(i): cont(i) for i in range(n)}
    if shape == "dict-of-scalars":
        return {"k%d" % i: i for i in range(n)}
    items = [cont(i) if rng.random() < 0.3 else i for i in range(n)]       # mixed
    if not any(isinstance(x, (list, dict)) for x in items[-3:]):
        items[-1] = cont(n)
    return items if rng.random() < 0.5 else {"items": items, "n": n}


_BIG_SHAPES = ["list-of-containers", "list-of-scalars", "dict-of-containers", "dict-of-scalars", "mixed"]


def mk_seq(values, kind):
    """several values through the same printer objects, one after the other (no memory between calls)"""
    lines = []
    for v in values:
        e = enc_val(v)
        lines += ["pp j " + e, "lc j " + e, "pp p " + e]
    return {"lines": lines, "meta": {"kind": kind}}



# ---- process history: keys that are equal / hash alike for Python but are different keys for the printer
_TWINS = [(True, 1, 1.0), (False, 0, 0.0)]
_OTHER_KEYS = ["s", "", "k1", "True", "1", "0", "~", 2, -1, 7, 10 ** 20, None]


def _twin_dict(rng, special, n_other=None):
    """a dict with the key `special` (a bool, or the int / float equal to it) and 1..3 keys of other ranks, so that
    a misplaced `special` shows; insertion order random"""
    d = {special: rng.choice(["v", 0, None, [1], {"a": []}])}
    for _ in range(n_other if n_other is not None else rng.choice([1, 1, 2, 3])):
        k = rng.choice(_OTHER_KEYS)
        if k not in d:
            d[k] = rng.choice([1, "x", None, [], [2, "y"]])
    if len(d) == 1:
        d["s"] = 1
    items = list(d.items())
    rng.shuffle(items)
    return dict(items)


def _has_float_key(v):
    return any(isinstance(k, float) for x in _nodes(v) if isinstance(x, dict) for k in x)


def _hist_line(op, mode, v):
    """one protocol line; a value with float keys goes through the oracle-only operations"""
    if _has_float_key(v):
        assert mode == "p"
        return "%s p %s" % ("lf" if op in LINE_OPS else "pf", enc_val(v, float_keys=True))
    return "%s %s %s" % (op, mode, enc_val(v))


def _history_cases(rng, quick):
    """Dicts whose keys are twins (True/1/1.0, False/0/0.0: equal and of equal hash in Python, three different
    keys for the printer, of two different ranks in the key order), in ONE object and in call sequences: bools
    first and numbers first, through the same printer, a printer made for the call, the line iteration, with calls
    of the other mode / of unrelated values in between. Python mode (JSON data has string keys; the JSON printer
    takes part as the call in between and with the string spellings of the keys)."""
    def fillers():
        return rng.choice([("pp", "j", {"1": True, "0": [False, 1.0], "True": 1}), ("lc", "j", [True, 1, 1.0, "1"]),
                           ("pp", "p", [1, True, 1.0, 0, False, 0.0]), ("np", "j", {"a": {"b": 0}}),
                           ("pp", "p", {"s": 1, None: 2, 5: 3}), ("ln", "p", {"x": [0.0, False]})])
    # exhaustive small scope: every twin pair, both orders, in one object (list / dict) and as two calls
    for b, i, f in _TWINS:
        for first, second in ((b, i), (i, b), (b, f), (f, b), (i, f), (f, i)):
            for shape in ("list", "dict", "nested", "calls", "calls-new-printer", "calls-lines", "calls-between"):
                d1, d2 = _twin_dict(rng, first), _twin_dict(rng, second)
                kind = "history-" + ("one-object" if shape in ("list", "dict", "nested") else "calls")
                if shape == "list":
                    vals = [("pp", [d1, d2]), ("lc", [d1, d2])]
                elif shape == "dict":
                    vals = [("pp", {"a": d1, "b": d2}), ("ln", {"a": d1, "b": d2})]
                elif shape == "nested":
                    d1 = dict(d1)
                    d1["zz"] = [d2]
                    vals = [("pp", [[d1]])]
                elif shape == "calls":
                    vals = [("pp", d1), ("pp", d2), ("pp", d1)]
                elif shape == "calls-new-printer":
                    vals = [("np", d1), ("np", d2)]
                elif shape == "calls-lines":
                    vals = [(rng.choice(["lc", "ln", "l2"]), d1), ("pp", d2)]
                else:
                    vals = None
                if shape in ("list", "dict", "nested"):
                    # one line per case: the whole history is inside the value
                    for op, v in vals:
                        yield {"lines": [_hist_line(op, "p", v)], "meta": {"kind": kind}}
                    if not _has_float_key(vals[0][1]):
                        yield mk_case(vals[0][1], kind, 0, rng)
                    continue
                if vals is None:
                    fo, fm, fv = fillers()
                    lines = [_hist_line("pp", "p", d1), _hist_line(fo, fm, fv), _hist_line("pp", "p", d2)]
                else:
                    lines = [_hist_line(op, "p", v) for op, v in vals]
                yield {"lines": lines, "meta": {"kind": kind}}
    # random histories: 2..6 calls over twin dicts / lists of them / fillers, random operations
    for _ in range(60 if quick else 1500):
        b, i, f = rng.choice(_TWINS)
        lines = []
        for _ in range(rng.randint(2, 6)):
            r = rng.random()
            if r < 0.25:
                fo, fm, fv = fillers()
                lines.append(_hist_line(fo, fm, fv))
                continue
            ks = [rng.choice([b, i, f] if rng.random() < 0.8 else [True, False, 0, 1, 0.0, 1.0])
                  for _ in range(rng.choice([1, 1, 2]))]
            ds = [_twin_dict(rng, k) for k in ks]
            v = ds[0] if len(ds) == 1 and rng.random() < 0.6 else (ds if rng.random() < 0.5 else {"k%d" % j: d for j, d in enumerate(ds)})
            lines.append(_hist_line(rng.choice(["pp", "pp", "np", "lc", "ln", "pa"]), "p", v))
        yield {"lines": lines, "meta": {"kind": "history-calls"}}


def _limits():
    """the thresholds of the tree under test (so that the generators aim at its boundaries)"""
    try:
        from harness import core
        txt = translate(core.REPO)["AkVerif/Gen/C11.lean"]
        g = {m.group(1): int(m.group(2)) for m in re.finditer(r"def (\w+) : Nat := (\d+)", txt)}
        return g["oneLineDict"], g["oneLineList"], g["wrapLimit"]
    except Exception:
        return 200, 200, 150


def gen_cases(rng, tier):
    quick = tier == "quick"
    lim_d, lim_l, lim_w = _limits()

    def mk(v, kind, off=0):
        return mk_case(v, kind, off, rng)
    # 0. fixed small scope: every pair of simple values in a list / dict, empty and singleton containers
    atoms = ["", "a", 0, -1.5, True, False, None, [], {}]
    for a in atoms:
        yield mk(a, "atom")
        yield mk([a], "small")
        yield mk({"k": a}, "small")
        for b in atoms:
            yield mk([a, b], "small")
            yield mk({"b": a, "a": b}, "small")
            yield mk([[a], {"x": b}], "small")
    for ks in (["b", "a", "B", "A", "", " ", "10", "9", "é", "z", "中", "~"], _KEYS):
        yield mk({k: i for i, k in enumerate(ks)}, "keys")
        yield mk({k: [i, [i]] for i, k in enumerate(reversed(ks))}, "keys")
    if not quick:                           # exhaustive small scope: every triple of atoms
        for a in atoms:
            for b in atoms:
                for c3 in atoms:
                    yield mk([a, b, c3], "small-exhaustive")
                    yield mk({"c": a, "a": b, "b": c3}, "small-exhaustive")
                    yield mk([[a], [b, c3], {"k": [a, c3]}], "small-exhaustive")
    # 1. random nestings
    for i in range(1150 if quick else 50000):
        v = _value(rng, 0, big=(i % 3 == 0))
        off = rng.choice([0, 0, 1, 2, 3, 7, 40])
        yield mk(v, "random-big" if i % 3 == 0 else "random", off)
    # 2. containers of n simple items
    for n in (0, 1, 2, 3, 30, 60, 120):
        for _ in range(20 if quick else 300):
            depth = rng.choice([0, 0, 1, 2, 5, 10, 20])
            mx = rng.choice([0, 3, 12, 30])
            v = [_simple(rng, mx) for _ in range(n)]
            yield mk(_wrap(rng, v, depth), "list-n%d" % n, 2 * depth)
            d = {}
            while len(d) < n:
                d[_rs(rng, 10) if n > 3 else _key(rng)] = _simple(rng, mx)
            yield mk(_wrap(rng, d, depth), "dict-n%d" % n, 2 * depth)
    # 3. one-line threshold, lists and dicts, every offset 0..40 (step 2 through nesting)
    for depth in range(0, 21):
        off = 2 * depth
        for delta in (-2, -1, 0, 1, 2):
            for _ in range(3 if quick else 40):
                v = _list_one_line(rng, max(4, lim_l - off + delta))
                yield mk(_wrap(rng, v, depth), "list-threshold%+d" % delta, off)
                d = _dict_one_line(rng, max(4, lim_d - off + delta))
                yield mk(_wrap(rng, d, depth), "dict-threshold%+d" % delta, off)
    # 4. wrapped lists around the wrap limit
    for _ in range(300 if quick else 8000):
        depth = rng.choice([0, 0, 1, 2, 3, 5, 10, 20])
        v = _wrapped_list(rng, 2 * depth, lim_w)
        yield mk(_wrap(rng, v, depth), "wrap-limit", 2 * depth)
    # 5. mixtures: dict of wrapped lists / long dicts inside lists
    for _ in range(200 if quick else 4000):
        depth = rng.choice([0, 1, 2, 4])
        parts = {}
        for _ in range(rng.randint(1, 4)):
            r = rng.random()
            if r < 0.4:
                parts[_key(rng)] = _wrapped_list(rng, 2 * depth + 2, lim_w)
            elif r < 0.7:
                parts[_key(rng)] = _dict_one_line(rng, max(4, lim_d - 2 * depth - 2 + rng.choice([-1, 0, 1])))
            else:
                parts[_key(rng)] = _value(rng, 2, True)
        v = parts if rng.random() < 0.6 else list(parts.values())
        yield mk(_wrap(rng, v, depth), "mixture", 2 * depth)
    # 6. boundaries measured on partial prefixes: `{` + the first k sorted entries (resp. the first k list items)
    #    is the one-line limit -6..+3 / the wrap limit -3..+3, and more entries follow
    for depth in ([0, 0, 0, 1, 2, 7] if quick else [0, 0, 0, 0, 1, 2, 3, 7, 20]):
        off = 2 * depth
        for delta in range(-6, 4):
            for _ in range(2 if quick else 12):
                k = rng.choice([1, 1, 2, 3, 5])
                more = rng.choice([1, 1, 2, 3])
                d = _dict_prefix_boundary(rng, lim_d - off + delta, k, more)
                if d is not None:
                    yield mk(_wrap(rng, d, depth), "dict-prefix%+d" % delta, off)
                v = _list_prefix_boundary(rng, lim_l - off + delta, k, more)
                yield mk(_wrap(rng, v, depth), "list-prefix%+d" % delta, off)
    # 7. an item around / over the width of a line, at every position (first, middle, last, only)
    for pos in ("first", "middle", "last", "only"):
        for _ in range(40 if quick else 600):
            depth = rng.choice([0, 0, 0, 1, 2, 5, 20])
            v = _long_item_list(rng, 2 * depth, lim_w, pos)
            yield mk(_wrap(rng, v, depth), "long-item-" + pos, 2 * depth)
    for _ in range(20 if quick else 300):       # long keys / long values in dicts
        n = rng.choice([lim_w - 3, lim_w, lim_w + 1, lim_d - 8, lim_d, 250])
        d = {_str_of_len(rng, n)[:n - 2] or "k": _simple(rng, 5), "b": _str_of_len(rng, n), "a": [1, _str_of_len(rng, n)]}
        yield mk(d, "long-entry")
    # 8. deep nesting: offsets beyond the wrap limit and beyond the one-line limit
    for depth in ([30, 60, 72, 73, 74, 75, 76, 80, 101] if quick else list(range(60, 104)) + [120, 150]):
        for payload in ([1, 2, 3], list(range(120)), ["ab"] * 70, {"a": 1, "b": "x"}, {"k%02d" % i: i for i in range(30)},
                        [_str_of_len(rng, 30)], [[], {}], "s"):
            w = _wrap(rng, payload, depth)
            kind = "deep-%s" % ("<74" if depth < 74 else ">=74")
            # the full set of views for a third of them, text + collected lines in both modes for the others
            yield mk(w, kind, 2 * depth) if rng.random() < 0.34 else mk_big(w, kind)
    # 9. a value next to a string that spells it, inside one container
    for _ in range(150 if quick else 3000):
        x, sp, lst = _collision_values(rng)
        r = rng.random()
        if r < 0.5:
            v = lst
        elif r < 0.7:
            v = {("k%d" % i): y for i, y in enumerate(lst[:40])}
        elif r < 0.85:
            v = {sp: x, "z": sp, "l": lst[:10]}
        else:
            v = [lst[:5], {"a": lst[:3]}, lst]
        yield mk(v, "collision")
    for x in _COLLIDE:                          # every collision pair, both orders, exhaustively
        for sp in _spellings(x):
            yield mk([x, sp], "collision")
            yield mk([sp, x], "collision")
            yield mk({"a": x, "b": sp}, "collision")
    # 11. Python-mode keys: ints, bools, None mixed with strings (order: numbers, strings, constants)
    for _ in range(250 if quick else 5000):
        n = rng.choice([1, 2, 3, 5, 8, 25])
        r = rng.random()
        if r < 0.5:
            v = _pykey_dict(rng, n, lambda: _simple(rng, 8))
        elif r < 0.8:
            v = _pykey_dict(rng, n, lambda: _value(rng, 3, False))
        else:
            v = [_pykey_dict(rng, 2, lambda: _simple(rng, 5)), {"s": _pykey_dict(rng, n, lambda: _simple(rng, 30))}]
        yield mk(v, "python-keys", rng.choice([0, 3, 40]))
    for a in (True, False, None, 0, 1, -5, 10, "1", "a", "True"):      # every pair of key kinds, both insertion orders
        for b in (True, False, None, 0, 1, -5, 10, "1", "a", "True"):
            if a != b and not (a in (0, 1) and b in (True, False) and a == b) and len({a: 0, b: 1}) == 2:
                yield mk({a: "x", b: [1]}, "python-keys")
    for _ in range(60 if quick else 1500):      # big int keys (exact integer order, far beyond 2**53)
        ks = _big_int_keys(rng, rng.choice([2, 3, 5, 9]))
        d = {k: _simple(rng, 5) for k in ks}
        if rng.random() < 0.4:
            d["s"] = 1
            d[True] = [ks[0]]
        yield mk(d if rng.random() < 0.7 else [d, {"in": d}], "python-keys-big", rng.choice([0, 3]))
    for b in _BIG:                              # the adjacent pair around every boundary, descending insertion
        yield mk({b + 1: "hi", b: "lo"}, "python-keys-big")
        yield mk({-b: "hi", -b - 1: "lo", b: 0}, "python-keys-big")
    # 13. characters outside the BMP / not printable (but no control characters) in strings and keys;
    #     keys from U+E000..U+FFFF against astral keys (code-point order differs from UTF-16 order)
    hi_bmp = ["\ue000", "\uf8ff", "\uff21", "\uff76", "\ufeff", "\ufffd", "\uffee"]
    astral = [ch for ch in _ODD if ord(ch) > 0xFFFF]
    for a in hi_bmp:
        for b in astral:
            yield mk({b: 1, a: 2}, "keys-astral")
            yield mk({"x" + a: [b], "x" + b: a, "x": a + b}, "keys-astral")
    for ch in _ODD:
        yield mk([ch, "a" + ch + "b", {ch: ch}], "odd-chars")
    for _ in range(80 if quick else 2000):
        v = _value(rng, 1, False)
        w = [v, {rng.choice(_ODD) + _rs(rng, 3): rng.choice(_ODD), _rs(rng, 4): [rng.choice(_ODD) * rng.randint(1, 3)]}]
        yield mk(w, "odd-chars")
    # 14. very big int values (beyond the float range) in both modes, at any nesting
    for h in _HUGE:
        yield mk(h, "huge-int")
        yield mk([h, {"k": h, "l": [h, 1.5]}], "huge-int")
    for _ in range(40 if quick else 800):
        depth = rng.choice([0, 1, 3])
        v = [rng.choice(_HUGE + [1, 2.5, "s"]) for _ in range(rng.choice([1, 3, 12]))]
        yield mk(_wrap(rng, v if rng.random() < 0.6 else {"n": v, "m": rng.choice(_HUGE)}, depth), "huge-int", 2 * depth)
    # 15. CPython's str(int) limit (4300 digits): the last printable int and the first one that raises ValueError
    #     (outside the domain: oracle skips, the driver answers `err ValueError` like the real code)
    for n in (10 ** 4299, -(10 ** 4299), 10 ** 4300 - 1, 10 ** 4300, -(10 ** 4300), 10 ** 5000):
        yield mk_big(n, "int-str-limit")
        yield mk_big([1, {"k": [n]}], "int-str-limit")
        e = enc_val({n: "key", "s": 1})         # an int key: Python mode only
        yield {"lines": ["pp p " + e, "lc p " + e], "meta": {"kind": "int-str-limit"}}
    # 17. very many items: 255..258 (around the small-int cache), 300, 1000, 5000
    sizes = [255, 256, 257, 258, 300, 1000] if quick else [255, 256, 257, 258, 259, 300, 512, 1000, 1025, 5000, 10000]
    lists_only = ["list-of-containers", "list-of-scalars", "mixed"]     # (the model sorts and checks keys in O(n^2))
    for n in sizes:
        shapes = _BIG_SHAPES if n <= 1025 else lists_only
        for shape in (shapes if (not quick or n in (257, 258)) else rng.sample(shapes, 2)):
            yield mk_big(_big_container(rng, n, shape), "big-%d" % n)
    if quick:
        yield mk_big(_big_container(rng, 5000, rng.choice(lists_only)), "big-5000")
    # 16. very deep nesting, JSON mode (default recursion limit; the workers do not raise it)
    for c in _deep_cases(rng, quick):
        yield c
    # 12. the same container object at several places of the value
    for _ in range(200 if quick else 4000):
        v = _shared_values(rng, lim_w)
        depth = rng.choice([0, 0, 1, 3])
        yield mk(_wrap(rng, v, depth), "shared", 2 * depth)
    # 10. call sequences on the same printer: the result of a call does not depend on earlier calls
    for _ in range(60 if quick else 1500):
        x, sp, lst = _collision_values(rng)
        a = _value(rng, 1, False)
        seq = rng.choice([
            [[x], [sp], [x]], [[sp], [x]], [{"k": x}, {"k": sp}], [lst, lst[::-1], lst],
            [a, _value(rng, 1, False), a], [{"a": 1, "b": 2}, {"b": 1, "a": 2}, {"a": 1}],
            [_wrapped_list(rng, 0, lim_w), [x, sp], a]])
        yield mk_seq(seq, "sequence")
    # 18. process history made explicit: twin keys (True/1/1.0, False/0/0.0) in one object and in call sequences
    for c in _history_cases(rng, quick):
        yield c


def search_cases(rng, tier):
    """directed search: exact lengths around both thresholds at every offset, all item counts 0..8"""
    lim_d, lim_l, lim_w = _limits()

    def mk(v, kind, off=0):
        return mk_case(v, kind, off, rng)
    for n in (257, 258, 300, 1000, 5000):                # very many items, then deep nesting: cheap to try
        for shape in (_BIG_SHAPES if n <= 1000 else ["list-of-containers", "list-of-scalars", "mixed"]):
            yield mk_big(_big_container(rng, n, shape), "search-big")
    for depth in (100, 150, 199, 250, 300, 400, 500, 600, 700, 800, 900, 950):
        for shape in ("list", "dict", "mixed"):
            v = _deep_chain(rng, depth, shape)
            yield mk_deep(v, "search-deep") if depth >= 199 else mk(v, "search-deep")
    for depth in range(0, 21):
        off = 2 * depth
        for total in range(max(4, min(lim_d, lim_l) - 30 - off), max(lim_d, lim_l) + 15 - off):
            yield mk(_wrap(rng, _list_one_line(rng, total), depth), "search-list", off)
            yield mk(_wrap(rng, _dict_one_line(rng, total), depth), "search-dict", off)
    for n in range(0, 9):
        for _ in range(50):
            yield mk([_simple(rng, 6) for _ in range(n)], "search-small")
            yield mk({_key(rng): _simple(rng, 6) for _ in range(n)}, "search-small")
    for _ in range(3000):
        depth = rng.choice([0, 1, 2, 5])
        yield mk(_wrap(rng, _wrapped_list(rng, 2 * depth, lim_w), depth), "search-wrap", 2 * depth)


# ------------------------------------------------------------------ shrinking, statistics
def _smaller(v):
    if isinstance(v, list):
        for i in range(len(v)):
            yield v[:i] + v[i + 1:]
        if len(v) > 4:
            yield v[:len(v) // 2]
            yield v[len(v) // 2:]
        for i, x in enumerate(v):
            if isinstance(x, (list, dict)):
                yield x
            for y in _smaller(x):
                yield v[:i] + [y] + v[i + 1:]
    elif isinstance(v, dict):
        ks = list(v)
        for k in ks:
            yield {a: b for a, b in v.items() if a != k}
        for k in ks:
            if isinstance(v[k], (list, dict)):
                yield v[k]
            for y in _smaller(v[k]):
                d = dict(v)
                d[k] = y
                yield d
            if isinstance(k, str) and len(k) > 1 and k[:len(k) // 2] not in v:
                yield {(k[:len(k) // 2] if a == k else a): b for a, b in v.items()}
    elif isinstance(v, str):
        if v:
            yield v[:len(v) // 2]
            yield v[:-1]
            if v != "a" * len(v):
                yield "a" * len(v)
    elif v is True or v is False or v is None:
        return
    elif v != 0:
        yield 0


def shrink(case):
    lines = case["lines"]
    meta = case.get("meta", {})
    if len(lines) > 1:
        # (every candidate is run by impl() from a fresh state of the code under test, like the case itself: a
        #  failure that needs several calls keeps the calls it needs)
        for l in lines:
            yield {"lines": [l], "meta": meta}
        if len(lines) > 2:
            for i in range(len(lines)):
                yield {"lines": lines[:i] + lines[i + 1:], "meta": meta}
        if len(lines) <= 4:                 # a short history: make the values of its calls smaller
            for i, l in enumerate(lines):
                op, mode, *rest = l.split()
                if op in ("rd", "gen"):
                    continue
                try:
                    for w in _smaller(dec_val(rest)):
                        yield {"lines": lines[:i] + [" ".join([op, mode, enc_val(w, float_keys=True)])] + lines[i + 1:],
                               "meta": meta}
                except RecursionError:
                    continue
        return
    op, mode, *rest = lines[0].split()
    if op == "rd":
        t = dec_str(rest[0])
        for i in range(len(t)):
            yield {"lines": ["rd %s %s" % (mode, enc_str(t[:i] + t[i + 1:]))], "meta": case.get("meta", {})}
        return
    head = [op, mode] + (rest[:1] if op == "gen" else [])
    v = dec_val(rest[1:] if op == "gen" else rest)
    # a chain of single-item containers: halve the depth / drop one level first (cheap on very deep values)
    chain = []
    x = v
    while isinstance(x, (list, dict)) and len(x) == 1:
        chain.append(x)
        x = x[0] if isinstance(x, list) else next(iter(x.values()))
    if len(chain) > 8:
        for cut in (len(chain) // 2, len(chain) // 4, 1):
            yield {"lines": [" ".join(head + [enc_val(chain[cut], float_keys=True)])], "meta": case.get("meta", {})}
        return
    try:
        for w in _smaller(v):
            yield {"lines": [" ".join(head + [enc_val(w, float_keys=True)])], "meta": case.get("meta", {})}
    except RecursionError:
        return


def _first_value(case):
    op, mode, *rest = case["lines"][0].split()
    if op == "rd":
        return None
    return dec_val(rest[1:] if op == "gen" else rest)


def _has_container(v):
    if isinstance(v, list):
        return len(v) > 0
    if isinstance(v, dict):
        return len(v) > 0
    return False


def nontrivial(case, replies):
    return _has_container(_first_value(case))      # (a shrunk `rd`-only case has no value: trivial)


def tags(case, replies):
    yield case.get("meta", {}).get("kind", "?")
    r = replies[0]
    if not r.startswith("ok "):
        yield "reply:" + r.split(":")[0]
        return
    text = "\n".join(dec_str(t) for t in r[3:].split("|"))      # (a first line may be a line-iteration view)
    n = text.count("\n") + 1
    yield "lines:" + ("1" if n == 1 else "2-5" if n <= 5 else "6-50" if n <= 50 else ">50")
    longest = max(len(l) for l in text.split("\n"))
    yield "longest-line:" + ("<100" if longest < 100 else "<150" if longest < 150 else "<200" if longest < 200 else ">=200")
    if re.search(r"\[\n +[^\n\[\]{}]*, [^\n]*,?\n", text):
        yield "layout:wrapped-list"
    if re.search(r"(^|[ :])\[[^\n\[\]]+, [^\n\[\]]+\]", text):
        yield "layout:one-line-list"
    if re.search(r"\{\"[^\n]*\": [^\n{}]*\}", text):
        yield "layout:one-line-dict"
    if re.search(r"\{\n +\"[^\n]*\": [^\n\[{]*,\n", text):
        yield "layout:dict-entry-per-line"
    if re.search(r"\[\n +[\[{]", text):
        yield "layout:list-item-per-line"
    if re.search(r"\[\n +\"[^\n]{147,}\",?\n", text):
        yield "layout:over-long-item-alone"
    v = _first_value(case)
    kinds = set()

    for x in _nodes(v):
        kinds.add("bool" if x is True or x is False else "none" if x is None else
                  ("int-neg" if x < 0 else "int") if isinstance(x, int) else type(x).__name__)
    for k in sorted(kinds):
        yield "has:" + k


LEVEL_TEXT = ("For every JSON-like value (any nesting, size and offset; strings of Unicode scalar values without quote, backslash, control "
              "characters; every int, its decimal text computed by the model; floats as the text str() prints), every "
              "choice of the layout thresholds and both keyword tables, proved in Lean on a model of PrettyPrinter's "
              "chunk generator: the printed text lexes to exactly the tokens of the value with dict entries sorted by key "
              "(no element lost, duplicated or reordered in the one-line, wrapped and one-item-per-line layouts), a "
              "JSON-grammar reader returns that value (ints as integers), the sorted value is the same value up to dict "
              "order, keys are strictly increasing in the printer's key order (ints by value, then strings by code point, "
              "then False/None/True; Python mode reads int and constant keys back), the order of a dict's entries is a function "
              "of that dict alone (no memory between the dicts of one object; 1 / True and 0 / False are different keys of "
              "different ranks), the line iteration joined by line feeds is the text and "
              "closed lines never change, a container printed on one line ends left of the one-line limit, every chunk's "
              "syntax class agrees with its text, and the domain predicate is a test the driver runs on every request. "
              "Keyword tables, thresholds and indentation are re-read from ak/ppobj.py on every run; model = code (exact "
              "text, lines in nine consumption orders, call sequences, chunk lists with classes at offsets 0..40) and "
              "reader = json.loads / ast.literal_eval are established by differential runs.")
LEVEL_NOTE = ("Kernel-checked theorems (axioms propext, Classical.choice, Quot.sound): C11.consts_ok, wf_checked, "
              "distinct_checked (keys_sorted assumes pairwise distinct keys in every dict - met by every Python dict and "
              "checked by the driver on every request), no_loss, "
              "json_domain_in_python_domain, read_render, int_text, norm_perm, key_order, keys_sorted, order_is_local, lines, lines_own_chunks, read_lines, sort_then_render, "
              "one_line_fits, chunk_classes, text_determines_value. Resting on the sampled correspondence only: that the "
              "Lean model computes the text / lines / chunks of the real printer (compared character by character on ~5k "
              "values per quick run, boundaries of both thresholds measured on whole containers and on prefixes, over-long "
              "items at every position, nesting to depth 101, value/spelling collisions, call sequences, non-string keys, "
              "shared sub-objects), that the object "
              "has no memory between calls, between printer objects and between consumption orders (the model is a pure "
              "function; the adapter exercises nine orders, call sequences, and explicit histories over keys that are "
              "equal for Python - True/1/1.0, False/0/0.0 - in one object and across calls; every case and every shrink "
              "candidate starts from a fresh import of the package, so a reported history is complete and replays in a "
              "new process), the place of float keys among the keys (oracle only: float keys are not in the model), and that the Lean reader is what json.loads / ast.literal_eval do "
              "(compared on every printed text and on randomly damaged JSON texts; diagnostic). Trusted, not verified: "
              "str() of a float and that the real parsers read that token back as the same float (NaN/Infinity are "
              "outside the domain), strings are sequences of Unicode scalar values (lone surrogates are excluded: not "
              "generated, not expressible in the model; Python source text cannot contain them, so ast.literal_eval "
              "refuses the text before parsing it, while the printer and json.loads handle them), CPython's recursion limit (at the default limit of 1000 the unmodified printer handles 975 "
              "nesting levels inside a pool worker and raises RecursionError from 985 on; depths 200/400/600/900 are "
              "generated in JSON mode, deeper values are outside the domain; Python mode is generated below 200 levels, "
              "the limit of Python's own parser), the "
              "translator and adapter in harness/c11.py.")
TECHNIQUE = ("Lean 4 theorems (lexer/parser round trip through a layout-independent token sequence, induction over values, "
             "decimal digits round trip for ints) + translator for keyword tables/thresholds/indentation + "
             "correspondence check over consumption orders and call sequences, each case run on a fresh import of the "
             "package under test (explicit histories instead of leftovers)")
