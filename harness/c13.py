"""C13 — a table's reported format string reproduces the table (ak/ppobj.py: to_fmt_str, format parser, setter)."""
import re
from harness.core import enc_str, dec_str
from harness import c12

PROPERTY = "C13"
READY = True
STATEFUL = True
THEOREMS = ["C13.parse_print", "C13.int_of_str", "C13.same_rendering_setter", "C13.same_rendering_ctor",
            "C13.format_after_print", "C13.empty_noop", "C13.reformat_own_columns", "C13.reformat_own_columns_pick",
            "C13.fieldless", "C13.reachable_invariants", "C13.fieldless_literal_fails"]


def translate(repo):
    # the table model and its constants are shared with C12
    return c12.translate(repo)


# ------------------------------------------------------------------ real code
class _Live:
    """the live table of a history, with what is needed to construct it again"""

    def __init__(self):
        self.table = None
        self.records = None
        self.kw = None
        self.last = None
        self.sib = None

    def step(self, line):
        from ak.ppobj import PPTable
        op, *args = line.split()
        try:
            if op == "parse":
                return "ok " + _show_parsed(dec_str(args[0]))
            if op == "new":
                self.table, self.last, self.sib = None, None, None
                self.records, self.kw = c12.decode(args)
                self.table = PPTable(self.records, **{k: v for k, v in self.kw.items() if k != "_names"})
                if "fields" not in self.kw:
                    # the names a field-less table gives its fields: what "the same fields" means for it later
                    self.kw["_names"] = (["col_%d" % (i + 1) for i in range(len(self.records[0]))]
                                         if self.records else ["-" + " " * 30 + "-"])
                return "ok"
            if op == "newobj":
                self.table, self.last, self.sib = None, None, None
                spec, q = c12.split_at(args)
                self.records, self.kw = c12.decode(spec)
                self.table = _build_direct(self.records, self.kw, q)
                return "ok"
            if self.table is None:
                return "err NoTable"
            if op == "str":
                self.last = str(self.table.fmt)
                return "ok " + enc_str(self.last)
            if op == "print":
                try:
                    return "ok " + c12.show_lines(c12.render_lines(self.table))
                except Exception:
                    self.table = None      # a failed print ends the history (half-updated state is not modelled)
                    raise
            if op in ("set", "setlast"):
                if op == "setlast" and self.last is None:
                    return "err NoTable"
                self.table.fmt = dec_str(args[0]) if op == "set" else self.last
                return "ok"
            if op == "setsub":
                # re-format with some of the table's own column descriptions, as reported now; no limits part
                if args[0] not in ("v", "p") or len(args) < 2:
                    return "bad-op"
                self.table.fmt = sub_fmt(str(self.table.fmt), [int(a) for a in args[1:]], args[0] == "p")
                return "ok"
            if op == "sib":
                # a second table from the SAME format object, with other records
                records2, kw2 = c12.dec_rest(args)
                t = PPTable(records2, fmt_obj=self.table.fmt, **kw2)
                kw = dict(self.kw)
                kw["header"], kw["footer"] = kw2.get("header"), kw2.get("footer")
                self.sib = (t, records2, kw)
                return "ok"
            if op == "swap":
                if self.sib is None:
                    return "err NoTable"
                (self.table, self.records, self.kw), self.sib = self.sib, (self.table, self.records, self.kw)
                return "ok"
            if op == "setlim":
                self.table.fmt.set_limits(tuple(None if a == "n" else int(a) for a in args))
                return "ok"
            if op == "rmcols":
                self.table.remove_columns([dec_str(a) for a in args])
                return "ok"
            if op == "ctorobj":
                t = PPTable(self.records, fmt_obj=self.table.fmt, header=self.kw.get("header"),
                            footer=self.kw.get("footer"))
                self.table = t
                return "ok"
            if op in ("ctor", "ctorlast"):
                if op == "ctorlast" and self.last is None:
                    return "err NoTable"
                kw = _ctor_kw(self.records, self.kw, dec_str(args[0]) if op == "ctor" else self.last)
                t = PPTable(self.records, **kw)
                self.table, self.kw = t, kw
                return "ok"
            return "bad-op"
        except Exception as e:
            return "err " + type(e).__name__


def sub_fmt(s, idxs, plain):
    """a columns-only format made of the column descriptions of the reported format `s` standing at the places
    `idxs` (modulo their number), verbatim or - `plain` - without the '(width)' suffix of a printed ranged column"""
    cols = s.split(";")[0]
    parts = cols.split(",") if cols else []
    chosen = [parts[i % len(parts)] for i in idxs] if parts else []
    if plain:
        chosen = [p[:p.rindex(":")] + re.sub(r"\(\d+\)$", "", p[p.rindex(":"):]) if ":" in p else p for p in chosen]
    return ",".join(chosen)


def enc_direct(desc):
    """the columns of a description as ReprColumn objects + the two limits of the PPTableFormat"""
    fields = {f["name"]: f for f in desc["fields"]}
    out = ["Q", str(len(desc["cols"]))]
    for c in desc["cols"]:
        f = fields[c["f"]]
        lo, hi = c["w"] if c["w"] is not None else ((f["custom"]["min"], f["custom"]["max"]) if f.get("custom") else (1, 999))
        out += [enc_str(c["f"]), "none" if c.get("mod") is None else enc_str(c["mod"]), "1" if c.get("brk") else "0",
                str(lo), str(hi)]
    nf, nl = c12.effective_limits(desc)
    out += ["n" if nf is None else str(nf), "n" if nl is None else str(nl)]
    return " ".join(out)


def _build_direct(records, kw, q):
    """PPTable(records, fmt_obj=PPTableFormat(ReprStructure(<record structure of fields=>, [ReprColumn ...]), f, l))"""
    from ak.ppobj import PPTable, PPTableFormat, ReprStructure, ReprColumn
    rs = PPTableFormat.make(None, kw.get("fields"), kw.get("fields_types"), kw.get("fields_titles"),
                            records[0] if records else None).repr_structure.record_structure
    p = c12._Toks(q)
    if p.tok() != "Q":
        raise ValueError("Q")
    cols = []
    for _ in range(int(p.tok())):
        name, mod, brk, lo, hi = dec_str(p.tok()), p.opt(), p.tok() == "1", int(p.tok()), int(p.tok())
        cols.append(ReprColumn(rs.get_field(name), mod, brk, lo, hi))
    lims = [None if x == "n" else int(x) for x in (p.tok(), p.tok())]
    fobj = PPTableFormat(ReprStructure(rs, cols), lims[0], lims[1])
    return PPTable(records, fmt_obj=fobj, header=kw.get("header"), footer=kw.get("footer"))


def _show_parsed(fmt):
    """canonical text of `_PPTableParsedFmt(fmt)` (internal state: a diagnostic line)"""
    from ak.ppobj import _PPTableParsedFmt
    p = _PPTableParsedFmt(fmt)
    cols = p.cols_parsed_fmt.columns

    def opt(x):
        return "none" if x is None else "some:" + enc_str(x)
    if cols == "":
        c = "keep"
    elif cols == "*":
        c = "all"
    else:
        c = "cols " + " ".join("(%s %s %d %s %s %s)" % (enc_str(x.field_name), opt(x.fmt_modifier), 1 if x.break_by else 0,
                                                        opt(x.value_path), x.min_w, x.max_w) for x in cols)
    v = "None" if p.vis_lines is None else "%s:%s" % p.vis_lines
    return c + " ; " + v


def observable(i, line):
    # `parse` shows the parser's internal record: a diagnostic
    return not line.startswith("parse ")


_FMT_CHARS = "ab :,;!/<-()*0123456789_+\t\xa0"


def gen_parse_lines(rng, n):
    for _ in range(n):
        k = rng.random()
        if k < 0.5:
            s = "".join(rng.choice(_FMT_CHARS) for _ in range(rng.randint(0, 14)))
        else:
            cols = [{"f": rng.choice(["a", "b c", "x"]), "mod": rng.choice([None, None, "val", "m/n"]),
                     "brk": rng.random() < 0.3, "w": rng.choice([None, "hidden", [2, 2], [0, 7], [3, 12]])}
                    for _ in range(rng.randint(1, 3))]
            s = c12.fmt_str(rng, cols, rng.choice([None, "*", [rng.randint(0, 30), rng.randint(0, 30)]]))
            if k < 0.75:       # one edit
                i = rng.randrange(len(s) + 1)
                s = s[:i] + rng.choice(_FMT_CHARS) + s[i + rng.randint(0, 1):]
        yield s


def _ctor_kw(records, kw, fmt):
    """arguments of `PPTable(records, fmt=s, <the same fields>)`; a table that was built without `fields` is
    rebuilt without `fields` as well - the literal call of the property (known finding fieldless_ctor_route)"""
    kw = dict(kw)
    kw.pop("limits", None)
    kw.pop("skip_columns", None)
    kw["fmt"] = fmt
    kw.pop("_names", None)      # a field-less table is rebuilt literally: without `fields`
    return kw


def impl(case):
    live = _Live()
    return [live.step(line) for line in case["lines"]]


def _replay(lines):
    live = _Live()
    for l in lines:
        live.step(l)
    return live


def _render(table):
    try:
        return c12.render_lines(table)
    except Exception as e:
        return "err " + type(e).__name__


# ------------------------------------------------------------------ oracle: the property itself
def oracle(case, replies):
    from ak.ppobj import PPTable
    lines = case["lines"]
    if not case.get("desc", {}).get("valid"):
        return None
    for i, (line, rep) in enumerate(zip(lines, replies)):
        op = line.split()[0]
        if op == "str" and rep.startswith("ok "):
            # the reported string, fed back both ways, must reproduce the table as it is at this moment
            s = dec_str(rep[3:])
            ref = _replay(lines[:i])
            if ref.table is None:
                continue
            want = _render(ref.table)
            if isinstance(want, str):
                continue               # the table itself cannot be printed: nothing to reproduce
            want_fmt = str(ref.table.fmt)
            a = _replay(lines[:i])
            try:
                a.table.fmt = s
            except Exception as e:
                return "setter-rejects: table.fmt = %r raises %s" % (s, type(e).__name__)
            got = _render(a.table)
            if got != want:
                return "setter-differs: after table.fmt = %r the table prints differently" % s
            if str(a.table.fmt) != want_fmt:
                return "setter-format: after table.fmt = %r and printing, the format reads %r, not %r" % (
                    s, str(a.table.fmt), want_fmt)
            kw = _ctor_kw(ref.records, ref.kw, s)
            try:
                t2 = PPTable(ref.records, **kw)
            except Exception as e:
                return "ctor-rejects: PPTable(records, fmt=%r) raises %s" % (s, type(e).__name__)
            got = _render(t2)
            if isinstance(got, str):
                return "ctor-print-fails: PPTable(records, fmt=%r) is accepted but cannot be printed (%s)" % (s, got[4:])
            if got != want:
                return "ctor-differs: PPTable(records, fmt=%r) prints differently" % s
            if str(t2.fmt) != want_fmt:
                return "ctor-format: PPTable(records, fmt=%r), printed, has format %r, not %r" % (s, str(t2.fmt), want_fmt)
        elif op == "ctorobj" and rep == "ok":
            # the format handed over as an object reproduces the table as well
            before = _replay(lines[:i])
            after = _replay(lines[:i + 1])
            if before.table is None or isinstance(_render(before.table), str):
                continue
            if _render(before.table) != _render(after.table):
                return "fmt_obj-differs: PPTable(records, fmt_obj=table.fmt) prints differently"
            if str(before.table.fmt) != str(after.table.fmt):
                return "fmt_obj-format: PPTable(records, fmt_obj=table.fmt), printed, reads %r, not %r" % (
                    str(after.table.fmt), str(before.table.fmt))
        elif op == "set" and dec_str(line.split()[1]) in ("", ";", ";;"):
            if rep != "ok":
                if rep == "err NoTable":
                    continue
                return "noop-rejects: table.fmt = %r gives %s" % (dec_str(line.split()[1]), rep)
            before = _replay(lines[:i])
            after = _replay(lines[:i + 1])
            if before.table is None:
                continue
            if _render(before.table) != _render(after.table):
                return "noop-differs: table.fmt = %r changed the table" % dec_str(line.split()[1])
            if str(before.table.fmt) != str(after.table.fmt):
                return "noop-format: table.fmt = %r changed the printed format" % dec_str(line.split()[1])
    return None


def _known_fieldless_ctor_route(case):
    """the table was built without `fields`; the failing step is the constructor route without `fields`;
    the new table is accepted and raises AttributeError when printed"""
    first = case["lines"][0].split()
    if first[0] not in ("new", "newobj") or first[1] != "F-":
        return False
    msg = oracle(case, impl(case))
    return bool(msg) and msg.startswith("ctor-print-fails") and msg.endswith("(AttributeError)")


KNOWN = {"fieldless_ctor_route": _known_fieldless_ctor_route}


# ------------------------------------------------------------------ generators
def name_expressible(n):
    """what a format string can say about a field name (measured on HEAD): no , : ; / in it, no '<-', no blank at
    either end, no '!' at the end; an inner '!', parentheses, '-', a lone '<' are fine"""
    return not (set(n) & set(",:;/")) and "<-" not in n and n == n.strip() and not n.endswith("!")


def _safe_desc(rng, big=False):
    """C12's tables with field names the serialised form can express"""
    while True:
        d = c12.gen_desc(rng, big)
        if all(name_expressible(f["name"]) for f in d["fields"]):
            return d


def gen_sibling_ops(rng, desc):
    """two tables from one format object with different data: one is printed, then the other is read and printed"""
    second = {"records": c12.gen_records_like(rng, desc, rng.choice([0, 1, 2, 4, 7])) if desc.get("fields") and
              all("enum" in f for f in desc["fields"]) else [],
              "limits": None, "header": rng.choice([None, "S"]), "footer": rng.choice([None, ""]), "skip": None}
    ops = ["sib " + c12.enc_rest(second)]
    ops += rng.choice([["print"], ["print", "str"], []])
    ops += ["swap", "str"] + rng.choice([["print", "str"], ["setlast", "print"], ["ctorlast", "print"], ["print"]])
    if rng.random() < 0.5:
        ops += ["swap", "str", "print"]
    return ops


def gen_history(rng, desc):
    ops = []
    n = rng.choice([2, 3, 4, 5, 6, 8])
    names = [f["name"] for f in desc["fields"]]
    if rng.random() < 0.25:
        ops += gen_sibling_ops(rng, desc)
    for _ in range(n):
        k = rng.random()
        if k < 0.22:
            ops.append("str")
        elif k < 0.42:
            ops.append("print")
        elif k < 0.57:
            ops += ["str", "setlast"]
        elif k < 0.66:
            ops += ["str", "ctorlast"]
        elif k < 0.70:
            ops.append("ctorobj")
        elif k < 0.73:
            # the limits of the live format object changed in place, in any state (fresh, printed, re-formatted)
            ops += rng.choice([[], ["print"], ["print", "str"]]) + \
                   ["setlim %s %s" % (rng.choice(["n", 0, 1, 2, 4]), rng.choice(["n", 0, 1, 3])), "str"]
        elif k < 0.78:
            # columns removed from the live format object, between two reads of the format
            gone = [n for n in names + ["no such column"] if rng.random() < 0.4][:max(1, len(names) - 1)]
            # (in any state: fresh, printed, re-formatted)
            ops += rng.choice([["str"], ["print", "str"], ["print"], ["set " + enc_str(""), "str"], []]) + \
                   ["rmcols " + " ".join(enc_str(g) for g in gone), "str"]
        elif k < 0.80:
            ops.append("set " + enc_str(rng.choice(["", ";", ";;"])))
        elif k < 0.85 and all(name_expressible(n) for n in names):
            # re-format with some of the table's OWN column descriptions as reported now (dropped / moved / repeated;
            # verbatim or without the '(width)' suffix), no limits part; in any state: fresh, printed, re-formatted
            ops += rng.choice([[], ["print"], ["print", "str"], ["str"]]) + \
                   ["setsub %s %s" % (rng.choice("vp"), " ".join(str(rng.randint(0, 5)) for _ in range(rng.randint(1, 4)))),
                    "str"]
        elif k < 0.93:
            # another well-formed format for the same fields
            cols = None
            if rng.random() < 0.8:
                cols = []
                for _ in range(rng.randint(1, 3)):
                    cols.append(c12.gen_col(rng, rng.choice(desc["fields"])))
            lim = rng.choice([None, None, "*", [rng.randint(0, 4), rng.randint(0, 4)]])
            ops.append("set " + enc_str(c12.fmt_str(rng, cols, lim)))
        else:
            ops.append("set " + enc_str(rng.choice([
                "nosuch", names[0] + ":x", names[0] + ":1:2", ";1", ";;;", names[0] + "/bad", names[0] + ":2-5(2",
                names[0] + ":-1", "*;*", names[0] + ":2-5(2)", names[0] + ":3(3)", names[0] + " : 2 - 5 ( 2 ) "])))
    ops += ["str", "print", "str", rng.choice(["setlast", "ctorlast", "setlast", "ctorlast", "ctorobj"]), "print", "str"]
    return ops


def gen_default_limits_case(rng):
    """limits at and around the code's own default pair (read from the source by the translator) on tables long
    enough for them to apply: the one place where 'just the defaults' could be mistaken for 'nothing to say'"""
    from harness import core
    f, l = c12.extract_constants(core.REPO)["dfltLimits"]
    lim = list(rng.choice([(f, l), (f, l), (f, l), (f - 1, l), (f, l + 1), (l, f), (f + 1, l - 1), (f, l - 1)]))
    n = rng.choice([f + l - 5, f + l + 1, f + l + 2, f + l + 10, f + l + 30])
    fields = [{"name": nm, "enum": None, "title": None} for nm in rng.sample(["id", "grp", "name", "x y"], rng.randint(1, 3))]
    records = [[(i if k == 0 else (i // 3 if k == 1 else "v%d" % (i % 7))) for k in range(len(fields))] for i in range(n)]
    cols = [{"f": fl["name"], "mod": None, "brk": (k == 1 and rng.random() < 0.5), "w": c12.gen_width(rng)}
            for k, fl in enumerate(fields)]
    how = rng.choice(["fmt", "kwarg", "set"])
    desc = {"valid": True, "fields": fields, "records": records, "cols": cols, "header": None, "footer": None, "skip": None,
            "fmt_limits": lim if how == "fmt" else None, "limits": lim if how == "kwarg" else None}
    desc["fmt"] = c12.fmt_str(rng, cols, desc["fmt_limits"], plain=True)
    ops = []
    if how == "set":
        ops.append("set " + enc_str(";%d:%d" % tuple(lim)))
    ops += rng.choice([["str", "ctorlast", "print", "str"], ["print", "str", "ctorlast", "print", "str"],
                       ["str", "setlast", "print", "str", "ctorlast", "print"]])
    return _case(desc, ops, "default-limits")


def gen_setlim_printed_case(rng):
    """set_limits on a PRINTED table (fixed and ranged columns, values of different lengths so that the widths
    fitted to the old visible rows differ from those of the new ones): neither the flag 'lines were skipped' nor
    the widths of the last print may survive the change"""
    nf = rng.randint(1, 3)
    fields = [{"name": nm, "enum": None, "title": None} for nm in rng.sample(["id", "grp", "name", "x y"], nf)]
    n = rng.choice([3, 5, 6, 8, 12])
    wide = rng.randrange(n)
    records = [[(i if k == 0 else (i // 2 if k == 1 else "v" * (8 if i == wide else 1 + i % 3))) for k in range(nf)]
               for i in range(n)]
    cols = []
    for k, fl in enumerate(fields):
        w = rng.choice([0, 2, 3, 6])
        cols.append({"f": fl["name"], "mod": None, "brk": k == 1 and rng.random() < 0.5,
                     "w": rng.choice([[w, w], None, None, [1, 12], [0, 5]])})
    lim0 = rng.choice([None, "*", [5, 5], [rng.randint(0, 4), rng.randint(0, 4)], [12, 12]])
    desc = {"valid": True, "fields": fields, "records": records, "cols": cols, "header": None, "footer": None, "skip": None,
            "fmt_limits": lim0, "limits": None}
    desc["fmt"] = c12.fmt_str(rng, cols, lim0, plain=True)
    ops = ["print"] + rng.choice([[], ["str"]])
    ops += ["setlim %s %s" % (rng.choice(["n", 0, 1, 2, 4, 9]), rng.choice(["n", 0, 1, 3, 9])), "str",
            rng.choice(["ctorlast", "setlast"]), "print", "str"]
    return _case(desc, ops, "set_limits-after-print")


def gen_resub_case(rng):
    """a table with limits that hide records and (mostly) a break-by column is printed, then re-formatted with a
    columns-only format made of its own reported column descriptions - one dropped (often the break-by column: other
    records come into view), or moved, or repeated - then read back through both routes. Whatever the first print
    negotiated must not outlive the new format."""
    nf = rng.randint(2, 4)
    fields = [{"name": nm, "enum": None, "title": None} for nm in rng.sample(["id", "grp", "name", "x y", "qty!=0"], nf)]
    n = rng.choice([5, 6, 7, 8, 10, 12])
    wide, wcol = rng.randrange(n), rng.randrange(nf)
    grp = rng.choice([1, 2, 2, 3])
    records = [[(i // grp if k == 1 else ("w" * rng.randint(6, 14) if (i == wide and k == wcol) else
                                          (i if k == 0 else "v" * (1 + i % 3)))) for k in range(nf)] for i in range(n)]
    cols = []
    for k, fl in enumerate(fields):
        w = rng.choice([2, 3, 6])
        cols.append({"f": fl["name"], "mod": None, "brk": k == 1 and rng.random() < 0.8,
                     "w": rng.choice([[w, w], None, None, [1, 30], [1, 20], [0, 9]])})
    if rng.random() < 0.3:
        rng.shuffle(cols)
    lim0 = rng.choice([[1, 1], [2, 2], [2, 1], [1, 3], [3, 2], [0, 2], [rng.randint(0, 4), rng.randint(0, 4)], None])
    desc = {"valid": True, "fields": fields, "records": records, "cols": cols, "header": None, "footer": None, "skip": None,
            "fmt_limits": lim0, "limits": None}
    desc["fmt"] = c12.fmt_str(rng, cols, lim0, plain=True)
    idxs = list(range(nf))
    how = rng.choice(["drop-break", "drop-break", "drop", "move", "repeat"])
    if how == "drop-break":
        idxs = [i for i, c in enumerate(cols) if not c["brk"]]
    elif how == "drop":
        idxs.pop(rng.randrange(nf))
    elif how == "repeat":
        idxs.append(rng.randrange(nf))
    if how == "move" or rng.random() < 0.3:
        rng.shuffle(idxs)
    ops = rng.choice([["print"], ["print"], ["print", "str"], ["str"], []])
    if rng.random() < 0.15:
        # the other half of a format alone: no columns section, new limits (other records come into view as well)
        how = "limits-only"
        ops.append("set " + enc_str(rng.choice(["", "*"]) * (rng.random() < 0.2) + ";" + rng.choice(
            ["*", "9:9", "%d:%d" % (rng.randint(0, 5), rng.randint(0, 5)), "0:%d" % n, "%d:0" % n])))
    else:
        ops.append("setsub %s %s" % (rng.choice("vp"), " ".join(map(str, idxs))))
    ops += ["str", rng.choice(["ctorlast", "setlast"]), "print", "str"]
    return _case(desc, ops, "own-columns-reformat:" + how)


def _case(desc, ops, kind, direct=False):
    if direct:
        # the format is built from ReprColumn objects: the first string that meets the parser is str(table.fmt)
        d0 = dict(desc, fmt=None, limits=None, skip=None)
        first = "newobj " + c12.encode(d0) + " @ " + enc_direct(desc)
        return {"lines": [first] + ops, "desc": desc, "meta": {"kind": kind + "-from-objects"}}
    return {"lines": ["new " + c12.encode(desc)] + ops, "desc": desc, "meta": {"kind": kind}}


def corpus():
    # the defect of the pinned tree: a printed ranged column reads "a:2-5(2)"
    desc = {"valid": True, "fields": [{"name": "a", "enum": None, "title": None}, {"name": "b", "enum": None, "title": None}],
            "records": [[1, "abc"], [22, "defgh"]],
            "cols": [{"f": "a", "mod": None, "brk": False, "w": [2, 5]}, {"f": "b", "mod": None, "brk": True, "w": [1, 9]}],
            "fmt_limits": [3, 2], "limits": None, "header": None, "footer": None, "skip": None, "fmt": "a:2-5,b!:1-9;3:2"}
    yield _case(desc, ["str", "print", "str", "setlast", "print", "str", "ctorlast", "print", "str"], "corpus-printed-range")
    # the defect fixed by 3b63cdc: set_limits kept the 'lines skipped' flag of the last print
    desc = {"valid": True, "fields": [{"name": "a", "enum": None, "title": None}, {"name": "b", "enum": None, "title": None}],
            "records": [[i, "x"] for i in range(6)],
            "cols": [{"f": "a", "mod": None, "brk": False, "w": None}, {"f": "b", "mod": None, "brk": False, "w": None}],
            "fmt_limits": [5, 5], "limits": None, "header": None, "footer": None, "skip": None, "fmt": "a,b;5:5"}
    yield _case(desc, ["print", "setlim 1 1", "str", "ctorlast", "print", "str"], "corpus-set_limits-stale-flag")
    # the defect fixed by 1d22ea8: set_limits kept the widths fitted to the rows visible with the old limits
    desc = dict(desc, records=[[i, "x" * (8 if i == 3 else 1)] for i in range(6)])
    yield _case(desc, ["print", "setlim 1 1", "str", "setlast", "print", "str"], "corpus-set_limits-stale-widths")
    yield _case(desc, ["print", "setlim 1 1", "str", "ctorlast", "print", "str"], "corpus-set_limits-stale-widths")
    # the defect fixed by adb5d03: remove_columns kept the widths fitted to the rows visible with the break-by column
    desc = {"valid": True, "fields": [{"name": "g", "enum": None, "title": None}, {"name": "a", "enum": None, "title": None}],
            "records": [["g1", "x"], ["g1", "xbx"], ["g2", "b"], ["g2", "c"]],
            "cols": [{"f": "g", "mod": None, "brk": True, "w": None}, {"f": "a", "mod": None, "brk": False, "w": None}],
            "fmt_limits": [0, 3], "limits": None, "header": None, "footer": None, "skip": None, "fmt": "g!,a;0:3"}
    yield _case(desc, ["print", "rmcols " + enc_str("g"), "str", "setlast", "print", "str"], "corpus-remove_columns-stale-widths")
    yield _case(desc, ["print", "rmcols " + enc_str("g"), "str", "ctorlast", "print", "str"], "corpus-remove_columns-stale-widths")


def gen_cases(rng, tier):
    quick = tier == "quick"
    for i in range(1500 if quick else 40000):
        desc = _safe_desc(rng, big=(not quick) and i % 10 == 0)
        direct = (desc["cols"] is not None and desc["skip"] is None and rng.random() < 0.35
                  and all(c["w"] != "hidden" for c in desc["cols"]))
        yield _case(desc, gen_history(rng, desc), "history", direct)
    for _ in range(40 if quick else 1500):
        desc = c12.gen_fieldless(rng)
        yield _case(desc, gen_history(rng, {"fields": desc["oracle_fields"]}), "fieldless")
    for _ in range(200 if quick else 5000):
        desc = c12.gen_malformed(rng)
        yield _case(desc, gen_history(rng, desc), "malformed")
    for _ in range(120 if quick else 2500):
        yield gen_default_limits_case(rng)
    for _ in range(200 if quick else 4000):
        yield gen_setlim_printed_case(rng)
    for _ in range(250 if quick else 5000):
        yield gen_resub_case(rng)
    for s in gen_parse_lines(rng, 1500 if quick else 60000):
        yield {"lines": ["parse " + enc_str(s)], "meta": {"kind": "parse"}}
    if not quick:
        yield from search_cases(rng, tier)


def search_cases(rng, tier):
    """every shape of one column (fixed, ranged, default; modifier; break-by) x every pair of small limits, read back
    at all three points of the life cycle through both routes"""
    enum = {"keys": [[1, "one"], [20, "twenty"]], "missing": None}
    for w in (None, [0, 0], [3, 3], [0, 2], [2, 5], [4, 4]):
        for mod in (None, "val", "name", "full"):
            for brk in (False, True):
                for lim in (None, "*", [0, 0], [1, 0], [0, 1], [1, 1], [2, 2]):
                    for nrec in (0, 1, 4):
                        desc = {"valid": True,
                                "fields": [{"name": "a", "enum": enum if mod else None, "title": None},
                                           {"name": "b c", "enum": None, "title": None}],
                                "records": [[[1, 20, 7, None][i % 4], "v%d" % (i // 2)] for i in range(nrec)],
                                "cols": [{"f": "a", "mod": mod, "brk": brk, "w": w},
                                         {"f": "b c", "mod": None, "brk": not brk, "w": [1, 4]}],
                                "fmt_limits": lim, "limits": None, "header": None, "footer": None, "skip": None}
                        desc["fmt"] = c12.fmt_str(rng, desc["cols"], lim, plain=True)
                        for route in ("setlast", "ctorlast"):
                            yield _case(desc, ["str", route, "print", "str", route, "print", "str", route, "str", "print"],
                                        "search-shape")


def shrink(case):
    lines = case["lines"]
    for i in range(len(lines) - 1, 0, -1):
        yield {"lines": lines[:i] + lines[i + 1:], "desc": case.get("desc"), "meta": case.get("meta", {})}
    desc = case.get("desc")
    if desc is None:
        return
    direct = lines[0].startswith("newobj ")
    for small in c12.shrink({"lines": ["tbl " + c12.encode(desc)], "desc": desc, "meta": {}}):
        d = small["desc"]
        if direct and (d.get("cols") is None or d.get("skip") is not None):
            continue
        c = _case(d, lines[1:], "history", direct)
        c["meta"] = case.get("meta", {})
        yield c


def nontrivial(case, replies):
    if case["lines"][0].startswith("parse "):
        return True
    return len(replies) > 1 and any(r.startswith("ok ") for r in replies[1:])


def tags(case, replies):
    yield case.get("meta", {}).get("kind", "?")
    printed = False
    for line, rep in zip(case["lines"], replies):
        op = line.split()[0]
        yield "op:" + op + (":err" if rep.startswith("err") else "")
        if op == "print" and rep.startswith("ok"):
            printed = True
        if op == "str" and rep.startswith("ok "):
            s = dec_str(rep[3:])
            if any(x.count("/") > 1 for x in s.split(";")[0].split(",")):
                yield "str:modifier-with-slash"
            if "(" in s:
                yield "str:with-negotiated-width"
            if ";" in s:
                yield "str:with-limits"
            yield "str:printed" if printed else "str:fresh"
        if op == "setlim":
            yield "history:set_limits" + ("-after-print" if printed else "")
        if op == "rmcols":
            yield "history:columns-removed" + ("-after-print" if printed else "")
        if op == "setsub" and rep == "ok":
            yield "history:own-columns-reformat" + ("-after-print" if printed else "") + \
                  (":plain" if line.split()[1] == "p" else ":verbatim")
        if op in ("setlast", "ctorlast", "set", "setsub", "ctor", "new", "newobj", "ctorobj") and rep == "ok":
            printed = False
        if op == "swap" and rep == "ok":
            yield "sibling:swapped-in"
            printed = False


RULE = ("histories over C12's tables (field names the serialised form can express; user-written field types with "
        "free-text modifiers incl. '/'): new - or newobj: the format built from ReprColumn objects, no parser - then 2-8 of str / print / "
        "str+setlast / str+ctorlast / [str, print,] rmcols (table.remove_columns), str / ctorobj (fmt_obj=table.fmt) / sib+swap (a second table from the same format "
        "object with other records, printed and read in either order) / set ''|';'|';;' / set <another well-formed format> / set <malformed> / "
        "[print, [str,]] setsub (table.fmt = a columns-only string made of the table's own reported column descriptions: "
        "dropped, moved, repeated; verbatim or without '(width)'), str; always "
        "ending with str, print, str, setlast|ctorlast, print, str; tables of 45-80 records with limits at and around "
        "the code's own default pair (taken from the source) fed back through both routes; set_limits on printed tables; "
        "tables with limits that hide records and a break-by column, printed, then re-formatted with their own column "
        "descriptions minus one (mostly the break-by column) / reordered / one repeated - or with new limits and no "
        "columns section -, then read back through both routes; plus `parse <fmt>` lines (fuzzed and edited format "
        "strings; the parser's internal record is compared as a diagnostic). non-trivial = at least one later step answered "
        "with data; distinct by protocol text")
TRUSTED = list(c12.TRUSTED)
ASSUMPTIONS = list(c12.ASSUMPTIONS) + [
    "field names contain none of , : ; / and no '<-', have no surrounding blanks and do not end in '!' (what HEAD "
    "cannot express in a format string; inner '!', parentheses, '-' and a lone '<' are in the domain; the theorems "
    "exclude '<' altogether)",
    "a print that raises ends the history (the half-updated format object is not modelled)",
    "set_limits and remove_columns are issued, judged and covered (Reach.setLimits, Reach.removeCols) in any state"]
LEVEL_TEXT = ("Kernel-checked on the model, for tables built with explicit expressible field names (modifiers of "
              "user-written field types: free text without , : ; ! < and no trailing blank, '/' allowed) and all "
              "histories in Reach: construction from a string / from column objects / from another reachable table's "
              "format object (siblings), printing, table.fmt = <any string>, re-construction from any string, and - on "
              "table.fmt.set_limits(...) and table.remove_columns(...) in any state. "
              "reformat_own_columns(+_pick): table.fmt = <some of the column descriptions str(table.fmt) reports now, "
              "dropped / moved / repeated, verbatim or without '(width)', no limits part> is accepted in every reachable "
              "state (after a print, with limits and break-by columns too); the new columns are the picked ones and none "
              "has a negotiated width (a description repeated word for word inherits nothing), fields and limits stay, "
              "the state is in Reach - so the theorems below hold for it. "
              "parse_print: the printed string is accepted and reads back as the same columns (name, modifier, break-by, "
              "bounds; the '(width)' suffix ignored) and as the same limits when they are in the string - they are left "
              "out when the last printing skipped nothing. same_rendering_setter: same lines, same fields and columns, "
              "limits that act the same on every body. same_rendering_ctor (natural limits): same lines, same fields "
              "and columns; the limits are only RENDERING-equivalent on this route: when they were left out of the "
              "string the new table has none, which prints the same because nothing was skipped (SkipFaithful). "
              "format_after_print: after the next printing both routes report the same string as the original. "
              "empty_noop: '', ';', ';;' change nothing. fieldless: a field-less table equals the table built with the "
              "automatic names col_1.. passed as fields= (so the above holds for THAT call); the literal constructor "
              "call without fields= fails at print (fieldless_literal_fails, known finding fieldless_ctor_route). "
              "Model = code rests on the differential run of histories.")
LEVEL_NOTE = ("Trusted: Lean kernel, translator (constants shared with C12), adapter/wire in harness/c12.py and c13.py, "
              "sampled correspondence. The fmt_obj route (ctorobj, sib: PPTable(records, fmt_obj=table.fmt)) is inside Reach "
              "(Reach.fromObj), so the invariants and the theorems about the NEW table's own str/set/ctor hold; that the "
              "new table prints the same lines as the one whose format object it took is stated by the oracle and the tie "
              "only (no theorem compares the two). Tie only, not judged by the oracle: records.append after a print (a change of the data, not of "
              "the format: the widths stay as fitted to the rows visible before). Not covered: negative limits on the "
              "constructor route (not faithful, reported), enhanced formats.")
TECHNIQUE = "Lean 4 theorems (string round trip on List Char, reachability invariants) + differential run of histories"
