"""C01 — every parse result is a valid derivation of the user's grammar (ak/llparser.py)."""
from harness import ll_common as ll

PROPERTY = "C01"
STATEFUL = True
READY = True
THEOREMS = ["C01.run_sound", "C01.table_wf", "C01.factorize_ok", "C01.factorize_ordered", "C01.parse_valid",
            "C01.tokens_no_end", "C01.names_faithful", "C01.parse_from_valid", "C01.no_memory"]
RULE = ("one case = one generated grammar (generators: unbiased / mostly non-left-recursive / shaped incl. 3-4 same-prefix "
        "alternatives in every order / LL(1)-ish / hidden recursion / DFS shapes / late FIRST-FOLLOW chains / malformed incl. "
        "reserved names; 1-6 non-terminals with permuted names; 11 token configurations: synonyms, keywords, default / explicit / "
        "empty skip sets incl. a SPACE-named terminal, COMMENT; start symbol default or explicit), constructed with "
        "smart_factorization True and False; on EACH parser object: every token string up to the tier's length + sampled "
        "sentences, then call sequences parse(text, start_symbol_name=X) followed by a plain parse(text), then is_ambiguous() "
        "again; non-trivial = at least one returned tree and at least one ParsingError in the case; distinct by protocol text")
TRUSTED = ["re (lexemes are found by the harness with the tokenizer's own pattern)"]
ASSUMPTIONS = ["hypotheses of C01.parse_valid: the start symbol is one of the keys of `productions` (the constructor accepts "
               "start_symbol_name='E__S00', a helper key of the factorised dictionary; the root of the tree is then a helper "
               "symbol - kernel-evaluated example in Props/C01.lean; such start symbols are not generated); no lexeme is named "
               "$END$ (C01.tokens_no_end: implied by `$END$` not being a group / synonym target / keyword target)",
               "Python names are decoded into structured symbols (base, helper path) by the model's parseSym"]


def impl(case):
    return ll.impl(case)


def oracle(case, replies):
    g, start, ok = None, None, False
    for line, rep in zip(case["lines"], replies):
        op = line.split()[0]
        if op == "g":
            spec, smart = ll.dec_g(line)
            g, start, ok = ll.user_grammar(spec), ll.start_of(spec), rep.startswith("ok")
        elif op in ("p", "ps") and ok:
            root = start
            if op == "ps":
                root = line.split()[1]
                if root not in g:        # not one of the user's symbols: the property does not speak about it
                    continue
            if rep.startswith("tree "):
                try:
                    tree = ll.read_sexp(rep[5:])
                except Exception as e:
                    return "unreadable-tree: %s" % rep[:80]
                text = ll.dec_p(line)
                msg = ll.check_tree(g, root, tree, ll.expected_tokens(case, text))
                if msg:
                    return "%s (input %r, %s, smart=%s)" % (
                        msg, text, "start_symbol_name=%r" % root if op == "ps" else "default start symbol", smart)
            elif rep.startswith("crash") or rep == "err AssertionError":
                return "tree-shape: %s on input %r" % (rep[:80], ll.dec_p(line))
    return None


def gen_cases(rng, tier):
    if tier == "quick":
        yield from ll.gen_ll_cases(rng, 1200, 4, malformed_share=0.07)
    else:
        yield from ll.gen_ll_cases(rng, 12000, 5, extra_long=10)
        yield from ll.tiny_grammars(rng, limit=20000)


def corpus():
    return [ll.witness_case(), ll.dunder_witness_case()]


def search_cases(rng, tier):
    yield from ll.tiny_grammars(rng, limit=None if tier == "thorough" else 30000)


shrink = ll.shrink
tags = ll.tags
nontrivial = ll.nontrivial
observable = ll.observable

LEVEL_TEXT = ("Kernel-checked for ALL grammars, token lists and both smart_factorization values on the executable model of "
              "LLParser.__init__ + parse: a returned tree is rooted at the start symbol, every inner node is one of the user's "
              "productions, leaves are exactly the non-skipped tokens, no helper symbol occurs (C01.parse_valid = soundness of "
              "the backtracking loop C01.run_sound + table well-formedness C01.table_wf + correctness of common-prefix "
              "factorisation incl. the smart undo C01.factorize_ok, which also keeps the order = priority of the alternatives, "
              "C01.factorize_ordered); the same for parse(text, start_symbol_name=X) "
              "(C01.parse_from_valid); a parser object has no memory between calls (C01.no_memory: every request except "
              "construct/reset leaves the parser unchanged). model = code is established by a differential run: "
              "constructor outcome, is_ambiguous() and every raw tree / error class compared on generated grammars x all short "
              "token strings; prods_map, suffix set, table, nullables, FIRST, FOLLOW compared as diagnostics.")
LEVEL_NOTE = ("Trusted: Lean kernel (axioms propext, Classical.choice, Quot.sound), harness adapter/oracle, sampled "
              "correspondence, re for lexemes. Hypotheses of the composed theorem: start symbol is a user key, no lexeme named "
              "$END$ (see ASSUMPTIONS); the reserved-name assertions of the constructor (repaired by a1a7d93 for right-hand sides) "
              "are part of the model and exercised by a malformed stream.")
TECHNIQUE = "Lean 4 theorems (invariant of the stack machine, induction over factorisation) + differential testing against the real LLParser"
