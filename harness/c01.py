"""C01 — every parse result is a valid derivation of the user's grammar (ak/llparser.py)."""
from harness import ll_common as ll

PROPERTY = "C01"
STATEFUL = True
READY = True
THEOREMS = ["C01.run_sound", "C01.table_wf", "C01.factorize_ok", "C01.factorize_ordered", "C01.parse_valid",
            "C01.tokens_no_end", "C01.parse_from_valid", "C01.parse_valid_templates", "C01.parse_from_valid_templates",
            "C01.seq_flatten_yield"]
RULE = ("one case = one generated grammar (generators: unbiased / mostly non-left-recursive / shaped incl. 3-4 same-prefix "
        "alternatives in every order / LL(1)-ish / hidden recursion / DFS shapes / late FIRST-FOLLOW chains / malformed incl. "
        "reserved names at any position of any alternative, also behind None / AnyTokenExcept alternatives and with a real "
        "helper of that name in the factorised dictionary; 1-6 non-terminals with permuted names; 24 token configurations: synonyms, "
        "keywords, default / explicit / empty skip sets incl. a SPACE-named terminal, COMMENT, skip sets containing a keyword target "
        "or the base name of keyworded lexemes (directly or through a synonym); span tokens (span_matchers: a multi-line text block that is a terminal, reported under a synonym, "
        "and skipped multi-line comments, several spans per text), synonyms that map a name to itself or chain through another "
        "synonym's source, a blank-per-token terminal with nothing skipped (lines of a caller's list ending in blanks); the "
        "same caller-owned AnyTokenExcept objects in the grammars of two parsers with different token sets; "
        "empty alternatives written () or None, "
        "AnyTokenExcept alternatives; start symbol default or explicit), constructed with "
        "smart_factorization True and False; further dimensions: grammars with ProdSequence / ListProds / MapProds keys, keys with an "
        "empty list of alternatives, skip_tokens passed as set / frozenset / list / tuple / dict keys / generator / iterator / map, "
        "texts as str or as a list of lines, free-text lexemes containing \\x0b \\x0c \\x1c-\\x1e \\x85 \\u2028 \\u2029 and lone \\r, "
        "inputs of 150-2000 tokens for right-recursive grammars, 2-3 parser objects with overlapping symbol names (a template "
        "key of one is an ordinary non-terminal of the other) interleaved in one process; on EACH parser object: every token string up to the tier's length + sampled "
        "sentences, parse with every combination of the documented keyword arguments (debug x do_cleanup x src_name x start_symbol_name "
        "x str / list input; debug output captured; with do_cleanup=True only 'a result is returned' is compared), observer methods "
        "(print_detailed_descr, summary / cleanuper descriptions, str, repr, is_ambiguous) called BETWEEN the parses, templates and "
        "nullable symbols in the common prefix of non-adjacent alternatives whose first member fails behind the prefix, a container "
        "at DIFFERENT positions of two alternatives (its first, failing match covers the place where it is expanded again), "
        "synonym chains on ordinary and span-opening groups, keywords for two token names with values colliding across the "
        "names, one non-terminal occurring 2-3 times in one production, keys that derive nothing ([] or only "
        "AnyTokenExcept(every token)) anywhere in an alternative, "
        "then call sequences parse(text, start_symbol_name=X) followed by a plain parse(text), then is_ambiguous() "
        "again; non-trivial = at least one returned tree and at least one ParsingError in the case; distinct by protocol text; round 8 dimensions: 4 token configurations whose patterns have CONTEXT assertions (`^`, look-behind, \\b; every lexeme rendered at line starts, behind blanks and glued to its neighbour; str and list-of-lines input), ProdSequence templates with an AnyTokenExcept member at the first / a middle / the last position of the argument list (tag seqax), ListProds without delimiter with and without brackets, item nullable or not (tag nodelim), cycles of 1-3 symbols none of which has a base case - token-tailed or epsilon-only, referred to or not, start symbol inside or outside - and their non-recursive twins (generator nobase), long inputs also for containers (sequence, sequence with AnyTokenExcept, 3 list forms, map) of 150 / 990..1100 / 2000 / 5000 items, each long text parsed with do_cleanup=False AND with the default do_cleanup=True when the derivation tree is at most 250 levels deep (tag cleanup:long)")
TRUSTED = ["re (lexemes are found by the harness with the tokenizer's own pattern)"]
ASSUMPTIONS = ["hypotheses of C01.parse_valid: the start symbol is one of the keys of `productions` (the constructor accepts "
               "start_symbol_name='E__S00', a helper key of the factorised dictionary; the root of the tree is then a helper "
               "symbol - kernel-evaluated example in Props/C01.lean; such start symbols are not generated); no lexeme is named "
               "$END$ (C01.tokens_no_end: implied by `$END$` not being a group / synonym target / keyword target)",
               "Python names are decoded into structured symbols (base, helper path) by the model's parseSym (lemma LL.name_parseSym: decoding and printing a name is the identity)",
               "the productions generated by the templates enter the model as data: ProdSequence(m1..mn) is expanded by the harness's "
               "own reference (S -> (S__ELEMENT, S) | (), S__ELEMENT -> (m1,) | .. | (mn,), an AnyTokenExcept member at ANY position "
               "replaced in place by its one-token alternatives), ListProds (with and without delimiter / brackets) and MapProds by "
               "the repo's template classes (their correctness is C05's subject); C01.parse_valid_templates needs that no generated "
               "name has the shape X__Snn (decidable PlainNames); the extra ListProds.verify_grammar stage (a list without "
               "delimiter whose item is nullable -> GrammarError) IS modelled: the driver executes LL.constructGN nonull T, the item "
               "symbols of the delimiter-less lists arrive as the 4th part of the `T=` field (data from the harness)",
               "ProdSequence nodes: the real parse returns them flattened (value = list of members), the model returns the chain "
               "S -> S__ELEMENT S | () and the driver prints it flattened; C01.seq_flatten_yield (flattening succeeds at every "
               "sequence node, keeps root and yield, printed text = rendering of the flattened tree) assumes SeqOK: the symbols the "
               "harness names as sequence symbols (3rd part of `T=`) have exactly the productions S -> E S | (), E -> one symbol each "
               "(decidable; kernel-evaluated on an example in Props/C01.lean, not re-checked by the driver per case) and trees "
               "of fewer than 10^7 nodes",
               "an alternative given as None is the empty alternative and AnyTokenExcept(*names) is the list of its one-token "
               "alternatives when the model sees them (protocol `!` / field AX=); the harness expands AnyTokenExcept itself: the "
               "SET of tokens is the reference's (token groups - synonym sources + synonym and keyword targets), only the order "
               "among them (iteration order of a Python set) is read from the code; the parser is built from the original "
               "None / AnyTokenExcept objects; observer methods are pure in the model (requests `obs-*` answer ok and leave the driver's state unchanged, lemma "
               "LL.handle_keeps_state); `debug` and `src_name` do not enter the model's result; "
               "terminal names containing `__` are not generated; the names listed in AnyTokenExcept are tokens of the parser's "
               "tokenizer (others are a GrammarError of the expansion, which the model does not see)",
               "token patterns with context assertions (`^`, look-behind, \\b: variants ctxbol / ctxbehind / ctxword / ctxdir): "
               "'the tokens of the input' are what `pattern.match(line, pos)` finds from left to right on the WHOLE line - the oracle's "
               "expected tokens come from hand-written naming rules (ll_common.CTX_RULES), the lexemes handed to the model from `re`",
               "default parse(text) (do_cleanup=True) is called on the long inputs too - only 'a result is returned' is compared - but "
               "only when the derivation tree of the user's grammar (a container = one node) is at most 250 levels deep: the clean-up "
               "recurses per tree level, deeper trees are CPython's recursion limit (a resource limit, not judged)",
               "span tokens: the value the reference gives to a span token is the text between opener and closer, its line pieces "
               "joined by '\\n'; generated bodies have no empty line piece and no piece ending in a blank (the tokenizer drops a "
               "line piece that is empty - `<\\n\\nx>` has value 'x' - which the statement does not settle); no keywords "
               "are defined on span tokens (the code does not apply keywords to them)"]


def impl(case):
    return ll.impl(case)


def oracle(case, replies):
    for op, line, rep, ctx in ll.walk(case, replies):
        if op not in ll.PARSE_OPS or ctx is None:
            continue
        g, root = ctx["g"], ctx["start"]
        start_, as_lines, flags = ll.p_info(line)
        if start_ is not None:
            root = start_
            if root not in g:        # not one of the user's symbols: the property does not speak about it
                continue
        if rep.startswith("tree "):
            try:
                tree = ll.read_sexp(rep[5:])
            except Exception as e:
                return "unreadable-tree: %s" % rep[:80]
            text = ll.dec_p(line)
            msg = ll.check_tree(g, root, tree, ll.expected_tokens(case, text, as_lines), ctx["seqs"])
            if msg:
                return "%s (input %s, %s, %s%s, smart=%s)" % (
                    msg, ll._short(text), "start_symbol_name=%r" % root if start_ is not None else "default start symbol",
                    "list of lines" if as_lines else "str", (", kwargs flags %r" % flags) if flags else "", ctx["smart"])
        elif rep.startswith("crash") or rep == "err AssertionError":
            return "tree-shape: %s on input %s" % (rep[:80], ll._short(ll.dec_p(line)))
    return None


def gen_cases(rng, tier):
    yield from ll.gen_long_cases(rng, (150, 700) if tier == "quick" else (150, 500, 2000), big=None if tier == "quick" else 5000)
    if tier == "quick":
        yield from ll.gen_ll_cases(rng, 1100, 4, malformed_share=0.07, tmpl_share=0.09)
    else:
        yield from ll.gen_ll_cases(rng, 12000, 5, extra_long=10)
        yield from ll.tiny_grammars(rng, limit=20000)


def corpus():
    return [ll.witness_case(), ll.dunder_witness_case()]


def search_cases(rng, tier):
    yield from ll.tiny_grammars(rng, limit=None if tier == "thorough" else 30000)


shrink = ll.shrink
tags = ll.tags
nontrivial = ll.nontrivial
observable = ll.observable

LEVEL_TEXT = ("Kernel-checked for ALL grammars, token lists and both smart_factorization values on the executable model of "
              "LLParser.__init__ + parse: a returned tree is rooted at the start symbol, every inner node is one of the user's "
              "productions, leaves are exactly the non-skipped tokens, no helper symbol occurs (C01.parse_valid = soundness of "
              "the backtracking loop C01.run_sound + table well-formedness C01.table_wf + correctness of common-prefix "
              "factorisation incl. the smart undo C01.factorize_ok, which also keeps the order = priority of the alternatives, "
              "C01.factorize_ordered); the same for parse(text, start_symbol_name=X) "
              "(C01.parse_from_valid); for dictionaries with ProdSequence / ListProds / MapProds keys the same is proved about the "
              "constructor the driver executes (LL.constructGN = constructG + the templates' verify_grammar stage) w.r.t. the EXPANDED "
              "dictionary (C01.parse_valid_templates, with an explicit start symbol C01.parse_from_valid_templates; the expansion itself is data, C05's subject); that theorem is about the "
              "UN-flattened tree, while the real code returns ProdSequence nodes flattened in-parse: C01.seq_flatten_yield proves that "
              "the flattening the driver performs before printing (seqChain) succeeds at every sequence node of a derivation tree "
              "(never the `?` fallback), keeps the root and the yield - every leaf with its value, in order - and that the printed "
              "line is the plain rendering of that flattened tree (hypothesis SeqOK on the harness-supplied list of sequence "
              "symbols, see ASSUMPTIONS); that the real flattened node equals it is compared by the correspondence; "
              "that a parser object has no memory between calls and does not depend on other parser objects is a fact "
              "about the MODEL only (lemmas LL.handle_keeps_state, LL.handle_slots_prefix - not pinned as property theorems); for the "
              "real object it is tested by the call sequences and interleaved parsers of the correspondence. model = code is established by a differential run: "
              "constructor outcome, is_ambiguous() and every raw tree / error class compared on generated grammars x all short "
              "token strings; prods_map, suffix set, table, nullables, FIRST, FOLLOW compared as diagnostics.")
LEVEL_NOTE = ("Trusted: Lean kernel (axioms propext, Classical.choice, Quot.sound), harness adapter/oracle, sampled "
              "correspondence, re for lexemes. Hypotheses of the composed theorem: start symbol is a user key, no lexeme named "
              "$END$ (see ASSUMPTIONS); the reserved-name assertions of the constructor (repaired by a1a7d93 for right-hand sides) "
              "are part of the model and exercised by a malformed stream.")
TECHNIQUE = "Lean 4 theorems (invariant of the stack machine, induction over factorisation) + differential testing against the real LLParser"
