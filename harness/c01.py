"""C01 — every parse result is a valid derivation of the user's grammar (ak/llparser.py)."""
from harness import ll_common as ll

PROPERTY = "C01"
STATEFUL = True
READY = False
THEOREMS = ["C01.run_sound", "C01.table_wf", "C01.parse_valid_partial"]
RULE = ("one case = one generated grammar (3 generators + malformed stream, 5 token configurations, permuted names), "
        "constructed with smart_factorization True and False, each followed by every token string up to the tier's "
        "length; non-trivial = at least one returned tree and at least one ParsingError in the case; distinct by protocol text")
TRUSTED = ["re (lexemes are found by the harness with the tokenizer's own pattern)"]
ASSUMPTIONS = ["symbol names supplied by users do not end in '_' (rendering of suffix names is injective)"]


def impl(case):
    return ll.impl(case)


def oracle(case, replies):
    g, start, ok = None, None, False
    for line, rep in zip(case["lines"], replies):
        op = line.split()[0]
        if op == "g":
            spec, smart = ll.dec_g(line)
            g, start, ok = ll.user_grammar(spec), spec["start"], rep.startswith("ok")
        elif op == "p" and ok:
            if rep.startswith("tree "):
                try:
                    tree = ll.read_sexp(rep[5:])
                except Exception as e:
                    return "unreadable-tree: %s" % rep[:80]
                text = ll.dec_p(line)
                msg = ll.check_tree(g, start, tree, ll.expected_tokens(case, text))
                if msg:
                    return "%s (input %r, smart=%s)" % (msg, text, smart)
            elif rep.startswith("crash") or rep == "err AssertionError":
                return "tree-shape: %s on input %r" % (rep[:80], ll.dec_p(line))
    return None


def gen_cases(rng, tier):
    if tier == "quick":
        yield from ll.gen_ll_cases(rng, 1500, 4)
    else:
        yield from ll.gen_ll_cases(rng, 12000, 5, extra_long=20)
        yield from ll.tiny_grammars(rng, limit=20000)


def corpus():
    return [ll.witness_case()]


def search_cases(rng, tier):
    yield from ll.tiny_grammars(rng, limit=None if tier == "thorough" else 30000)


shrink = ll.shrink
tags = ll.tags
nontrivial = ll.nontrivial
observable = ll.observable

LEVEL_TEXT = "under construction"
LEVEL_NOTE = ""
TECHNIQUE = "Lean 4 theorems + correspondence check"
