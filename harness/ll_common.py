"""Shared part of the checks C01, C02, C03 (ak/llparser.py: LLParser.__init__ and LLParser.parse).

* protocol encoding / decoding (see lean/AkVerif/Model/LLDriver.lean for the line format)
* adapter to the real LLParser (constructor, parse under a step budget, diagnostics)
* reference implementations used by the oracles (never the Lean model): left-recursion test,
  memoised CFG recogniser, derivation checker, FIRST/FOLLOW/LL(1)-as-written test
* the three grammar generators of DESIGN.md §5/C01 + token-configuration variants + malformed stream
* shrinker

A *spec* is what `LLParser(...)` gets:
  {"tok": [[group, regex], ...], "syn": {group: token}, "kw": [[token, value, token2], ...],
   "skip": None | [names], "start": "E", "prods": [[symbol, [[s, ...] | None, ...]], ...]}
A case = {"lines": [...], "meta": {...}, "lexmap": {char: token name}, "sep": " " | ""}:
  g-line (smart=1), diagnostics, p-lines, g-line (smart=0), diagnostics, the same p-lines.
"""
import itertools
import re
import signal, contextlib, io
import sys

from harness.core import enc_str, dec_str

NAME_RE = re.compile(r"^[A-Za-z0-9_$]+$")
DIAG_OPS = ("prods", "suffix", "table", "nullables", "first", "follow", "terminals")


# ------------------------------------------------------------------ protocol

def _chk(name):
    assert NAME_RE.match(name), "name not representable in the protocol: %r" % (name,)
    return name


def enc_g(spec, smart):
    tok = ";".join("%s~%s" % (_chk(n), enc_str(rx)) for n, rx in spec["tok"])
    syn = ";".join("%s>%s" % (_chk(k), _chk(v)) for k, v in spec["syn"].items()) or "-"
    kw = ";".join("%s~%s>%s" % (_chk(t), enc_str(v), _chk(t2)) for t, v, t2 in spec["kw"]) or "-"
    if spec["skip"] is None:
        skip = "-"
    elif not spec["skip"]:
        skip = "()"
    else:
        skip = ";".join(_chk(s) for s in spec["skip"])
    items, tmpl, gen, seq, tp, ax, nonull = [], [], [], [], [], [], []
    for sym, alts in spec["prods"]:
        if isinstance(alts, dict):          # a template: its generated productions go to the model as data
            exp = expand_template(sym, alts, spec)
            tmpl.append(sym)
            gen.extend(k for k, _ in exp[1:])
            if alts["t"] == "seq":
                seq.append(sym)
            if alts["t"] == "list" and alts["args"][2] is None:
                nonull.append(_chk(alts["args"][1]))      # ListProds.verify_grammar: the item must not be nullable
            tp.append("%s~%s~%s" % (_chk(sym), alts["t"], ",".join(_enc_targ(a) for a in alts["args"])))
            entries = exp
        else:
            flat = []
            for a in alts:
                if isinstance(a, dict):      # AnyTokenExcept: one-token alternatives in the iteration order of the set
                    exp = [[t] for t in ax_tokens(spec, a["ax"])]
                    ax.append("%s@%d:%d:%s" % (_chk(sym), len(flat), len(exp), ",".join(_chk(x) for x in a["ax"]) or "-"))
                    flat.extend(exp)
                else:
                    flat.append(a)
            entries = [(sym, flat)]
        for k, aa in entries:
            items.append(_chk(k) + "=" + "|".join(
                "!" if a is None else ("~" if not a else ".".join(_chk(s) for s in a)) for a in aa))
    prods = ";".join(items) or "-"
    start = "-" if spec["start"] is None else _chk(spec["start"])
    line = "g %d %s %s %s %s %s %s" % (1 if smart else 0, start, tok, syn, kw, skip, prods)
    if tmpl:
        line += " T=%s/%s/%s/%s TP=%s" % (",".join(tmpl), ",".join(gen) or "-", ",".join(seq) or "-",
                                          ",".join(nonull) or "-", ";".join(tp))
    if ax:
        line += " AX=" + ";".join(ax)
    if spec.get("kinds"):
        line += " K=" + ",".join("%s:%s" % kv for kv in sorted(spec["kinds"].items()))
    if spec.get("span"):
        line += " SP=" + ";".join("%s~%s" % (_chk(n), enc_str(rx)) for n, rx in spec["span"].items())
    return line


def _enc_targ(a):
    """an argument of a template: `-` None, a name, or `*x+y` = AnyTokenExcept('x', 'y') (a ProdSequence member)"""
    if a is None:
        return "-"
    if isinstance(a, dict):
        return "*" + "+".join(_chk(x) for x in a["ax"])
    return _chk(str(a))


def _dec_targ(x):
    if x == "-":
        return None
    if x.startswith("*"):
        return {"ax": [y for y in x[1:].split("+") if y]}
    return x


def terminal_order(spec):
    """iteration order of `parser.terminals` at the time AnyTokenExcept is expanded (a Python set: the order is data)"""
    tk = _llp()._Tokenizer(tokenizer_str(spec), synonyms=dict(spec["syn"]) or None,
                           keywords={(t, v): t2 for t, v, t2 in spec["kw"]} or None)
    return list(tk.get_all_token_names())


def ax_tokens(spec, excl):
    """the one-token alternatives AnyTokenExcept(*excl) stands for: the SET is the reference's (`terminal_names`), only
    the order among them is taken from the code (iteration order of a Python set)"""
    names = terminal_names(spec)
    order = [t for t in terminal_order(spec) if t in names]
    order += sorted(names - set(order))
    return [t for t in order if t not in excl]


def dec_g(line):
    f = line.split()
    assert f[0] == "g" and len(f) >= 8, line
    smart = f[1] == "1"
    spec = {"start": None if f[2] == "-" else f[2], "tok": [], "syn": {}, "kw": [], "skip": None, "prods": []}
    for it in f[3].split(";"):
        n, rx = it.split("~")
        spec["tok"].append([n, dec_str(rx)])
    if f[4] != "-":
        for it in f[4].split(";"):
            k, v = it.split(">")
            spec["syn"][k] = v
    if f[5] != "-":
        for it in f[5].split(";"):
            a, t2 = it.split(">")
            t, v = a.split("~")
            spec["kw"].append([t, dec_str(v), t2])
    if f[6] == "()":
        spec["skip"] = []
    elif f[6] != "-":
        spec["skip"] = f[6].split(";")
    if f[7] != "-":
        for it in f[7].split(";"):
            sym, alts = it.split("=")
            spec["prods"].append([sym, [] if alts == "" else [
                None if a == "!" else ([] if a == "~" else a.split(".")) for a in alts.split("|")]])
    spec["tmpl"], spec["gen"], spec["seq"], spec["tdefs"], spec["kinds"], spec["ax"] = [], [], [], {}, {}, []
    for extra in f[8:]:
        if extra.startswith("T="):
            a, b, c = extra[2:].split("/")[:3]
            spec["tmpl"], spec["gen"], spec["seq"] = [[] if x == "-" else x.split(",") for x in (a, b, c)]
        elif extra.startswith("TP="):
            for it in extra[3:].split(";"):
                sym, kind, args = it.split("~")
                spec["tdefs"][sym] = {"t": kind, "args": [_dec_targ(x) for x in args.split(",")]}
        elif extra.startswith("K="):
            spec["kinds"] = dict(kv.split(":") for kv in extra[2:].split(","))
        elif extra.startswith("SP="):
            spec["span"] = {}
            for it in extra[3:].split(";"):
                n, rx = it.split("~")
                spec["span"][n] = dec_str(rx)
        elif extra.startswith("AX="):
            for it in extra[3:].split(";"):
                head, cnt, excl = it.split(":")
                sym, idx = head.split("@")
                spec["ax"].append((sym, int(idx), int(cnt), [] if excl == "-" else excl.split(",")))
    return spec, smart


def source_prods(spec):
    """the `productions` argument as the caller wrote it, from a decoded spec: templates and AnyTokenExcept items
    folded back, generated symbols dropped, None alternatives kept"""
    if any(isinstance(a, dict) for _, a in spec["prods"]):
        return spec["prods"]              # a generated spec already has this form
    gen = set(spec.get("gen", ()))
    out = []
    for sym, alts in spec["prods"]:
        if sym in gen:
            continue
        if sym in spec.get("tdefs", {}):
            out.append([sym, dict(spec["tdefs"][sym])])
            continue
        alts = list(alts)
        for s_, idx, cnt, excl in sorted([x for x in spec.get("ax", ()) if x[0] == sym], key=lambda x: -x[1]):
            alts[idx:idx + cnt] = [{"ax": list(excl)}]
        out.append([sym, alts])
    return out


def make_template(tdef, ax_item=None):
    """`ax_item(excl)`: the (possibly caller-owned, shared) AnyTokenExcept object of a ProdSequence member"""
    llp = _llp()
    a = tdef["args"]
    if tdef["t"] == "seq":
        mk = ax_item or (lambda excl: llp.AnyTokenExcept(*excl))
        return llp.ProdSequence(*[mk(x["ax"]) if isinstance(x, dict) else x for x in a])
    if tdef["t"] == "list":       # open, item, delimiter, close, allow_final_delimiter, optional
        kw = {}
        if a[4] is not None:
            kw["allow_final_delimiter"] = a[4] in ("1", 1, True)
        if a[5] is not None:
            kw["optional"] = a[5] in ("1", 1, True)
        return llp.ListProds(a[0], a[1], a[2], a[3], **kw)
    if tdef["t"] == "map":        # open, key, assign, value, delimiter, close, optional, allow_final_delimiter
        kw = {}
        if a[6] is not None:
            kw["optional"] = a[6] in ("1", 1, True)
        if a[7] is not None:
            kw["allow_final_delimiter"] = a[7] in ("1", 1, True)
        return llp.MapProds(a[0], a[1], a[2], a[3], a[4], a[5], **kw)
    raise ValueError(tdef["t"])


def expand_template(sym, tdef, spec):
    """the productions the template generates for `sym`.  ProdSequence(m1, .., mn) = 'any of the members in any order' is
    expanded by the harness itself: S -> (S__ELEMENT, S) | () ; S__ELEMENT -> (m1,) | .. | (mn,), an AnyTokenExcept
    member replaced IN PLACE by its one-token alternatives (`ax_tokens`).  ListProds / MapProds: the repo's own template
    classes (C05 is about them)"""
    if tdef["t"] == "seq":
        members = []
        for m in tdef["args"]:
            members.extend(ax_tokens(spec, m["ax"]) if isinstance(m, dict) else [m])
        return [(sym, [[sym + "__ELEMENT", sym], []]), (sym + "__ELEMENT", [[m] for m in members])]
    t = make_template(tdef)
    t.complete_init(sym, set(terminal_names(spec)), None)
    return [(k, [list(p) if p is not None else [] for p in prods]) for k, prods in t.gen_productions()]


def tokenizer_str(spec):
    return "|".join("(?P<%s>%s)" % (n, rx) for n, rx in spec["tok"])


def raw_lex(spec, text, as_lines=False):
    """the lexemes `re` finds (group name, value), before naming and skipping; None if the text does not lex.
    A str is cut at '\n' only and every line is right-stripped; a list of lines is taken as it is. A lexeme whose group
    is a key of span_matchers opens a span token: it ends where the span's pattern matches, on this or a later line;
    its value is the text between opener and closer (the pattern's group), the pieces of the lines joined by '\n'."""
    m = re.compile(tokenizer_str(spec), re.VERBOSE)
    spans = {n: re.compile(rx, re.VERBOSE) for n, rx in (spec.get("span") or {}).items()}
    out = []
    cur, pieces = None, None
    for line in text.split("\n"):
        if not as_lines:
            line = line.rstrip()
        col = 0
        while col < len(line):
            if cur is not None:
                mm = spans[cur].match(line, col)
                if mm is None:
                    pieces.append(line[col:])
                    col = len(line)
                else:
                    pieces.append(mm.group(mm.lastgroup))
                    out.append((cur, "\n".join(pieces)))
                    cur, col = None, mm.end()
                continue
            mm = m.match(line, col)
            if mm is None or mm.end() == col:
                return None
            if mm.lastgroup in spans:
                cur, pieces = mm.lastgroup, []
            else:
                out.append((mm.lastgroup, mm.group(mm.lastgroup)))
            col = mm.end()
    if cur is not None:
        return None
    return out


def enc_p(spec, text, start=None, as_lines=False, flags=None):
    """`p` = parse(text); `pl` = parse(text.split('\\n')) (list of lines); `ps X` = parse(text, start_symbol_name=X);
    `px <flags> <X|->` = parse with keyword arguments: `d` debug=True, `c` do_cleanup=True (else False), `n` src_name
    given, `l` list of lines, `-` none of them"""
    if flags is not None:
        as_lines = "l" in flags
    raw = raw_lex(spec, text, as_lines)
    assert raw is not None, "generator produced a text that does not lex: %r" % text
    head = ("pl" if as_lines else "p") if start is None else "ps %s" % _chk(start)
    if flags is not None:
        head = "px %s %s" % (flags or "-", "-" if start is None else _chk(start))
    return "%s %s %s" % (head, enc_str(text), ";".join("%s~%s" % (n, enc_str(v)) for n, v in raw) or "-")


PARSE_OPS = ("p", "pl", "ps", "px")


def dec_p(line):
    f = line.split()
    return dec_str(f[3] if f[0] == "px" else (f[2] if f[0] == "ps" else f[1]))


def p_info(line):
    """-> (explicit start symbol | None, text given as list of lines, flags) of a parse request"""
    f = line.split()
    if f[0] == "px":
        return (None if f[2] == "-" else f[2]), "l" in f[1], ("" if f[1] == "-" else f[1])
    if f[0] == "ps":
        return f[1], False, ""
    return None, f[0] == "pl", ""


def start_of(spec):
    """the start symbol the constructor uses ('E' when start_symbol_name is not given)"""
    return "E" if spec["start"] is None else spec["start"]


# ------------------------------------------------------------------ real code

class BudgetExceeded(BaseException):
    pass


def _alarm(*a):
    raise BudgetExceeded()


class StackBoundExceeded(BaseException):
    pass


class LineBudget:
    """step budget: counts `line` events of code in ak/llparser.py (sys.settrace); optionally watches the depth of
    the parse stack at every `_put_on_stack` call (`max_depth`)"""

    def __init__(self, budget, max_depth=None):
        self.budget = budget
        self.max_depth = max_depth
        self.n = 0
        self.depth = 0

    def _local(self, frame, event, arg):
        if event == "line":
            self.n += 1
            if self.n > self.budget:
                raise BudgetExceeded()
        return self._local

    def _global(self, frame, event, arg):
        code = frame.f_code
        if code.co_filename.endswith("llparser.py"):
            if self.max_depth is not None and code.co_name == "_put_on_stack":
                d = len(frame.f_locals["parse_stack"]) + 1
                if d > self.depth:
                    self.depth = d
                    if d > self.max_depth:
                        raise StackBoundExceeded()
            return self._local
        return None

    def __enter__(self):
        self.n = 0
        self.depth = 0
        sys.settrace(self._global)
        return self

    def __exit__(self, *a):
        sys.settrace(None)
        return False


def _llp():
    from ak import llparser
    return llparser


ARG_KINDS = ("set", "frozenset", "list", "tuple", "keys", "gen", "iter", "map")


def as_kind(names, kind):
    """a collection-valued constructor argument in one of the forms a caller may use"""
    if names is None:
        return None
    names = list(names)
    if kind == "set":
        return set(names)
    if kind == "frozenset":
        return frozenset(names)
    if kind == "list":
        return names
    if kind == "tuple":
        return tuple(names)
    if kind == "keys":
        return dict.fromkeys(names).keys()
    if kind == "gen":
        return (n for n in names)
    if kind == "iter":
        return iter(names)
    if kind == "map":
        return map(str, names)
    raise ValueError(kind)


def build(spec, smart, trace_budget=None, shared=None):
    """-> (parser | None, reply); `shared`: the caller-owned AnyTokenExcept items of one process, one object per
    exclusion list, used in the grammars of all the parsers of a case"""
    llp = _llp()
    prods = {}
    def ax_item(excl):
        if shared is None:
            return llp.AnyTokenExcept(*excl)
        if tuple(excl) not in shared:
            shared[tuple(excl)] = llp.AnyTokenExcept(*excl)
        return shared[tuple(excl)]
    for sym, alts in source_prods(spec):
        if isinstance(alts, dict):
            prods[sym] = make_template(alts, ax_item)
        else:
            prods[sym] = [None if a is None else (ax_item(a["ax"]) if isinstance(a, dict) else tuple(a)) for a in alts]
    kw = {(t, v): t2 for t, v, t2 in spec["kw"]}
    args = dict(productions=prods, synonyms=dict(spec["syn"]) or None, keywords=kw or None,
                skip_tokens=as_kind(spec["skip"], spec.get("kinds", {}).get("skip", "set")),
                smart_factorization=smart)
    if spec["start"] is not None:
        args["start_symbol_name"] = spec["start"]
    if spec.get("span"):
        args["span_matchers"] = dict(spec["span"])
    old = signal.signal(signal.SIGALRM, _alarm)
    signal.setitimer(signal.ITIMER_REAL, 20.0)
    try:
        if trace_budget:
            with LineBudget(trace_budget):
                p = llp.LLParser(tokenizer_str(spec), **args)
        else:
            p = llp.LLParser(tokenizer_str(spec), **args)
    except BudgetExceeded:
        return None, "err BudgetExceeded"
    except Exception as e:
        return None, "err " + type(e).__name__
    finally:
        signal.setitimer(signal.ITIMER_REAL, 0)
        signal.signal(signal.SIGALRM, old)
    return p, "ok amb=%d" % (1 if p.is_ambiguous() else 0)


def show_tree(root):
    """TElement -> s-expression, through name / value / is_leaf() / signature(); iterative (deep trees);
    a flattened `ProdSequence` element (leaf whose value is a list of elements) is shown as [S item item ...]"""
    out, todo = [], [root]
    while todo:
        e = todo.pop()
        if isinstance(e, str):
            out.append(e)
            continue
        sig = e.signature()
        if sig.name != e.name:
            raise AssertionError("signature().name differs from name")
        if e.value is None:
            if sig.child_names != ():
                raise AssertionError("childless element with child names")
            out.append("(%s)" % e.name)
        elif e.is_leaf():
            if isinstance(e.value, list):
                if sig.child_names != ():
                    raise AssertionError("sequence element with child names")
                out.append("[" + e.name)
                todo.append("]")
                for c in reversed(e.value):
                    todo.append(c)
                    todo.append(" ")
                continue
            if not isinstance(e.value, str):
                raise AssertionError("leaf value is %s" % type(e.value).__name__)
            out.append("%s:%s" % (e.name, enc_str(e.value)))
        else:
            if tuple(c.name for c in e.value) != tuple(sig.child_names):
                raise AssertionError("signature() differs from the children")
            out.append("(" + e.name)
            todo.append(")")
            for c in reversed(e.value):
                todo.append(c)
                todo.append(" ")
    return "".join(out)


def stack_bound(parser, text):
    """the bound of C03.stack_bound_parse: (|tokens| + 1) * B, B = number of symbols of the factorised grammar + 3
    (ranks are positions in the list of examined symbols); every token has at least one character"""
    return (len(text) + 2) * (len(parser.prods_map) + len(parser.terminals) + 3)


class _Quiet:
    """what `debug=True` and the observers report (stdout, logger `ak.llparser`) is captured, not shown"""

    def __enter__(self):
        import logging
        self.log = logging.getLogger("ak.llparser")
        self.h = logging.StreamHandler(io.StringIO())
        self.old = (self.log.propagate, list(self.log.handlers))
        self.log.handlers[:] = [self.h]
        self.log.propagate = False
        self.r = contextlib.redirect_stdout(io.StringIO())
        self.r.__enter__()
        return self

    def __exit__(self, *a):
        self.r.__exit__(*a)
        self.log.propagate, self.log.handlers[:] = self.old[0], self.old[1]
        return False


def parse_reply(parser, text, trace_budget=None, start=None, as_lines=False, flags=""):
    old = signal.signal(signal.SIGALRM, _alarm)
    signal.setitimer(signal.ITIMER_REAL, 120.0 if trace_budget else 20.0)
    try:
        kw = {} if start is None else {"start_symbol_name": start}
        kw["do_cleanup"] = "c" in flags
        if "d" in flags:
            kw["debug"] = True
        if "n" in flags:
            kw["src_name"] = "some file.txt"
        arg = text.split("\n") if as_lines else text
        with _Quiet():          # debug=True logs the steps
            if trace_budget:
                with LineBudget(trace_budget, stack_bound(parser, text)):
                    t = parser.parse(arg, **kw)
            else:
                t = parser.parse(arg, **kw)
        signal.setitimer(signal.ITIMER_REAL, 0)
        if "c" in flags:              # the cleaned-up result (any object) is not the subject: a result was returned
            return "accepted"
        return "tree " + show_tree(t)
    except StackBoundExceeded:
        return "err StackBoundExceeded"
    except BudgetExceeded:
        return "err BudgetExceeded"
    except Exception as e:
        return "err " + type(e).__name__
    finally:
        signal.setitimer(signal.ITIMER_REAL, 0)
        signal.signal(signal.SIGALRM, old)


def _names(xs):
    return ",".join(sorted(xs)) or "-"


def _rhs(p):
    return ".".join(p) if p else "~"


def diag_reply(parser, op):
    if op == "prods":
        return ";".join("%s=%s" % (s, "|".join("%s#%d" % (_rhs(r.production), r.sort_n) for r in rr))
                        for s, rr in parser.prods_map.items()) or "-"
    if op == "suffix":
        return _names(parser._suffix_symbols)
    if op == "table":
        return ";".join("%s/%s=%s" % (k[0], k[1], "|".join(_rhs(r.production) for r in v))
                        for k, v in sorted(parser.parse_table.items())) or "-"
    if op == "nullables":
        return _names(parser._summary.nullables)
    if op == "first":
        return ";".join("%s=%s" % (k, _names(v)) for k, v in sorted(parser._summary.first_sest.items())) or "-"
    if op == "follow":
        return ";".join("%s=%s" % (k, _names(v)) for k, v in sorted(parser._summary.follow_sets.items())) or "-"
    if op == "terminals":
        return _names(parser.terminals)
    return "bad-op"


OBSERVERS = ("obs-descr", "obs-gen", "obs-cleanuper", "obs-str", "obs-repr", "obs-amb", "obs-summary")


def observe(parser, op):
    """the observer methods of a parser object - they report, they must not change what later calls return"""
    try:
        with _Quiet():
            if op == "obs-descr":
                parser.print_detailed_descr()
            elif op == "obs-gen":
                list(parser._summary.gen_detailed_descr())
            elif op == "obs-cleanuper":
                list(parser.cleanuper.gen_detailed_descr())
            elif op == "obs-str":
                str(parser)
            elif op == "obs-repr":
                repr(parser)
            elif op == "obs-amb":
                parser.is_ambiguous()
            elif op == "obs-summary":
                str(parser._summary), repr(parser._summary)
            else:
                return "bad-op"
        return "ok"
    except Exception as e:
        return "err " + type(e).__name__


def impl(case, trace_budget=None, parse_budget=None):
    """trace_budget: line-event budget of the constructor; parse_budget: of one parse (with the stack bound).
    Every `g` creates a further parser object of the same process; `use k` goes back to the k-th one."""
    out, slots, cur = [], [], None          # slots: [parser, overrun]
    shared = {}
    for line in case["lines"]:
        op = line.split()[0]
        if op == "g":
            spec, smart = dec_g(line)
            parser, rep = build(spec, smart, trace_budget, shared)
            if parser is not None:
                slots.append([parser, False])
                cur = len(slots) - 1
            else:
                cur = None
            out.append(rep)
        elif op == "use":
            k = int(line.split()[1])
            cur = k if k < len(slots) else None
            out.append("ok")
        elif op in PARSE_OPS:
            if cur is None:
                out.append("nogrammar")
            elif slots[cur][1]:           # one overrun per parser is enough evidence; do not burn the budget again
                out.append("skipped-after-overrun")
            else:
                st_, al_, fl_ = p_info(line)
                rep = parse_reply(slots[cur][0], dec_p(line), parse_budget or trace_budget,
                                  start=st_, as_lines=al_, flags=fl_)
                slots[cur][1] = rep in ("err BudgetExceeded", "err StackBoundExceeded")
                out.append(rep)
        elif op == "amb":       # is_ambiguous() again, after the parses (the table must not have changed)
            out.append("nogrammar" if cur is None else "amb=%d" % (1 if slots[cur][0].is_ambiguous() else 0))
        elif op in DIAG_OPS:
            out.append("nogrammar" if cur is None else diag_reply(slots[cur][0], op))
        elif op.startswith("obs"):
            out.append("nogrammar" if cur is None else observe(slots[cur][0], op))
        elif op == "reset":
            slots, cur = [], None
            out.append("ok")
        else:
            out.append("bad-op")
    return out


# ------------------------------------------------------------------ reference implementations (oracles)

def expanded_prods(spec):
    """[(symbol, alternatives)] with the templates replaced by the productions they generate, in order"""
    out = []
    for sym, alts in spec["prods"]:
        if isinstance(alts, dict):
            out.extend(expand_template(sym, alts, spec))
        else:
            flat = []
            for a in alts:
                if isinstance(a, dict):
                    flat.extend([t] for t in ax_tokens(spec, a["ax"]))
                else:
                    flat.append([] if a is None else a)
            out.append((sym, flat))
    return out


def user_grammar(spec):
    """{symbol: [tuple, ...]} of the user's productions (templates expanded)"""
    return {sym: [tuple(a) for a in alts] for sym, alts in expanded_prods(spec)}


def template_info(spec):
    """(template keys, generated symbols, ProdSequence symbols) of a spec (generated or decoded)"""
    if "tmpl" in spec and not any(isinstance(a, dict) for _, a in spec["prods"]):
        return set(spec["tmpl"]), set(spec["gen"]), set(spec["seq"])
    tm, gen, seq = set(), set(), set()
    for sym, alts in spec["prods"]:
        if isinstance(alts, dict):
            tm.add(sym)
            gen.update(k for k, _ in expand_template(sym, alts, spec)[1:])
            if alts["t"] == "seq":
                seq.add(sym)
    return tm, gen, seq


def terminal_names(spec):
    names = set(n for n, _ in spec["tok"])
    names -= set(spec["syn"].keys())
    names |= set(spec["syn"].values())
    names |= set(t2 for _, _, t2 in spec["kw"])
    return names


def clean(spec):
    """a grammar in the ordinary sense: known symbols, disjoint alphabets, distinct alternatives"""
    g = user_grammar(spec)
    terms = terminal_names(spec)
    if len(g) != len(expanded_prods(spec)) or start_of(spec) not in g:
        return False
    tmpl_keys, gen, _ = template_info(spec)
    for sym, alts in g.items():
        if ("__" in sym and sym not in gen) or sym in terms or sym in ("$END$", "$START$") or len(set(alts)) != len(alts):
            return False
        if sym not in gen and sym not in tmpl_keys and any("__" in x for a in alts for x in a):
            return False
        for a in alts:
            for s in a:
                if s in ("$END$", "$START$") or (s not in terms and s not in g):
                    return False
    if any("__" in t for t in terms):
        return False
    if spec["skip"] is not None and not set(spec["skip"]) <= terms:
        return False
    return True


def nullable_set(g):
    nul, ch = set(), True
    while ch:
        ch = False
        for n, alts in g.items():
            if n not in nul and any(all(s in nul for s in p) for p in alts):
                nul.add(n)
                ch = True
    return nul


def left_rec(g):
    """some symbol reaches itself without consuming a token (directly, through others, behind nullables)"""
    nul = nullable_set(g)
    edges = {n: set() for n in g}
    for n, alts in g.items():
        for p in alts:
            for s in p:
                if s in g:
                    edges[n].add(s)
                    if s not in nul:
                        break
                else:
                    break
    for s in g:
        seen, st = set(), list(edges[s])
        while st:
            x = st.pop()
            if x == s:
                return True
            if x in seen:
                continue
            seen.add(x)
            st.extend(edges[x])
    return False


def derives(g, start, w):
    """w in L(g)?  memoised recogniser; `inprog` cuts left-recursive re-entry (callers use it on
    non-left-recursive grammars, where it is exact)"""
    sys.setrecursionlimit(10000)
    inprog, memo = set(), {}

    def sym(s, i, j):
        if s not in g:
            return j == i + 1 and w[i] == s
        k = (s, i, j)
        if k in memo:
            return memo[k]
        if k in inprog:
            return False
        inprog.add(k)
        r = any(seq(p, 0, i, j) for p in g[s])
        inprog.discard(k)
        memo[k] = r
        return r

    def seq(p, pi, i, j):
        if pi == len(p):
            return i == j
        if pi == len(p) - 1:
            return sym(p[pi], i, j)
        return any(sym(p[pi], i, k) and seq(p, pi + 1, k, j) for k in range(i, j + 1))

    return sym(start, 0, len(w))


HELPER_RE = re.compile(r"__S\d{2,}$")


def read_sexp(s):
    """'(E (A a:97) [S b:98])' -> ('E', [('A', [('a','a')]), ('S', ('seq', [('b','b')]))]);
    leaf = (name, str), node = (name, list), flattened sequence = (name, ('seq', list)); iterative"""
    toks = s.replace("(", " ( ").replace(")", " ) ").replace("[", " [ ").replace("]", " ] ").split()
    stack, pos, root = [], 0, None
    while pos < len(toks):
        t = toks[pos]
        pos += 1
        if t in ("(", "["):
            stack.append((toks[pos], [], t))
            pos += 1
            continue
        if t in (")", "]"):
            name, kids, br = stack.pop()
            node = (name, kids) if br == "(" else (name, ("seq", kids))
        else:
            name, v = t.split(":")
            node = (name, dec_str(v))
        if stack:
            stack[-1][1].append(node)
        else:
            root = node
    assert not stack and root is not None
    return root


def check_tree(g, start, tree, expected, seqs=()):
    """C01's statement on one returned tree; returns an error text or None (iterative)"""
    leaves = []
    if tree[0] != start:
        return "root: root is %r, start symbol is %r" % (tree[0], start)
    todo = [tree]
    while todo:
        name, v = todo.pop()
        if HELPER_RE.search(name):
            return "helper-symbol: node %r in the returned tree" % name
        if isinstance(v, str):
            if name in g:
                return "leaf-nonterminal: leaf named %r" % name
            leaves.append((name, v))
            continue
        if name not in g:
            return "inner-terminal: inner node named %r" % name
        if isinstance(v, tuple):           # flattened ProdSequence: every item is one of its members
            if name not in seqs:
                return "flattened: node %r is shown as a sequence but is no ProdSequence symbol" % name
            members = set(a[0] for a in g.get(name + "__ELEMENT", []) if a)
            for c in v[1]:
                if c[0] not in members:
                    return "bad-production: %r is no member of the sequence %s" % (c[0], name)
            kids = v[1]
        else:
            if name in seqs:
                return "not-flattened: ProdSequence symbol %r returned as an ordinary node" % name
            sig = tuple(c[0] for c in v)
            if sig not in g[name]:
                return "bad-production: %s -> %s is not a production of the grammar" % (name, list(sig))
            kids = v
        todo.extend(reversed(kids))
    if leaves != list(expected):
        return "leaves: leaves %s, tokens %s" % (_short(leaves), _short(list(expected)))
    return None


def _short(x):
    r = repr(x)
    return r if len(r) < 300 else r[:140] + " ... " + r[-140:]


def expected_tokens(case, text, as_lines=False):
    """the non-skipped tokens of a generated text, from the generator's character table (not the tokenizer); the lines
    cut out of a str are right-stripped, the lines of a caller's list are taken as they are"""
    if not as_lines:
        text_ = "\n".join(l.rstrip() for l in text.split("\n"))
        if text_ != text and text not in case.get("expect", {}):
            text = text_
    if text in case.get("expect", {}):
        return [tuple(x) for x in case["expect"][text]]
    if case.get("ctx"):
        return ctx_tokens(case["ctx"], text, as_lines)
    lm = case["lexmap"]
    skip = set(case.get("skipnames", ()))
    return [(lm[ch], ch) for ch in text if ch in lm and lm[ch] not in skip]


def first_follow(g, start):
    nul = nullable_set(g)
    first = {n: set() for n in g}

    def fseq(p):
        r = set()
        for s in p:
            if s in g:
                r |= first[s]
                if s not in nul:
                    return r, False
            else:
                r.add(s)
                return r, False
        return r, True
    ch = True
    while ch:
        ch = False
        for n, alts in g.items():
            for p in alts:
                r, _ = fseq(p)
                if not r <= first[n]:
                    first[n] |= r
                    ch = True
    follow = {n: set() for n in g}
    follow[start].add("$END$")
    ch = True
    while ch:
        ch = False
        for n, alts in g.items():
            for p in alts:
                for i, s in enumerate(p):
                    if s in g:
                        r, allnul = fseq(p[i + 1:])
                        if allnul:
                            r = r | follow[n]
                        if not r <= follow[s]:
                            follow[s] |= r
                            ch = True
    return nul, first, follow, fseq


def is_ll1(g, start):
    """pairwise disjoint predict sets of the alternatives of every symbol (least FIRST/FOLLOW sets)"""
    nul, first, follow, fseq = first_follow(g, start)
    for n, alts in g.items():
        preds = []
        for p in alts:
            r, allnul = fseq(p)
            if allnul:
                r = r | follow[n]
            preds.append(r)
        for i in range(len(preds)):
            for j in range(i + 1, len(preds)):
                if preds[i] & preds[j]:
                    return False
    return True


# ------------------------------------------------------------------ generators

VARIANTS = {
    "plain": dict(tok=[["SPACE", r"\s+"], ["a", "a"], ["b", "b"], ["c", "c"]], syn={}, kw=[], skip=None,
                  T=["a", "b", "c"], lex={"a": "a", "b": "b", "c": "c"}, sep=" ", noise=""),
    "syn": dict(tok=[["SPACE", r"\s+"], ["A1", "a"], ["A2", "A"], ["b", "b"], ["CC", "c"]],
                syn={"A1": "a", "A2": "a", "CC": "c"}, kw=[], skip=None,
                T=["a", "b", "c"], lex={"a": "a", "A": "a", "b": "b", "c": "c"}, sep=" ", noise=""),
    "kw": dict(tok=[["SPACE", r"\s+"], ["w", "[a-d]"]], syn={}, kw=[["w", "a", "a"], ["w", "b", "b"]], skip=None,
               T=["a", "b", "w"], lex={"a": "a", "b": "b", "c": "w", "d": "w"}, sep=" ", noise=""),
    "synkw": dict(tok=[["WS", r"\s+"], ["X", "!"], ["W1", "[a-c]"], ["d", "d"]], syn={"W1": "w"},
                  kw=[["w", "a", "a"], ["w", "b", "KB"]], skip=["WS", "X"],
                  T=["a", "KB", "w"], lex={"a": "a", "b": "KB", "c": "w"}, sep=" ", noise="!"),
    "swap": dict(tok=[["SPACE", r"\s+"], ["a", "b"], ["b", "a"], ["c", "c"]], syn={}, kw=[], skip=None,
                 T=["a", "b", "c"], lex={"b": "a", "a": "b", "c": "c"}, sep=" ", noise=""),
    "spaceterm": dict(tok=[["SPACE", "_"], ["a", "a"], ["b", "b"]], syn={}, kw=[], skip=[],
                      T=["a", "b", "SPACE"], lex={"a": "a", "b": "b", "_": "SPACE"}, sep="", noise=""),
    "skipb": dict(tok=[["SPACE", "_"], ["a", "a"], ["b", "b"], ["c", "c"]], syn={}, kw=[], skip=["b"],
                  T=["a", "c", "SPACE"], lex={"a": "a", "c": "c", "_": "SPACE"}, sep="", noise="b"),
    "comment": dict(tok=[["SPACE", r"\s+"], ["COMMENT", r"\#"], ["a", "a"], ["b", "b"], ["c", "c"]], syn={}, kw=[],
                    skip=None, T=["a", "b", "c"], lex={"a": "a", "b": "b", "c": "c"}, sep=" ", noise="#"),
    "kwskip1": dict(tok=[["SPACE", r"\s+"], ["w", "[a-d]"]], syn={}, kw=[["w", "a", "a"], ["w", "b", "b"]],
                    skip=["SPACE", "b"], T=["a", "b", "w"], lex={"a": "a", "b": "b", "c": "w", "d": "w"}, sep=" ", noise=""),
    "kwskip2": dict(tok=[["SPACE", r"\s+"], ["W0", "[a-d]"]], syn={"W0": "w"}, kw=[["w", "a", "a"], ["w", "b", "b"]],
                    skip=["SPACE", "w"], T=["a", "b", "w"], lex={"a": "a", "b": "b", "c": "w", "d": "w"}, sep=" ", noise=""),
    "skipiter": dict(tok=[["SPACE", "_"], ["a", "a"], ["b", "b"], ["c", "c"]], syn={}, kw=[], skip=["SPACE", "b"],
                     T=["a", "b", "c"], lex={"a": "a", "b": "b", "c": "c", "_": "SPACE"}, sep="", noise="_"),
    "free": dict(tok=[["SPACE", r"[\ \t]+"], ["a", "a"], ["b", "b"], ["w", r"[^ab\ \t\n]+"]], syn={}, kw=[], skip=None,
                 T=["a", "b", "w"], lex={"a": "a", "b": "b"}, sep=" ", noise="",
                 free=["x\x0cy", "q\u2028r", "m\x85n", "u\rv", "\x1dz", "k\x0bk", "\x1cj", "p\u2029e", "\x1em", "cd",
                       "c\x0c\x0cd", "\u2028g"]),
    # a synonym whose target is its own source / is the source of another synonym (each lexeme is renamed once)
    "synid": dict(tok=[["SPACE", r"\s+"], ["a", "a"], ["b", "b"], ["c", "c"]], syn={"SPACE": "SPACE", "b": "b"}, kw=[],
                  skip=None, T=["a", "b", "c"], lex={"a": "a", "b": "b", "c": "c"}, sep=" ", noise=""),
    "synchain": dict(tok=[["SPACE", r"\s+"], ["a0", "a"], ["a", "c"], ["b", "b"]], syn={"a0": "a", "a": "c"}, kw=[],
                     skip=None, T=["a", "b", "c"], lex={"a": "a", "b": "b", "c": "c"}, sep=" ", noise=""),
    "synchainkw": dict(tok=[["SPACE", r"\s+"], ["w0", "[a-d]"]], syn={"w0": "w"}, kw=[["w", "a", "w0"], ["w", "b", "b"]],
                       skip=None, T=["w0", "b", "w"], lex={"a": "w0", "b": "b", "c": "w", "d": "w"}, sep=" ", noise=""),
    # every blank is a token of its own and nothing is skipped: blanks at the end of a line are tokens too (of a line
    # given by the caller; a str is right-stripped line by line)
    "wsterm": dict(tok=[["SPACE", r"[\ \t]"], ["a", "a"], ["b", "b"]], syn={}, kw=[], skip=[],
                   T=["a", "b", "SPACE"], lex={"a": "a", "b": "b", " ": "SPACE", "\t": "SPACE"}, sep="", noise=""),
    # multi-line ('span') tokens: a text block that is a terminal of the grammar (reported under a synonym) and a
    # comment that is skipped; a body piece is never empty and never ends in a blank
    "span": dict(tok=[["SPACE", r"\s+"], ["a", "a"], ["b", "b"], ["Q0", "<"], ["COMMENT", r"\{"]], syn={"Q0": "Q"}, kw=[],
                 skip=None, T=["a", "b", "Q"], lex={"a": "a", "b": "b"}, sep=" ", noise="",
                 span={"Q0": r"(?P<QB>[^>]*)>", "COMMENT": r"(?P<CB>[^}]*)\}"},
                 spanlex={"Q": [["<x>", "x"], ["<x y>", "x y"], ["<x\ny>", "x\ny"], ["<p\nq\nr>", "p\nq\nr"], ["<{z}>", "{z}"],
                                ["<a b>", "a b"], ["<>", ""]]},
                 spannoise=["{c}", "{c\nd}", "{<}", "{a b\n a}"]),
    # a synonym CHAIN on the group that opens a span: the span is a `Q`, the lexeme of the group named Q is an `R`
    # (every lexeme is renamed once)
    "spanchain": dict(tok=[["SPACE", r"\s+"], ["a", "a"], ["Q", "b"], ["Q0", "<"], ["COMMENT", r"\{"]],
                      syn={"Q0": "Q", "Q": "R"}, kw=[], skip=None, T=["a", "Q", "R"], lex={"a": "a", "b": "R"}, sep=" ", noise="",
                      span={"Q0": r"(?P<QB>[^>]*)>", "COMMENT": r"(?P<CB>[^}]*)\}"},
                      spanlex={"Q": [["<x>", "x"], ["<x\ny>", "x\ny"], ["<b>", "b"], ["<a b>", "a b"], ["<>", ""]]},
                      spannoise=["{c}", "{c\nd}", "{<}"]),
    # keywords for two token names whose values collide across the names: `b` is a keyword value of w2 only, `a` of w
    # only (a lexeme followed by `!` is a w2; `!` itself is skipped)
    "kwcross": dict(tok=[["SPACE", r"\s+"], ["w2", r"[a-d](?=!)"], ["BANG", "!"], ["w", "[a-d]"]], syn={},
                    kw=[["w", "a", "a"], ["w2", "b", "b"]], skip=["SPACE", "BANG"], T=["a", "b", "w", "w2"], lex={},
                    sep=" ", noise="",
                    spanlex={"a": [["a", "a"]], "b": [["b!", "b"]], "w": [["c", "c"], ["d", "d"], ["b", "b"]],
                             "w2": [["a!", "a"], ["c!", "c"], ["d!", "d"]]},
                    spannoise=[" "]),
    "noskip": dict(tok=[["SPACE", r"\s+"], ["a", "a"], ["b", "b"], ["c", "c"]], syn={}, kw=[], skip=[],
                   T=["a", "b", "c"], lex={"a": "a", "b": "b", "c": "c"}, sep="", noise=""),
    # token patterns with CONTEXT assertions: what stands IN FRONT of a lexeme decides its name (`^`, look-behind, \b);
    # the expected tokens come from the hand-written rules CTX_RULES, the texts put every lexeme at line starts, behind
    # blanks and glued to its neighbours
    "ctxbol": dict(tok=[["SPACE", r"\s+"], ["a", r"^a"], ["b", "b"], ["c", "a"]], syn={}, kw=[], skip=None,
                   T=["a", "b", "c"], lex={}, sep=" ", noise="", ctx="bol", ctxlex={"a": ["a"], "b": ["b"], "c": ["a"]}),
    "ctxbehind": dict(tok=[["SPACE", r"\s+"], ["c", r"(?<=[b\t])a"], ["a", "a"], ["b", "b"]], syn={}, kw=[], skip=None,
                      T=["a", "b", "c"], lex={}, sep=" ", noise="", ctx="behind", ctxlex={"a": ["a"], "b": ["b"], "c": ["a"]}),
    "ctxword": dict(tok=[["SPACE", r"\s+"], ["U", "_"], ["A0", r"\ba"], ["c", "a"], ["b", "b"]], syn={"A0": "a"}, kw=[],
                    skip=["SPACE", "U"], T=["a", "b", "c"], lex={}, sep=" ", noise="", ctx="word",
                    ctxlex={"a": ["a"], "b": ["b", "_b"], "c": ["a", "_a"]}),
    "ctxdir": dict(tok=[["SPACE", r"\s+"], ["c", r"^\#[ab]"], ["HASH", r"\#"], ["w", "[ab]"]], syn={},
                   kw=[["w", "a", "a"], ["w", "b", "b"]], skip=["SPACE", "HASH"],
                   T=["a", "b", "c"], lex={}, sep=" ", noise="", ctx="dir",
                   ctxlex={"a": ["a", "#a", "# a"], "b": ["b", "#b"], "c": ["#a", "#b"]}),
    # five tokens (long list / map inputs); not drawn by gen_spec
    "plain5": dict(tok=[["SPACE", r"\s+"], ["a", "a"], ["b", "b"], ["c", "c"], ["d", "d"], ["e", "e"]], syn={}, kw=[],
                   skip=None, T=["a", "b", "c", "d", "e"], lex={"a": "a", "b": "b", "c": "c", "d": "d", "e": "e"}, sep=" ",
                   noise=""),
}


def _r_bol(line, i):
    ch = line[i]
    return (("a" if i == 0 else "c") if ch == "a" else ("b" if ch == "b" else None)), 1


def _r_behind(line, i):
    ch = line[i]
    return (("c" if i > 0 and line[i - 1] in "b\t" else "a") if ch == "a" else ("b" if ch == "b" else None)), 1


def _r_word(line, i):
    ch = line[i]
    return (("a" if i == 0 or line[i - 1] not in "ab_" else "c") if ch == "a" else ("b" if ch == "b" else None)), 1


def _r_dir(line, i):
    ch = line[i]
    if ch == "#":
        return ("c", 2) if (i == 0 and line[1:2] in ("a", "b")) else (None, 1)
    return (ch if ch in "ab" else None), 1


# the naming rule of a context-sensitive token configuration, written by hand (not with `re`):
# (line, position) -> (token name | None = skipped, length of the lexeme)
CTX_RULES = {"bol": _r_bol, "behind": _r_behind, "word": _r_word, "dir": _r_dir}


def ctx_tokens(rule, text, as_lines=False):
    """the non-skipped tokens of a text under a CTX_RULES rule (a str is cut at '\n' and every line right-stripped)"""
    out = []
    for line in text.split("\n"):
        if not as_lines:
            line = line.rstrip()
        i = 0
        while i < len(line):
            name, n = CTX_RULES[rule](line, i)
            if name is not None:
                out.append((name, line[i:i + n]))
            i += n
    return out


def render_ctx(rng, var, w):
    """token names -> text for a context-sensitive configuration: every lexeme is tried glued to its neighbour, behind
    blanks and at a line start, and kept when the hand-written rule gives the wanted tokens for the text so far"""
    text, got = "", []
    for t in w:
        cands = [sep + lx for sep in ("", "", " ", " ", "  ", "\n", "\n", " \n", "\t", "\n ") for lx in var["ctxlex"][t]]
        rng.shuffle(cands)
        for c in cands:
            toks = ctx_tokens(var["ctx"], text + c)
            if len(toks) == len(got) + 1 and toks[:-1] == got and toks[-1][0] == t:
                text, got = text + c, toks
                break
        else:
            raise AssertionError("no rendering of %r behind %r" % (t, text))
    if rng.random() < 0.1:
        text += " "
    return text
NT_POOLS = [
    ["E", "A", "B", "C", "D", "F"],
    ["E", "Z", "N", "M", "A", "K"],
    ["Expr", "Aa", "B", "T1", "Zz9", "Item"],
    ["S", "E", "x1", "Ab", "AB", "q"],
    ["Z", "Y", "X", "W", "V", "U"],
]


def _dedupe(alts):
    seen, out = set(), []
    for a in alts:
        if tuple(a) not in seen:
            seen.add(tuple(a))
            out.append(list(a))
    return out


def gen_unbiased(rng, T, nts):
    g = []
    for nt in nts:
        alts = []
        for _ in range(rng.randint(1, 4)):
            ln = rng.choice([0, 1, 1, 2, 2, 3, 4])
            alts.append([rng.choice(T + nts) for _ in range(ln)])
        g.append([nt, _dedupe(alts)])
    return g


def gen_nonleftrec(rng, T, nts):
    g = []
    for i, nt in enumerate(nts):
        alts = []
        for _ in range(rng.randint(1, 4)):
            ln = rng.choice([0, 1, 2, 2, 3, 3, 4])
            p = []
            for k in range(ln):
                if k == 0:
                    cands = T * 2 + nts[i + 1:] * 3 + (nts if rng.random() < 0.05 else [])
                else:
                    cands = T * 2 + nts
                p.append(rng.choice(cands))
            alts.append(p)
        g.append([nt, _dedupe(alts)])
    return g


def gen_shaped(rng, T, nts):
    """nested common prefixes with nullable remainder, alternatives failing after collecting children,
    identical first symbols in non-adjacent alternatives, nullable chains"""
    g = []
    n = len(nts)
    nullable_nts = set(rng.sample(nts[1:], rng.randint(0, max(0, n - 1)))) if n > 1 else set()
    for i, nt in enumerate(nts):
        later = nts[i + 1:]
        alts = []
        shape = rng.choice(["prefix", "prefix", "nonadjacent", "chain", "fail-late", "mixed", "prefixperm", "prefixperm",
                            "prefixperm", "wide"])

        def sym(first):
            if first:
                return rng.choice(T * 3 + later * 2)
            return rng.choice(T * 2 + nts)
        if shape in ("prefix", "mixed"):
            stem = [sym(True)] + [sym(False) for _ in range(rng.randint(1, 3))]
            cuts = sorted(set(rng.randint(1, len(stem)) for _ in range(rng.randint(2, 4))), reverse=rng.random() < 0.7)
            for c in cuts:
                tail = [sym(False) for _ in range(rng.choice([0, 0, 1, 2]))]
                alts.append(stem[:c] + tail)
            if rng.random() < 0.5:   # a second level with the same stem
                alts.insert(rng.randint(0, len(alts)), stem + [sym(False)])
        if shape == "prefixperm":
            # 3-4 alternatives sharing prefixes of unequal length with one stem, in every order: a strict prefix of
            # the first alternative may come after an alternative that shares a longer prefix with it
            stem = [sym(True)] + [sym(False) for _ in range(rng.randint(2, 4))]
            ks = rng.sample(range(1, len(stem) + 1), min(len(stem), rng.randint(3, 4)))
            for c in ks:
                tail = [] if rng.random() < 0.5 else [rng.choice(T)]
                alts.append(stem[:c] + tail)
            if rng.random() < 0.5:
                alts.append(stem[:rng.randint(1, len(stem))] + [rng.choice(T), rng.choice(T)])
            rng.shuffle(alts)
        if shape == "wide":
            # 3-9 alternatives behind ONE leading symbol, all with different second symbols (the suffix symbol gets that
            # many productions: the smart undo keeps a factorisation with more than 5 of them)
            f = sym(True)
            seconds = list(dict.fromkeys(T + nts + T))
            rng.shuffle(seconds)
            k = rng.randint(2, len(seconds))
            for s2 in seconds[:k]:
                alts.append([f, s2] + [sym(False) for _ in range(rng.choice([0, 0, 1]))])
            if rng.random() < 0.6:
                alts.append([f])
            if rng.random() < 0.3:
                alts.append([f, rng.choice(seconds[:k]), rng.choice(T), rng.choice(T)])
            if rng.random() < 0.5:
                rng.shuffle(alts)
        if shape in ("nonadjacent", "mixed"):
            f = sym(True)
            alts.append([f] + [sym(False) for _ in range(rng.randint(0, 2))])
            alts.append([sym(True)] + [sym(False) for _ in range(rng.randint(0, 2))])
            alts.append([f] + [sym(False) for _ in range(rng.randint(0, 2))])
        if shape == "chain":
            ch = [rng.choice(later + nts) for _ in range(rng.randint(1, 3))] if later else [rng.choice(T)]
            alts.append(ch + ([rng.choice(T)] if rng.random() < 0.6 else []))
            alts.append([rng.choice(T)])
        if shape == "fail-late":
            body = [sym(True)] + [sym(False) for _ in range(rng.randint(1, 2))]
            alts.append(body + [rng.choice(T)])
            alts.append(body + [rng.choice(T)])
            alts.append(body[:1])
        if nt in nullable_nts or rng.random() < 0.15:
            alts.insert(rng.randint(0, len(alts)), [])
        g.append([nt, _dedupe(alts)])
    return g


def gen_unitalias(rng, T, nts):
    """LL(1) grammars with unit productions over a nullable symbol declared before productions that start with the
    same symbol: S -> X t Y ; X -> A ; A -> a | <empty> ; Y -> A c | t d (FIRST(A) is shared by several rules, FOLLOW
    of the alias differs)"""
    if len(nts) < 4:
        return None
    S, X, A, Y = nts[:4]
    t = list(T)
    rng.shuffle(t)
    g = {S: [[X, t[1], Y]], X: [[A]], A: [[t[0]], []], Y: [[A, t[2]], [t[1], t[0]]]}
    if rng.random() < 0.5:
        rng.shuffle(g[A])
    if rng.random() < 0.3:
        g[Y].reverse()
    for extra in nts[4:]:
        g[extra] = [[rng.choice(t)]]
        g[S][0].append(extra)
    order = list(nts)
    if rng.random() < 0.5:
        order = [S, X, A, Y] + list(nts[4:])
    else:
        rng.shuffle(order)
    return [[k, g[k]] for k in order]


def gen_padded(rng, T, nts):
    """LL(1) grammars with a nullable non-terminal occurring twice in a production made of non-terminals only:
    S -> X c | c a ; X -> W B W ; W -> a | <empty> ; B -> b     (X is NOT nullable: a wrong 'X nullable' is a conflict)
    L -> P L | <empty> ; P -> K V K V ; K -> a | <empty> ; V -> b   (a wrong 'P nullable' looks like left recursion)"""
    if len(nts) < 4 or len(T) < 3:
        return None
    S, X, W, B = nts[:4]
    t = list(T)
    rng.shuffle(t)
    if rng.random() < 0.5:
        g = {S: [[X, t[2]], [t[2], t[0]]], X: [[W, B, W]], W: [[t[0]], []], B: [[t[1]]]}
    else:
        g = {S: [[X, S], []], X: [[W, B, W, B]], W: [[t[0]], []], B: [[t[1]]]}
        if rng.random() < 0.5:
            g[S] = [[X, S], [t[2]]]
    if rng.random() < 0.5:
        rng.shuffle(g[W])
    for extra in nts[4:]:
        g[extra] = [[rng.choice(t)]]
    order = list(nts)
    if rng.random() < 0.5:
        rng.shuffle(order)
    return [[k, g[k]] for k in order]


def gen_ll1ish(rng, T, nts):
    """alternatives of a symbol start with distinct terminals (or a later non-terminal); at most one empty"""
    if rng.random() < 0.12:
        r = gen_unitalias(rng, T, nts)
        if r is not None:
            return r
    if rng.random() < 0.12:
        r = gen_padded(rng, T, nts)
        if r is not None:
            return r
    g = []
    for i, nt in enumerate(nts):
        firsts = list(T)
        rng.shuffle(firsts)
        k = rng.randint(1, 3)
        alts = []
        for f in firsts[:k]:
            if nts[i + 1:] and rng.random() < 0.2:
                head = [rng.choice(nts[i + 1:])]
            else:
                head = [f]
            alts.append(head + [rng.choice(T + nts) for _ in range(rng.choice([0, 0, 1, 1, 2, 3]))])
        if rng.random() < 0.35:
            alts.insert(rng.randint(0, len(alts)), [])
        g.append([nt, _dedupe(alts)])
    return g


def sample_sentences(rng, g, start, n, maxlen=8):
    """token strings obtained by random leftmost derivations (members of the language by construction)"""
    out = []
    minlen = {}
    for _ in range(len(g) + 2):
        for nt, alts in g.items():
            best = None
            for a in alts:
                t = 0
                for s_ in a:
                    t = t + (minlen.get(s_, 99) if s_ in g else 1)
                best = t if best is None else min(best, t)
            if best is not None and best < 99:
                minlen[nt] = best
    if start not in minlen:
        return out
    for _ in range(n * 3):
        form, steps = [start], 0
        while steps < 60 and len(form) <= maxlen + 4:
            idx = next((k for k, s_ in enumerate(form) if s_ in g), None)
            if idx is None:
                break
            alts = [a for a in g[form[idx]] if all(s_ not in g or s_ in minlen for s_ in a)]
            if not alts:
                break
            if steps > 12:
                alts = sorted(alts, key=lambda a: sum(minlen.get(s_, 1) for s_ in a))[:1]
            form[idx:idx + 1] = rng.choice(alts)
            steps += 1
        if all(s_ not in g for s_ in form) and len(form) <= maxlen and form not in out:
            out.append(list(form))
        if len(out) >= n:
            break
    return out


def gen_hidden_rec(rng, T, nts):
    """a cycle X0 -> N.. X1 .., X1 -> N.. X2 .., .., Xk -> N.. X0 .. behind nullable prefixes; with probability
    1/2 one prefix symbol is made non-nullable (no recursion then). Names come permuted from the pool, so the
    nullable prefix sorts before / after the recursive symbol."""
    n = len(nts)
    k = rng.randint(1, max(1, min(3, n)))
    cyc = rng.sample(nts, k)
    others = [x for x in nts if x not in cyc]
    g = {nt: [] for nt in nts}
    broken = rng.random() < 0.5
    break_at = rng.randrange(k)
    for i, x in enumerate(cyc):
        pre = [rng.choice(others) for _ in range(rng.randint(0, 2))] if others else []
        if broken and i == break_at:
            if pre and rng.random() < 0.5:
                g.setdefault("_nonnull", []).append(pre[0])
            else:
                pre = pre + [rng.choice(T)]
        tail = [rng.choice(T + nts) for _ in range(rng.randint(0, 2))]
        g[x].append(pre + [cyc[(i + 1) % k]] + tail)
        g[x].append([rng.choice(T)] + [rng.choice(T + others) for _ in range(rng.randint(0, 1))])
        rng.shuffle(g[x])
    nonnull = set(g.pop("_nonnull", []))
    for o in others:
        alts = [[rng.choice(T)] + [rng.choice(T) for _ in range(rng.randint(0, 1))]]
        if o not in nonnull:
            if rng.random() < 0.7:
                alts.append([])
            else:
                oo = [x for x in others if x != o]
                alts.append([rng.choice(oo)] if oo and rng.random() < 0.5 else [])
        rng.shuffle(alts)
        g[o] = alts
    return [[nt, _dedupe(g[nt])] for nt in nts]


def gen_nobase_cycle(rng, T, nts):
    """a cycle of 1-3 symbols NONE of which has a base case: every production of a cycle symbol leads back into the
    cycle (X -> (Y, c) ; Y -> (X, d): nothing is derived, FIRST sets are empty, the parse table has no entry for them),
    or an epsilon-only cycle (X -> (Y,) | None ; Y -> (X,)); behind nullable prefixes or not; referred to by the other
    symbols or by nobody; the start symbol inside or outside the cycle. With probability 0.35 one link of the cycle
    stands behind a token (then nothing reaches itself without a token, although nothing is derived either)."""
    n = len(nts)
    k = rng.randint(1 if n < 2 else 2, max(1, min(3, n)))
    cyc = rng.sample(nts, k) if rng.random() < 0.6 else rng.sample(nts[1:] or nts, min(k, len(nts[1:] or nts)))
    k = len(cyc)
    others = [x for x in nts if x not in cyc]
    eps = rng.random() < 0.35
    broken = rng.random() < 0.35
    break_at = rng.randrange(k)
    nullable_others = [o for o in others if rng.random() < 0.5]
    g = {}
    for i, x in enumerate(cyc):
        nxt = cyc[(i + 1) % k]
        alts = []
        for _ in range(rng.choice([1, 1, 2])):
            pre = [rng.choice(nullable_others) for _ in range(rng.randint(0, 2))] if (nullable_others and rng.random() < 0.4) else []
            if broken and i == break_at:
                pre = pre + [rng.choice(T)]
            tail = [] if eps else [rng.choice(T + nts) for _ in range(rng.randint(1, 2))]
            alts.append(pre + [rng.choice(cyc) if (len(alts) and rng.random() < 0.5) else nxt] + tail)
        g[x] = alts
    if eps and not broken:
        g[rng.choice(cyc)].append([])             # the cycle is nullable as a whole
    refer = rng.random() < 0.6
    for o in others:
        alts = [[rng.choice(T)] + [rng.choice(T) for _ in range(rng.randint(0, 1))]]
        if o in nullable_others:
            alts.append([])
        if refer and rng.random() < 0.6:
            alts.append([rng.choice(T), rng.choice(cyc)] + [rng.choice(T)] * rng.randint(0, 1))
        rng.shuffle(alts)
        g[o] = alts
    return [[nt, _dedupe(g[nt])] for nt in nts]


def gen_dfs_shapes(rng, T, nts):
    """shapes that exercise the bookkeeping of the recursion DFS: alternatives of one symbol S that start with
    0-2 nullable non-terminals followed by a not nullable non-terminal (visited for the first time inside the
    DFS of S when it sorts after S), S itself, or a terminal - in every order, so that the alternative examined
    after a pop starts with / carries S at every small index; plus middle recursion `t S t`."""
    if len(nts) < 3:
        return gen_hidden_rec(rng, T, nts)
    roles = list(nts[1:])
    rng.shuffle(roles)
    S = nts[0] if rng.random() < 0.6 else roles.pop()
    k = rng.randint(1, max(1, len(roles) - 1))
    nullables, nonnull = roles[:k], roles[k:]
    g = {nt: [] for nt in nts}
    alts = []
    for _ in range(rng.randint(2, 4)):
        pre = [rng.choice(nullables) for _ in range(rng.randint(0, 2))]
        kind = rng.choice(["nn", "nn", "self", "self", "term"])
        if kind == "nn" and nonnull:
            mid = [rng.choice(nonnull)]
        elif kind == "self":
            mid = [S]
        else:
            mid = [rng.choice(T)]
        alts.append(pre + mid + [rng.choice(T + nts) for _ in range(rng.randint(0, 2))])
    if rng.random() < 0.5:
        alts.insert(rng.randint(0, len(alts)), [rng.choice(T), S, rng.choice(T)])
    if rng.random() < 0.3:
        alts.insert(rng.randint(0, len(alts)), [rng.choice(nullables), rng.choice(T), S])
    alts.append([rng.choice(T)])
    g[S] = alts
    for N in nullables:
        a = [[], [rng.choice(T)] + ([rng.choice(T)] if rng.random() < 0.3 else [])]
        if rng.random() < 0.2 and len(nullables) > 1:
            a.append([rng.choice([x for x in nullables if x != N])])
        rng.shuffle(a)
        g[N] = a
    for B in nonnull:
        a = [[rng.choice(T)] + ([rng.choice([S] + nonnull + T)] if rng.random() < 0.4 else [])]
        if rng.random() < 0.4:
            a.append([rng.choice(T), rng.choice(T)])
        if rng.random() < 0.15:
            a.append([rng.choice(nullables), rng.choice(T)])
        g[B] = a
    if S != nts[0]:
        g[nts[0]] = [[S] + ([rng.choice(T)] if rng.random() < 0.5 else []), [rng.choice(T), S]]
    return [[nt, _dedupe(g[nt])] for nt in nts]


def gen_firstchain(rng, T, nts):
    """late dependencies of the fixpoints: R -> S .. ; S -> N.. B t with nullable N; B gets its first token only
    through a chain of unit rules B -> C -> D -> t; FOLLOW travels the other way (.. X at the end of rules);
    the symbols are declared in random (often adverse) order"""
    if len(nts) < 4:
        return gen_nonleftrec(rng, T, nts)
    R, rest = nts[0], list(nts[1:])
    rng.shuffle(rest)
    S, A, chain = rest[0], rest[1], rest[2:]
    g = {}
    g[R] = [[S] + ([rng.choice(T)] if rng.random() < 0.5 else [])]
    if rng.random() < 0.4:
        g[R].append([rng.choice(T), S])
    pre = [A] * rng.randint(1, 2)
    g[S] = [pre + [chain[0]] + [rng.choice(T) for _ in range(rng.randint(0, 1))]]
    if rng.random() < 0.4:
        g[S].append([rng.choice(T)])
    g[A] = [[rng.choice(T)], []]
    rng.shuffle(g[A])
    for i, c in enumerate(chain):
        if i + 1 < len(chain):
            g[c] = [[chain[i + 1]] + ([A] if rng.random() < 0.3 else [])]
            if rng.random() < 0.3:
                g[c].append([rng.choice(T), rng.choice(T)])
        else:
            g[c] = [[rng.choice(T)] + ([rng.choice(T)] if rng.random() < 0.3 else [])]
            if rng.random() < 0.3:
                g[c].append([])
    order = list(nts)
    r = rng.random()
    if r < 0.4:
        order = [R, S, A] + chain            # declaration order = dependency order (adverse for work-lists)
    elif r < 0.7:
        order = list(reversed([R, S, A] + chain))
    else:
        rng.shuffle(order)
    return [[nt, _dedupe(g[nt])] for nt in order]


def gen_malformed(rng, T, nts):
    g = gen_nonleftrec(rng, T, nts)
    kind = rng.choice(["unknown-symbol", "no-start", "nt-is-terminal", "dunder", "duplicate-alt", "end-used",
                       "no-alternatives", "duplicate-empty", "start-used", "dunder-rhs", "dunder-rhs",
                       "bad-skip", "dunder-terminal"])
    sym, alts = rng.choice(g)
    if kind == "unknown-symbol":
        alts.append([rng.choice(T), "Q"])
    elif kind == "no-start":
        g = g[1:] or [["Q", [[T[0]]]]]
    elif kind == "nt-is-terminal":
        g.append([T[0], [[T[1]]]])
    elif kind == "dunder":
        g.append(["Q__1", [[T[0]]]])
        g[0][1].append(["Q__1"])
    elif kind == "dunder-rhs":
        # a reserved name on a right-hand side: the helper symbol of an existing key, or any other `__` name; at any
        # position of the alternatives list, in particular behind a None / AnyTokenExcept alternative
        name = rng.choice([g[0][0] + "__S00", sym + "__S00", sym + "__S01", "Q__1", g[0][0] + "__S00__S00"])
        bad = [name] if rng.random() < 0.3 else (
            [rng.choice(T), name] if rng.random() < 0.5 else [name, rng.choice(T)])
        alts.insert(rng.randint(0, len(alts)), bad)
        k = alts.index(bad)
        r = rng.random()
        if r < 0.35:
            alts.insert(rng.randint(0, k), None)
        elif r < 0.6:
            alts.insert(rng.randint(0, k), {"ax": rng.sample(T, rng.randint(0, 2))})
        if rng.random() < 0.8:      # a helper of that name really exists (a common prefix of two symbols survives the smart undo)
            g[0][1][:0] = [[T[0], T[1], T[0]], [T[0], T[1], T[2]]]
    elif kind == "duplicate-alt":
        a = rng.choice(alts) if alts else [T[0]]
        alts.insert(rng.randint(0, len(alts)), list(a))
    elif kind == "duplicate-empty":
        k = rng.randint(0, len(alts))
        alts[k:k] = [[], []]
    elif kind == "end-used":
        alts.append([T[0], "$END$"])
    elif kind == "start-used":
        alts.append(["$START$"])
    elif kind == "no-alternatives":
        g.append(["Q", []])
        g[0][1].append([T[0], "Q"])
    return g, kind


def all_strings(alphabet, maxlen):
    for n in range(maxlen + 1):
        for w in itertools.product(alphabet, repeat=n):
            yield list(w)


def render(rng, var, w):
    """token names -> text: one lexeme per token, separator, random extra blanks / skipped noise"""
    inv = {}
    for ch, name in var["lex"].items():
        inv.setdefault(name, []).append(ch)
    if "ctx" in var:
        return render_ctx(rng, var, w)
    if "free" in var:
        inv["w"] = var["free"]
    if "spanlex" in var:       # (text, value) pairs: the value of a span token is its body
        pairs = [rng.choice(var["spanlex"][t]) if t in var["spanlex"] else [rng.choice(inv[t])] * 2 for t in w]
        out = []
        for tx, _ in pairs:
            if rng.random() < 0.25:
                out.append(rng.choice(var["spannoise"]))
            out.append(tx)
        if rng.random() < 0.2:
            out.append(rng.choice(var["spannoise"]))
        text = (" " if rng.random() < 0.8 else " \n").join(out)
        render.expect[text] = [[t, v] for t, (_, v) in zip(w, pairs)]
        return text
    parts = [rng.choice(inv[t]) for t in w]
    if "free" in var:          # free-text lexemes: remember the intended tokens, the text is not self-describing
        text = " ".join(parts) if rng.random() < 0.8 else " \n".join(parts)
        render.expect[text] = [[t, p_] for t, p_ in zip(w, parts)]
        return text
    if var["sep"] == "":
        if not var["noise"]:
            return "".join(parts)
        out = ""
        for p_ in parts:
            if rng.random() < 0.2:
                out += var["noise"]
            out += p_
        return out + (var["noise"] if rng.random() < 0.1 else "")
    out = ""
    for i, p in enumerate(parts):
        if i:
            out += rng.choice([" ", " ", " ", "  ", "\t", " \n", "\n"])
        if var["noise"] and rng.random() < 0.15:
            out += var["noise"] + " "
        out += p
    if rng.random() < 0.1:
        out = " " + out
    if rng.random() < 0.1:
        out += " "
    return out


render.expect = {}


def skip_names(spec):
    if spec["skip"] is None:
        return [t for t in ("SPACE", "COMMENT") if t in terminal_names(spec)]
    return list(spec["skip"])


def _finish_case(lines, spec, var_name, texts, meta, lexmap):
    m = dict(meta)
    m["variant"] = var_name
    case = {"lines": lines, "meta": m, "lexmap": dict(VARIANTS[var_name]["lex"] if lexmap is None else lexmap),
            "skipnames": skip_names(spec)}
    v_ = VARIANTS.get(var_name, {})
    exp = {t: render.expect[t] for t in texts if t in render.expect} if ("free" in v_ or "spanlex" in v_) else {}
    if exp:
        case["expect"] = exp
    if "ctx" in v_:
        case["ctx"] = v_["ctx"]
    return case


def make_case(spec, var_name, words, texts, meta, diags=("prods", "suffix", "table", "nullables", "first", "follow"),
              lexmap=None, seqs=(), line_texts=(), obs=(), kwcalls=()):
    """per smart value: construct, diagnostics, the parses (`line_texts`: given as a list of lines), then the call
    sequences `seqs` = [(X, text), ...]: parse(text, start_symbol_name=X) followed by a plain parse(text) on the same
    parser object, then is_ambiguous() once more.
    `obs` = [(position, observer op)]: observer methods called BETWEEN the parses (position = number of texts parsed
    before it; the parses after it are the evidence that it changed nothing);
    `kwcalls` = [(flags, X | None, text)]: parse with keyword arguments (debug, do_cleanup, src_name, start symbol)"""
    lines = []
    for smart in (True, False):
        lines.append(enc_g(spec, smart))
        lines.extend(diags)
        for i, t in enumerate(texts):
            for pos, o in obs:
                if pos == i:
                    lines.append(o)
            lines.append(enc_p(spec, t))
        for t in line_texts:
            lines.append(enc_p(spec, t, as_lines=True))
        for fl, x, t in kwcalls:
            lines.append(enc_p(spec, t, start=x, flags=fl))
        for x, t in seqs:
            lines.append(enc_p(spec, t, start=x))
            lines.append(enc_p(spec, t))
        lines.append("amb")
    return _finish_case(lines, spec, var_name, list(texts) + list(line_texts) + [t for _, t in seqs] +
                        [t for _, _, t in kwcalls], meta, lexmap)


def make_multi_case(specs, var_name, texts_per_spec, meta, lexmap=None):
    """2-3 parser objects alive in one process: construct and use A, construct and use B (C), then go back to each of
    them (`use k`); every parser is judged on its own"""
    lines, all_texts = [], []
    for spec, texts in zip(specs, texts_per_spec):
        lines.append(enc_g(spec, True))
        for t in texts[:len(texts) // 2 + 1]:
            lines.append(enc_p(spec, t))
        all_texts.extend(texts)
    for k, (spec, texts) in enumerate(zip(specs, texts_per_spec)):
        lines.append("use %d" % k)
        for t in texts:
            lines.append(enc_p(spec, t))
        lines.append("amb")
    m = dict(meta)
    m["parsers"] = len(specs)
    return _finish_case(lines, specs[0], var_name, all_texts, m, lexmap)


def gen_templates(rng, T, nts):
    """a grammar whose first keys are templates: ProdSequence (members: terminals and non-terminals, some nullable),
    ListProds with a delimiter, MapProds; the other symbols are small plain ones, some nullable"""
    if len(nts) < 3:
        return gen_nonleftrec(rng, T, nts)
    start, rest = nts[0], list(nts[1:])
    rng.shuffle(rest)
    n_t = rng.randint(1, min(2, len(rest) - 1))
    tkeys, plain = rest[:n_t], rest[n_t:]
    nullable = set(p_ for p_ in plain if rng.random() < 0.4)
    g = []
    for p_ in plain:
        alts = [[rng.choice(T)] + ([rng.choice(T)] if rng.random() < 0.3 else [])]
        if rng.random() < 0.3:
            alts.append([rng.choice(T), rng.choice(plain)])
        if p_ in nullable:
            alts.insert(rng.randint(0, len(alts)), [])
        g.append([p_, _dedupe(alts)])
    tdefs = []
    for k in tkeys:
        kind = rng.choice(["seq", "seq", "list", "map"])
        if kind == "seq":
            members = rng.sample(T + plain, rng.randint(1, min(3, len(T + plain))))
            if rng.random() < 0.4:
                # one AnyTokenExcept member at ANY position of the argument list (first / middle / last); it mostly excludes
                # the terminals listed explicitly and the first tokens of the other members (else: duplicate / conflict)
                excl = [m for m in members if m in T] + [x for x in T if rng.random() < 0.5]
                if rng.random() < 0.15:
                    excl = rng.sample(T, rng.randint(0, len(T)))
                members.insert(rng.randint(0, len(members)), {"ax": sorted(set(excl), key=excl.index)})
            tdefs.append([k, {"t": "seq", "args": members}])
        elif kind == "list":
            br = rng.random() < 0.5
            # the delimiter is any symbol: a terminal or a (possibly nullable) non-terminal - then the tail of the list can
            # reach itself without a token although the list stands behind its opening bracket; or there is NO delimiter
            # (with and without brackets; the item nullable or not: a nullable item is a GrammarError of the template's
            # own verify_grammar stage)
            delim = rng.choice(T) if rng.random() < 0.6 else rng.choice(plain)
            if rng.random() < 0.22:
                delim = None
            item = rng.choice(plain + T)
            if nullable and delim is not None and rng.random() < 0.2:
                # separator AND item nullable: the tail of the container reaches itself without a token (behind brackets
                # the cycle consists of generated symbols only and is entered behind a token)
                item, delim = rng.choice(sorted(nullable)), rng.choice(sorted(nullable))
            tdefs.append([k, {"t": "list", "args": [rng.choice(T) if br else None, item, delim,
                                                      rng.choice(T) if br else None,
                                                      rng.choice([None, 0, 1] if delim is not None else [None, 0]) if br else None,
                                                      rng.choice([None, 0, 1]) if br else None]}])
        else:
            anysym = lambda: rng.choice(T) if rng.random() < 0.7 else rng.choice(plain)
            kv = lambda: rng.choice(plain + T)
            if nullable and rng.random() < 0.2:        # key, assign, value and delimiter all nullable
                anysym = kv = lambda: rng.choice(sorted(nullable))
            tdefs.append([k, {"t": "map", "args": [rng.choice(T), kv(), anysym(), kv(),
                                                     anysym(), rng.choice(T), rng.choice([None, 0, 1]),
                                                     rng.choice([None, 0, 1])]}])
    top = [[rng.choice(tkeys)] + ([rng.choice(T)] if rng.random() < 0.7 else [])]
    for _ in range(rng.randint(0, 2)):
        top.append([rng.choice(T)] + [rng.choice(tkeys + plain + T) for _ in range(rng.randint(0, 2))])
    # recursion THROUGH the templates, both kinds: a plain symbol (member / item of a template) that starts with the
    # template again (a cycle when the container has no brackets or is a sequence; harmless behind brackets), and right
    # recursion behind a container: X -> (container, X) | ()
    r = rng.random()
    if r < 0.35:
        for e in g:
            if rng.random() < 0.3:
                e[1].append([rng.choice(tkeys)] + [rng.choice(T)] * rng.randint(0, 1))
        gd = dict((k, v) for k, v in g)
        for k, td in tdefs:              # a symbol the container is made of (member, item, key, value, delimiter ...)
            inner = [a for a in td["args"] if isinstance(a, str) and a in gd]
            if inner and rng.random() < 0.7:
                gd[rng.choice(inner)].append([k] + [rng.choice(T)] * rng.randint(0, 1))
    elif r < 0.7:
        tk = rng.choice(tkeys)
        top = [[tk, start], []] if rng.random() < 0.6 else [[rng.choice(plain), tk, start], [rng.choice(T)]]
    if rng.random() < 0.5:
        # a (possibly empty) container / nullable symbol in the common prefix of NON-adjacent alternatives (they are not
        # factorised together); the first one fails behind the prefix: roll-back across a completed template node
        seqkeys = [k for k, td in tdefs if td["t"] == "seq"]
        first = rng.choice(seqkeys) if (seqkeys and rng.random() < 0.6) else rng.choice(tkeys + tkeys + sorted(nullable))
        pre = [first] + ([rng.choice(tkeys + T)] if rng.random() < 0.3 else [])
        common = [rng.choice(T) for _ in range(rng.randint(0, 2))]
        a1 = pre + common + [rng.choice(T) for _ in range(rng.randint(1, 2))]
        a3 = pre + common + [rng.choice(T) for _ in range(rng.randint(1, 2))]
        mid = [[rng.choice(T)] + [rng.choice(T + plain)] * rng.randint(0, 1)]
        shape = [a1] + mid + [a3] + ([pre + [rng.choice(T)]] if rng.random() < 0.3 else [])
        if rng.random() < 0.5:
            top = shape + [a for a in top if rng.random() < 0.5]
        else:
            tgt = rng.choice(g)
            tgt[1][:] = _dedupe(shape + [a for a in tgt[1] if a and rng.random() < 0.5])
            if not any(tgt[0] in a for a in top):
                top.append([tgt[0]])
    if rng.random() < 0.5:
        # a container at DIFFERENT positions of two alternatives: the second starts with something the container can
        # start with, so the first (failing) match of the container covers the place where it is expanded again
        seqs_ = [x for x in tdefs if x[1]["t"] == "seq" and any(isinstance(a, str) and a in T for a in x[1]["args"])]
        k, td = rng.choice(seqs_) if (seqs_ and rng.random() < 0.7) else rng.choice(tdefs)
        firsts = [a for a in td["args"] if isinstance(a, str) and a in T] or [rng.choice(T)]
        m = rng.choice(firsts)
        tail = [rng.choice(T)]
        a1 = [k] + [rng.choice(T)] * rng.randint(0, 1) + [rng.choice(T)] + tail
        a2 = [m] * rng.randint(1, 2) + [k] + [rng.choice(T)] + tail
        shape = [a1, a2] if rng.random() < 0.7 else [a2, a1]
        top = shape + [a for a in top if rng.random() < 0.4]
    out = [[start, _dedupe(top)]] + tdefs + g
    if rng.random() < 0.4:
        rng.shuffle(out)
    return out


def plainify(spec):
    """the same grammar written without templates: the generated productions become ordinary ones (the `__` names
    are renamed), so a template key of one parser is an ordinary non-terminal of compatible shape in another"""
    ren = lambda x: x.replace("__", "x")
    s2 = dict(spec)
    s2["prods"] = [[ren(k), [[ren(x) for x in a] for a in alts]] for k, alts in expanded_prods(spec)]
    return s2


def gen_spec(rng, malformed_share=0.05, hidden_share=0.04, ll1_share=0.2, dfs_share=0.03, chain_share=0.06,
             tmpl_share=0.05):
    """-> (spec, variant name, meta)"""
    var_name = rng.choice(["plain"] * 4 + ["syn", "kw", "synkw", "noskip", "swap", "spaceterm", "skipb", "comment",
                           "skipiter", "free", "kwskip1", "kwskip2", "synid", "synchain", "synchainkw", "wsterm", "span", "spanchain", "kwcross",
                           "ctxbol", "ctxbehind", "ctxword", "ctxdir"])
    var = VARIANTS[var_name]
    T = list(var["T"])
    pool = list(rng.choice(NT_POOLS))
    if rng.random() < 0.5:
        rng.shuffle(pool)
    nts = pool[:rng.choice([1, 2, 2, 3, 3, 4, 5, 6])]
    r = rng.random()
    kind = None
    if r < malformed_share:
        g, kind = gen_malformed(rng, T, nts)
        gen = "malformed"
    elif r < malformed_share + hidden_share:
        if rng.random() < 0.3:
            if len(nts) < 2 and rng.random() < 0.8:
                nts = pool[:rng.choice([2, 3, 4])]
            g, gen = gen_nobase_cycle(rng, T, nts), "nobase"
        else:
            g, gen = gen_hidden_rec(rng, T, nts), "hiddenrec"
    elif r < malformed_share + hidden_share + dfs_share:
        if len(nts) < 3:
            nts = pool[:rng.choice([3, 4, 5])]
        g, gen = gen_dfs_shapes(rng, T, nts), "dfsshapes"
    elif r < malformed_share + hidden_share + dfs_share + chain_share:
        if len(nts) < 4:
            nts = pool[:rng.choice([4, 5, 5, 6])]
        g, gen = gen_firstchain(rng, T, nts), "firstchain"
    elif r < malformed_share + hidden_share + dfs_share + chain_share + tmpl_share:
        if len(nts) < 3:
            nts = pool[:rng.choice([3, 4, 5])]
        g, gen = gen_templates(rng, T, nts), "templates"
    elif r > 1.0 - ll1_share:
        g, gen = gen_ll1ish(rng, T, nts), "ll1ish"
    else:
        r2 = rng.random()
        if r2 < 0.3:
            g, gen = gen_unbiased(rng, T, nts), "unbiased"
        elif r2 < 0.62:
            g, gen = gen_nonleftrec(rng, T, nts), "nonleftrec"
        else:
            g, gen = gen_shaped(rng, T, nts), "shaped"
    anytok = False
    repeated = False
    start = nts[0]
    if start == "E" and rng.random() < 0.5:
        start = None                 # start_symbol_name not passed: the constructor's default 'E'
    if rng.random() < 0.2 and gen not in ("malformed", "firstchain", "templates"):
        rng.shuffle(g)               # dict order (sort_n, prods_map order) independent of the start symbol
    if gen != "malformed":
        for e in g:
            if isinstance(e[1], list):
                e[1][:] = [None if (a == [] and rng.random() < 0.4) else a for a in e[1]]
        if rng.random() < 0.06:
            tgt = rng.choice([e for e in g if isinstance(e[1], list)])
            tgt[1].insert(rng.randint(0, len(tgt[1])), {"ax": rng.sample(T, rng.randint(1, len(T)))})
            anytok = True
    emptykey = False
    if gen != "malformed" and rng.random() < 0.1:
        # a key that derives nothing - an empty list of alternatives, or only AnyTokenExcept(<every token>) - (legal for
        # the constructor), unreferenced or referenced anywhere in an alternative, also in front of other symbols
        dead = []
        if rng.random() < 0.3:
            tmp = {"tok": var["tok"], "syn": var["syn"], "kw": var["kw"]}
            dead = [{"ax": sorted(terminal_names(tmp))}]
            anytok = True
        g.insert(rng.randint(0, len(g)), ["Y9", dead])
        if rng.random() < 0.65:
            tgt = rng.choice([e for e in g if isinstance(e[1], list) and e[0] != "Y9"] or [None])
            if tgt is not None:
                r_ = rng.random()
                lists = [a for a in tgt[1] if isinstance(a, list) and a]
                if r_ < 0.35 or not lists:
                    tgt[1].append([rng.choice(T), "Y9"])
                elif r_ < 0.7:
                    a = rng.choice(lists)
                    a.insert(rng.randint(0, len(a)), "Y9")
                else:       # in front of the symbol itself / of another key
                    tgt[1].insert(rng.randint(0, len(tgt[1])), ["Y9", rng.choice([tgt[0]] + [e[0] for e in g]), rng.choice(T)])
        emptykey = True
    if gen not in ("malformed", "layered") and rng.random() < 0.15:
        # standing feature: one non-terminal occurring 2-3 times in ONE production (W B W, K V K V)
        cands = [(e, a) for e in g if isinstance(e[1], list) for a in e[1] if isinstance(a, list)
                 and any(x for x in a if x not in T)]
        if cands:
            e, a = rng.choice(cands)
            keys = set(k for k, _ in g)
            x = rng.choice([x for x in a if x not in T])
            if x in keys:
                for _ in range(rng.randint(1, 2)):
                    i = a.index(x)
                    a.insert(rng.randint(i + 1, len(a)), x)
                    if rng.random() < 0.5 and len(a) < 6:
                        a.insert(rng.randint(i + 1, len(a) - 1), rng.choice(sorted(keys) + T))
                repeated = True
    spec = {"tok": [list(x) for x in var["tok"]], "syn": dict(var["syn"]), "kw": [list(x) for x in var["kw"]],
            "skip": None if var["skip"] is None else list(var["skip"]), "start": start, "prods": g}
    if "span" in var:
        spec["span"] = dict(var["span"])
    if spec["skip"] is not None:
        spec["kinds"] = {"skip": rng.choice(ARG_KINDS)}
    meta = {"gen": gen, "nts": len(nts), "start": "default" if start is None else "explicit"}
    if emptykey:
        meta["emptykey"] = 1
    if anytok:
        meta["anytoken"] = 1
    if repeated:
        meta["repeated"] = 1
    for _, td in g:
        if isinstance(td, dict) and td["t"] == "seq":
            for i, a in enumerate(td["args"]):
                if isinstance(a, dict):
                    meta["anytoken"] = 1
                    meta["seqax"] = "last" if i == len(td["args"]) - 1 else ("first" if i == 0 else "middle")
        if isinstance(td, dict) and td["t"] == "list" and td["args"][2] is None:
            meta["nodelim"] = "brackets" if td["args"][0] is not None else "bare"
    if spec.get("kinds"):
        meta["skipkind"] = spec["kinds"]["skip"]
    if kind == "bad-skip":           # skip_tokens names a token the tokenizer does not know: GrammarError
        spec["skip"] = (spec["skip"] or ["SPACE"]) + ["NOTOKEN"]
    elif kind == "dunder-terminal":  # a reserved name among the terminals: AssertionError
        spec["tok"].append(["Z9", "z"])
        spec["syn"]["Z9"] = "t__1"
    if kind:
        meta["malformed"] = kind
    return spec, var_name, meta


def gen_ll_cases(rng, n_grammars, maxlen, extra_long=0, rec_maxlen=2, malformed_share=0.05, sentences=25,
                 hidden_share=0.04, diags=("prods", "suffix", "table", "nullables", "first", "follow"), ll1_share=0.2,
                 sent_maxlen=7, dfs_share=0.03, chain_share=0.06, tmpl_share=0.05, multi_share=0.5):
    for _ in range(n_grammars):
        spec, var_name, meta = gen_spec(rng, malformed_share, hidden_share, ll1_share, dfs_share, chain_share, tmpl_share)
        var = VARIANTS[var_name]
        ok = clean(spec)
        rec = ok and left_rec(user_grammar(spec))
        meta["ref"] = "malformed" if not ok else ("left-recursive" if rec else "ok")
        ml = maxlen if (ok and not rec) else rec_maxlen
        words = list(all_strings(var["T"], ml))
        names = set(var["lex"].values()) | ({"w"} if "free" in var else set()) | set(var.get("spanlex", ())) | set(var.get("ctxlex", ()))
        n_enum = len(words)
        if ok and not rec:
            for w in sample_sentences(rng, user_grammar(spec), start_of(spec), sentences, sent_maxlen):
                if w not in words and all(t in names for t in w):   # AnyTokenExcept also lists the skipped names
                    words.append(w)
            for _ in range(extra_long):
                words.append([rng.choice(var["T"]) for _ in range(rng.randint(maxlen + 1, maxlen + 2))])
        texts = [render(rng, var, w) for w in words]
        if meta["gen"] == "templates" and ok and not rec and rng.random() < multi_share:
            # several parser objects in one process: the template grammar, the same grammar written without templates
            # (its template keys are ordinary symbols there), sometimes an unrelated grammar over the same names
            specs = [spec, plainify(spec)]
            if rng.random() < 0.4:
                s3, _, _ = gen_spec(rng, 0.0, 0.0, 0.2, 0.0, 0.0, 0.0)
                s3 = dict(spec, prods=s3["prods"], start=s3["start"])
                has_ax = any(isinstance(a, dict) for _, al in s3["prods"] if isinstance(al, list) for a in al)
                if not has_ax and clean(s3) and not left_rec(user_grammar(s3)):   # (its AnyTokenExcept lists name other tokens)
                    specs.append(s3)
            rng.shuffle(specs)
            few = texts[:13] + texts[40:][:25]
            yield make_multi_case(specs, var_name, [few] * len(specs), meta)
            continue
        if meta.get("anytoken") and ok and not rec and rng.random() < 0.6:
            # the same caller-owned AnyTokenExcept items in the grammars of two parsers whose tokenizers know different
            # tokens (one more group `Zq`): each parser's item stands for ITS terminals
            sib = dict(spec, tok=[list(x) for x in spec["tok"]] + [["Zq", "q"]])
            few = texts[:13] + texts[40:][:25]
            qtexts = []
            if "free" not in var and "spanlex" not in var and "ctx" not in var:
                for t in few[:12]:
                    cut = rng.randint(0, len(t))
                    qtexts.append(t[:cut] + var["sep"] + "q" + var["sep"] + t[cut:])
            pair = [(spec, few), (sib, few + qtexts)]
            if rng.random() < 0.5:
                pair.reverse()
            yield make_multi_case([x for x, _ in pair], var_name, [y for _, y in pair], dict(meta, shareditems=1),
                                  lexmap=dict(var["lex"], q="Zq"))
            continue
        line_texts = []
        if ok and not rec and (var_name in ("free", "wsterm", "span", "spanchain") or rng.random() < (0.5 if "ctx" in var else 0.15)):
            line_texts = [t for t in texts if rng.random() < 0.2][:30]
        seqs = []
        if ok and not rec:
            ug = user_grammar(spec)
            others = [k for k in ug if k != start_of(spec)]
            for _ in range(min(3, len(others))):
                x = rng.choice(others)
                sent = [w for w in sample_sentences(rng, ug, x, 2, 5) if all(t in names for t in w)]
                for w in sent[:2] or [rng.choice(words)]:
                    seqs.append((x, render(rng, var, w)))
            if rng.random() < 0.15:      # not a key: AssertionError, and nothing may stick
                seqs.append(("Nokey", render(rng, var, rng.choice(words))))
            if seqs:
                meta["seq"] = len(seqs)
        obs, kwcalls = [], []
        if ok and not rec:
            if rng.random() < 0.35:      # observer methods between the parses: early, so that most parses come after them
                for _ in range(rng.randint(1, 3)):
                    obs.append((rng.choice([0, 0, 1, 2, rng.randint(0, max(0, len(texts) - 1))]), rng.choice(OBSERVERS)))
                meta["observers"] = len(obs)
            if rng.random() < 0.35:      # every combination of the documented keyword arguments of parse
                keys = [k for k in user_grammar(spec)]
                combos = ["", "d", "c", "n", "dc", "dn", "cn", "dcn"]
                rng.shuffle(combos)
                sent_texts = texts[n_enum:]          # sampled sentences: mostly accepted
                for fl in combos[:rng.randint(2, 6)]:
                    if "free" not in var and "spanlex" not in var and rng.random() < 0.15:
                        fl += "l"
                    x = rng.choice(keys) if (keys and rng.random() < 0.3) else None
                    t = rng.choice(sent_texts) if (sent_texts and x is None and rng.random() < 0.7) else rng.choice(texts)
                    kwcalls.append((fl, x, t))
                meta["kwcalls"] = len(kwcalls)
        yield make_case(spec, var_name, words, texts, meta, diags=diags, seqs=seqs, line_texts=line_texts, obs=obs,
                        kwcalls=kwcalls)


def gen_layered_cases(rng, levels=(8, 16, 28, 40), per_level=1):
    """layered, expression-like grammars: every level has 2-3 alternatives that reach the next level without a token
    along different first symbols (nullable symbols in front / unit pairs), so the number of token-free PATHS from the
    top to the bottom is exponential in the number of levels while the grammar stays small; the bottom is a token (no
    cycle) or goes back to some level (cycle). Only inputs that are decided without backtracking are sent."""
    var = VARIANTS["plain"]
    for n in levels:
        for _ in range(per_level):
            shape = rng.choice(["nullable-front", "unit-pair", "mixed"])
            width = rng.choice([2, 2, 3])
            back = rng.choice([None, None, "top", "middle"])
            L = ["L%d" % i for i in range(n + 1)]
            g = []
            for i in range(n):
                sh = shape if shape != "mixed" else rng.choice(["nullable-front", "unit-pair"])
                if sh == "nullable-front":
                    g.append([L[i], [[nn, L[i + 1]] for nn in ["Na", "Nb", "Nc"][:width]]])
                else:
                    subs = ["M%d_%d" % (i, k) for k in range(width)]
                    g.append([L[i], [[m] for m in subs]])
                    for k, m in enumerate(subs):
                        g.append([m, [[L[i + 1], ["b", "c", "a"][k]]]])
            g.append([L[n], [["a"]] if back is None else [[L[0] if back == "top" else L[n // 2], "a"], ["a"]]])
            g += [["Na", [["b"], []]], ["Nb", [["c"], []]], ["Nc", [["b", "c"], []]]]
            if rng.random() < 0.5:
                head, rest = g[:1], g[1:]
                rng.shuffle(rest)
                g = head + rest
            spec = {"tok": [list(x) for x in var["tok"]], "syn": {}, "kw": [], "skip": None, "start": "L0", "prods": g}
            # decided at once: the empty text, a text starting with a token outside FIRST(L0) ... and one sentence found
            # by always taking the first alternative
            sent = ["a"] + [x for i in reversed(range(n)) for x in (["b"] if g_first_is_unit(g, "L%d" % i) else [])]
            words = [[]] + ([["b"]] if shape == "unit-pair" else [])
            if back is None:
                words.append(sent)
            texts = [" ".join(w) for w in words]
            meta = {"gen": "layered", "levels": n, "shape": shape, "width": width,
                    "ref": "left-recursive" if back else "ok", "nts": len(g), "start": "explicit"}
            yield make_case(spec, "plain", words, texts, meta, diags=())


def g_first_is_unit(g, sym):
    d = dict((k, v) for k, v in g)
    return d[sym][0][0].startswith("M")


def _join(items, sep):
    out = []
    for k, it in enumerate(items):
        if k:
            out.extend(sep)
        out.extend(it)
    return out


CLEANUP_MAX_DEPTH = 250     # default parse() (do_cleanup=True) is only called when the derivation tree is at most this deep

LONG_SHAPES = [
    # user-written right recursion: the derivation tree is as deep as the input is long.
    # prods, start, yes/no: n -> token names of a sentence / non-sentence, depth: n -> levels of the derivation tree
    dict(name='rec-a', prods=[["E", [["L", "c"]]], ["L", [["a", "L"], []]]], yes=lambda n: ["a"] * n + ["c"],
         no=lambda n: ["a"] * n + ["c", "c"], depth=lambda n: n + 2),
    dict(name='rec-item', prods=[["E", [["L", "c"]]], ["L", [["I", "L"], []]], ["I", [["a"], ["b"]]]],
         yes=lambda n: ["a", "b"] * (n // 2) + ["c"], no=lambda n: ["a", "b"] * (n // 2) + ["c", "a"], depth=lambda n: n + 3),
    dict(name='rec-pair', prods=[["E", [["a", "T9"]]], ["T9", [["b", "a", "T9"], ["c"]]]],
         yes=lambda n: ["a"] + ["b", "a"] * (n // 2) + ["c"], no=lambda n: ["a"] + ["b", "a"] * (n // 2) + ["c", "b"],
         depth=lambda n: n // 2 + 3),
    dict(name='rec-nest', prods=[["E", [["a", "E", "b"], ["c"]]]], yes=lambda n: ["a"] * (n // 2) + ["c"] + ["b"] * (n // 2),
         no=lambda n: ["a"] * (n // 2) + ["c"] + ["b"] * (n // 2) + ["b"], depth=lambda n: n // 2 + 2),
    # containers (`items`: n = number of items): the RAW tree holds a tail chain as long as the container, the derivation
    # of the user's grammar - a container is one node - is flat
    dict(name='seq', prods=[["E", [["S9", "c"]]], ["S9", {"t": "seq", "args": ["a", "B"]}], ["B", [["b"]]]], items=True,
         yes=lambda n: ["a", "b"] * (n // 2) + ["c"], no=lambda n: ["a", "b"] * (n // 2) + ["c", "c"], depth=lambda n: 4),
    # a ProdSequence whose AnyTokenExcept member is NOT the last argument
    dict(name='seq-ax', prods=[["E", [["S9", "c"]]], ["S9", {"t": "seq", "args": [{"ax": ["a", "c", "SPACE"]}, "A9"]}], ["A9", [["a"]]]],
         items=True, yes=lambda n: ["b", "a"] * (n // 2) + ["c"], no=lambda n: ["b", "a"] * (n // 2) + ["c", "c"],
         depth=lambda n: 4),
    # ListProds: delimiter without brackets / brackets + delimiter + final delimiter / NO delimiter, no brackets
    dict(name='list-delim', prods=[["E", [["L9", "c"]]], ["L9", {"t": "list", "args": [None, "a", "b", None, None, None]}]], items=True, big=5000,
         yes=lambda n: _join([["a"]] * n, ["b"]) + ["c"], no=lambda n: _join([["a"]] * n, ["b"]) + ["b", "c"], depth=lambda n: 3),
    dict(name='list-brackets', prods=[["E", [["L9"]]], ["L9", {"t": "list", "args": ["d", "I", "c", "e", 1, None]}], ["I", [["a"], ["b"]]]],
         items=True, var="plain5", yes=lambda n: ["d"] + _join([["a"], ["b"]] * (n // 2), ["c"]) + ["c", "e"],
         no=lambda n: ["d"] + _join([["a"], ["b"]] * (n // 2), ["c"]) + ["c", "c", "e"], depth=lambda n: 4),
    dict(name='list-nodelim', prods=[["E", [["L9", "c"]]], ["L9", {"t": "list", "args": [None, "I", None, None, None, None]}], ["I", [["a"], ["b"]]]],
         items=True, yes=lambda n: ["a", "b"] * (n // 2) + ["c"], no=lambda n: ["a", "b"] * (n // 2) + ["c", "a"],
         depth=lambda n: 4),
    # MapProds
    dict(name='map', prods=[["E", [["M9"]]], ["M9", {"t": "map", "args": ["d", "K", "b", "V", "c", "e", None, None]}], ["K", [["a"]]],
                ["V", [["a"], ["b"]]]], items=True, var="plain5", big=2000,
         yes=lambda n: ["d"] + _join([["a", "b", "a"], ["a", "b", "b"]] * (n // 2), ["c"]) + ["e"],
         no=lambda n: ["d"] + _join([["a", "b", "a"], ["a", "b", "b"]] * (n // 2), ["c"]) + ["c", "c", "e"], depth=lambda n: 5),
]


def gen_long_cases(rng, sizes=(150, 500, 2000), shapes=None, item_sizes=None, cleanup=True, big=None):
    """right-recursive LL(1) grammars (user-written, and the shape lists / maps / sequences have) on long inputs: a
    sentence and a non-sentence whose already matched part holds a subtree `n` levels deep; membership is known by
    construction.  Every text is parsed with do_cleanup=False (`p`) and - when the derivation tree is at most
    CLEANUP_MAX_DEPTH levels deep - with the default do_cleanup=True (`px c`).  Containers get `item_sizes` items
    (default: the first of `sizes`, one size in 990..1100) and `big` items (default: what the shape says - 5000 for a
    list, 2000 for a map, nothing for the others; the Lean model needs quadratic time; False: none).  `shapes`: names."""
    if item_sizes is None:
        item_sizes = (sizes[0], rng.randint(990, 1100))
    for sh in LONG_SHAPES:
        if shapes is not None and sh["name"] not in shapes:
            continue
        var_name = sh.get("var", "plain")
        var = VARIANTS[var_name]
        spec = {"tok": [list(x) for x in var["tok"]], "syn": {}, "kw": [], "skip": None, "start": "E",
                "prods": [[k, (dict(a) if isinstance(a, dict) else [list(x) for x in a])] for k, a in sh["prods"]]}
        texts, member, kwcalls = [], {}, []
        extra = [] if big is False else ([big if big is not None else sh["big"]] if (big is not None or "big" in sh) else [])
        for n in (tuple(item_sizes) + tuple(extra) if sh.get("items") else sizes):
            for w, isin in ((sh["yes"](n), True), (sh["no"](n), False), (sh["yes"](n)[:-1], False)):
                t = " ".join(w)
                texts.append(t)
                member[t] = isin
                if cleanup and sh["depth"](n) <= CLEANUP_MAX_DEPTH:
                    kwcalls.append(("c", None, t))
        meta = {"gen": "long", "ref": "ok", "nts": len(sh["prods"]), "start": "explicit"}
        if kwcalls:
            meta["cleanup"] = "long"
        c = make_case(spec, var_name, [], texts, meta, diags=(), kwcalls=kwcalls)
        c["member"] = member
        yield c


def tiny_grammars(rng, max_nt=2, max_alts=3, max_len=3, terminals=("a", "b"), limit=None, inputs_len=5):
    """directed search: every grammar with <= max_nt non-terminals x <= max_alts alternatives x RHS <= max_len"""
    nts = ["E", "A"][:max_nt]
    syms = list(terminals) + nts
    rhss = [list(p) for n in range(max_len + 1) for p in itertools.product(syms, repeat=n)]
    var = dict(VARIANTS["plain"])
    count = 0
    while limit is None or count < limit:
        g = [[nt, [list(a) for a in rng.sample(rhss, rng.randint(1, max_alts))]] for nt in nts[:rng.randint(1, max_nt)]]
        spec = {"tok": [list(x) for x in var["tok"]], "syn": {}, "kw": [], "skip": None, "start": "E", "prods": g}
        rec = left_rec(user_grammar(spec)) if clean(spec) else True
        words = list(all_strings(list(terminals), 2 if rec else inputs_len))
        yield make_case(spec, "plain", words, [" ".join(w) for w in words], {"gen": "tiny"}, diags=())
        count += 1


# ------------------------------------------------------------------ shrinking

def _respec(case):
    """decode the case back into (spec, texts, diags)"""
    spec, _ = dec_g(case["lines"][0])
    spec["prods"] = source_prods(spec)
    texts, diags, seqs, ltexts, kwc = [], [], [], [], []
    lines = case["lines"][1:]
    i = 0
    while i < len(lines):
        l = lines[i]
        op = l.split()[0]
        if op == "g":
            break
        if op == "ps":
            seqs.append((l.split()[1], dec_p(l)))
            i += 1                      # the plain parse that follows belongs to the sequence
        elif op == "p":
            texts.append(dec_p(l))
        elif op == "pl":
            ltexts.append(dec_p(l))
        elif op == "px":
            st_, _, fl_ = p_info(l)
            kwc.append((fl_, st_, dec_p(l)))
        elif op in DIAG_OPS:
            diags.append(op)
        i += 1
    return spec, texts, diags, seqs, ltexts, kwc


def shrink(case):
    spec, texts, diags, seqs, ltexts, kwc = _respec(case)
    var_name = case["meta"].get("variant", "plain")

    def mk(spec2, texts2, diags2=diags, seqs2=None, ltexts2=(), kwc2=()):
        try:
            c = make_case(spec2, var_name, [], texts2, case["meta"], diags=tuple(diags2), lexmap=case["lexmap"],
                          seqs=seqs if seqs2 is None else seqs2, line_texts=ltexts2, kwcalls=kwc2)
        except AssertionError:
            return None
        if "member" in case:
            c["member"] = {t: v for t, v in case["member"].items()}
        return c
    out = []
    if ltexts or kwc:             # (the other candidates drop the list-of-lines and keyword-argument calls)
        out.append(mk(spec, texts, seqs2=[]))
        out.append(mk(spec, [], seqs2=[], ltexts2=ltexts))
        out.append(mk(spec, [], seqs2=[], kwc2=kwc))
        for q in kwc[:20]:
            out.append(mk(spec, [], seqs2=[], kwc2=[q]))
        for q in ltexts[:20]:
            out.append(mk(spec, [], seqs2=[], ltexts2=[q]))
    if diags:
        out.append(mk(spec, texts, []))
    if seqs:
        out.append(mk(spec, texts, seqs2=[]))
        if texts:
            out.append(mk(spec, [], seqs2=seqs))
        for q in seqs:
            out.append(mk(spec, [], seqs2=[q]))
    if len(texts) > 1:
        for t in texts:
            out.append(mk(spec, [t]))
        out.append(mk(spec, texts[:len(texts) // 2]))
        out.append(mk(spec, texts[len(texts) // 2:]))
    for i in range(len(spec["prods"])):
        if len(spec["prods"]) > 1 and spec["prods"][i][0] != spec["start"]:
            s2 = dict(spec)
            s2["prods"] = spec["prods"][:i] + spec["prods"][i + 1:]
            out.append(mk(s2, texts))
    def cp(prods):
        return [[s_, (dict(a) if isinstance(a, dict) else [x if not isinstance(x, list) else list(x) for x in a])]
                for s_, a in prods]
    for i, (sym, alts) in enumerate(spec["prods"]):
        if isinstance(alts, dict):
            continue
        for j in range(len(alts)):
            s2 = dict(spec)
            s2["prods"] = cp(spec["prods"])
            s2["prods"][i][1] = s2["prods"][i][1][:j] + s2["prods"][i][1][j + 1:]
            out.append(mk(s2, texts))
            if not isinstance(alts[j], list):
                continue
            for k in range(len(alts[j])):
                s3 = dict(spec)
                s3["prods"] = cp(spec["prods"])
                s3["prods"][i][1][j] = alts[j][:k] + alts[j][k + 1:]
                out.append(mk(s3, texts))
    for t in texts:
        if len(t) > 120:          # a long input: cut out blocks of lexemes (an even number, so that pairs stay pairs)
            ws = t.split(" ")
            for blk in (len(ws) // 2, len(ws) // 4, len(ws) // 8, 16, 4, 2):
                blk -= blk % 2
                if 2 <= blk < len(ws):
                    for st in sorted(set((0, (len(ws) - blk) // 2 - ((len(ws) - blk) // 2) % 2, len(ws) - blk - 1))):
                        t2 = " ".join(ws[:st] + ws[st + blk:])
                        if raw_lex(spec, t2) is not None:
                            out.append(mk(spec, [t2]))
        elif len(t) > 1:
            for k in range(len(t)):
                t2 = t[:k] + t[k + 1:]
                if raw_lex(spec, t2) is not None:
                    out.append(mk(spec, [t2]))
    for c in out:
        if c is not None:
            yield c


# ------------------------------------------------------------------ walking a case (several parser objects)

def walk(case, replies):
    """yields (op, line, reply, ctx): ctx = the context of the parser object the request goes to (None when there is
    none); a `g` request yields the context it creates (ctx["ok"] False when the constructor failed)"""
    slots, cur = [], None
    for line, rep in zip(case["lines"], replies):
        op = line.split()[0]
        if op == "g":
            spec, smart = dec_g(line)
            ctx = {"spec": spec, "smart": smart, "g": user_grammar(spec), "start": start_of(spec),
                   "seqs": set(spec.get("seq", ())), "ok": rep.startswith("ok"), "amb": rep}
            if ctx["ok"]:
                slots.append(ctx)
                cur = len(slots) - 1
            else:
                cur = None
            yield op, line, rep, ctx
        elif op == "use":
            k = int(line.split()[1])
            cur = k if k < len(slots) else None
            yield op, line, rep, None
        elif op == "reset":
            slots, cur = [], None
            yield op, line, rep, None
        else:
            yield op, line, rep, (slots[cur] if cur is not None else None)


def thread_check(spec, smart, texts, rounds=40):
    """two threads use ONE parser object at the same time; every call must give what the same call gives alone.
    Returns an error text or None."""
    import threading
    parser, rep = build(spec, smart)
    if parser is None:
        return None
    want = [parse_reply(parser, t) for t in texts]
    bad, lock = [], threading.Lock()

    def work(order):
        lb = LineBudget(3000000)
        sys.settrace(lb._global)
        try:
            for _ in range(rounds):
                for i in order:
                    try:
                        got = "tree " + show_tree(parser.parse(texts[i], do_cleanup=False))
                    except BudgetExceeded:
                        got = "err BudgetExceeded"
                    except Exception as e:
                        got = "err " + type(e).__name__
                    if got != want[i]:
                        with lock:
                            bad.append((texts[i], want[i], got))
                        return
        finally:
            sys.settrace(None)
    old = sys.getswitchinterval()
    sys.setswitchinterval(1e-6)
    try:
        idx = list(range(len(texts)))
        ths = [threading.Thread(target=work, args=(idx,)), threading.Thread(target=work, args=(idx[::-1],))]
        for t in ths:
            t.start()
        for t in ths:
            t.join()
    finally:
        sys.setswitchinterval(old)
    if bad:
        t, w, g_ = bad[0]
        return "two threads on one parser object: parse(%r) gives %s, alone it gives %s" % (t, g_[:60], w[:60])
    return None


# ------------------------------------------------------------------ tags shared by the three checks

def tags(case, replies):
    m = case.get("meta", {})
    yield "gen:" + m.get("gen", "?")
    yield "variant:" + m.get("variant", "?")
    if "ref" in m:
        yield "ref:" + m["ref"]
    if "nts" in m:
        yield "nts:%d" % m["nts"]
    if "start" in m:
        yield "start:" + m["start"]
    if "malformed" in m:
        yield "malformed:" + m["malformed"]
    for k in ("emptykey", "parsers", "skipkind", "threads", "anytoken", "repeated", "observers", "kwcalls", "shareditems",
              "seqax", "nodelim", "nobase", "cleanup"):
        if k in m:
            yield "%s:%s" % (k, m[k])
    for line, rep in zip(case["lines"], replies):
        op = line.split()[0]
        if op == "g":
            yield "ctor:" + rep.replace(" ", ":")
        elif op == "p":
            yield "parse:" + (rep.split()[0] if not rep.startswith("err") else rep.replace(" ", ":"))
        elif op == "ps":
            yield "parse-from:" + (rep.split()[0] if not rep.startswith("err") else rep.replace(" ", ":"))
        elif op == "pl":
            yield "parse-lines:" + (rep.split()[0] if not rep.startswith("err") else rep.replace(" ", ":"))
        elif op == "px":
            yield "parse-kwargs:%s:%s" % (line.split()[1], rep.split()[0] if not rep.startswith("err") else rep.replace(" ", ":"))
        elif op.startswith("obs"):
            yield "observer:" + op


def nontrivial(case, replies):
    trees = sum(1 for l, r in zip(case["lines"], replies) if l[:2] in ("p ", "pl") and r.startswith("tree"))
    errs = sum(1 for l, r in zip(case["lines"], replies) if l[:2] in ("p ", "pl") and r.startswith("err"))
    return trees > 0 and errs > 0


def observable(i, line):
    return line.split()[0] in ("g", "p", "pl", "ps", "px", "amb", "use", "reset") or line.startswith("obs")


C03_WITNESS = {"tok": [["SPACE", r"\s+"], ["X", "x"], ["Y", "y"], ["Z", "z"]], "syn": {}, "kw": [], "skip": None,
               "start": "E", "prods": [["E", [["A", "E", "X"], ["Y"]]], ["A", [["Z"], []]]]}


DUNDER_WITNESS = {"tok": [["SPACE", r"\s+"], ["a", "a"], ["b", "b"], ["c", "c"]], "syn": {}, "kw": [], "skip": None,
                  "start": "E", "prods": [["E", [["A", "b"], ["A", "c"], ["E__S00"]]], ["A", [["a"]]]]}


def dunder_witness_case():
    """before a1a7d93: accepted, and parse('b') returned E[b] - not a production of the user"""
    lines = []
    for smart in (True, False):
        lines.append(enc_g(DUNDER_WITNESS, smart))
        for t in ["b", "a b", "c", "a c", ""]:
            lines.append(enc_p(DUNDER_WITNESS, t))
        lines.append("amb")
    return {"lines": lines, "meta": {"gen": "corpus", "variant": "plain", "ref": "malformed"},
            "lexmap": {"a": "a", "b": "b", "c": "c"}}


FOLLOW_WITNESS = {"tok": [["SPACE", r"\s+"], ["a", "a"], ["b", "b"], ["c", "c"]], "syn": {}, "kw": [], "skip": None,
                  "start": "E", "prods": [["E", [["A", "B", "a"], ["b", "B", "c"]]], ["A", [["c"], []]], ["B", [[]]]]}


def follow_witness_case():
    """before 6b1a6af: LL(1) as written, but FOLLOW(A) also got FOLLOW(B) = {a, c} and is_ambiguous() was True"""
    lines = []
    for smart in (True, False):
        lines.append(enc_g(FOLLOW_WITNESS, smart))
        lines.extend(["nullables", "first", "follow", "table"])
        for t in ["a", "c a", "b c", "c", "", "b a", "c c a"]:
            lines.append(enc_p(FOLLOW_WITNESS, t))
        lines.append("amb")
    return {"lines": lines, "meta": {"gen": "corpus", "variant": "plain", "ref": "ok"},
            "lexmap": {"a": "a", "b": "b", "c": "c"}}


def witness_case():
    lines = []
    for smart in (True, False):
        lines.append(enc_g(C03_WITNESS, smart))
        for t in ["y", "z y x", "", "x"]:
            lines.append(enc_p(C03_WITNESS, t))
        lines.append("amb")
    return {"lines": lines, "meta": {"gen": "corpus", "variant": "xyz", "ref": "left-recursive"},
            "lexmap": {"x": "X", "y": "Y", "z": "Z"}}
