"""C16 — request ids are unique per connection under concurrent use (ak/conn_http.py).

translator : `dis` + symbolic stack evaluation of `_HttpConnImpl._generate_request_id` (one abstract
             instruction per bytecode instruction that raises an `opcode` trace event) and of the id
             branch of `do_request`  ->  lean/AkVerif/Gen/C16.lean
real code  : driven in-process; `urllib`'s opener is replaced by the repo's own tests/mock_http;
             `par` lines run real threads inside the real function under a forced schedule
             (sys.settrace + f_trace_opcodes, baton passing; a cooperative wrapper around the
             connection's real threading.Lock turns a blocked acquire into a no-op step)
oracle     : independent of the Lean model (see `oracle`)
"""
import dis
import os
import re
import string
import sys
import threading

from harness.core import enc_str, dec_str, LEAN, REPO

PROPERTY = "C16"
READY = False
PARALLEL = False           # threads + tracing: keep everything in one process
STATEFUL = True


class Refuse(Exception):
    """the source no longer has the shape the translator understands"""


# ====================================================================== translator
def _find_code(co, name):
    for c in co.co_consts:
        if hasattr(c, "co_code") and c.co_name == name:
            return c
    return None


def _load_codes(repo):
    path = os.path.join(repo, "ak", "conn_http.py")
    mod = compile(open(path).read(), path, "exec")
    cls = _find_code(mod, "_HttpConnImpl")
    if cls is None:
        raise Refuse("class _HttpConnImpl not found in ak/conn_http.py")
    gen = _find_code(cls, "_generate_request_id")
    if gen is None:
        raise Refuse("_HttpConnImpl._generate_request_id not found (id generation was moved or inlined)")
    req = _find_code(cls, "do_request")
    if req is None:
        raise Refuse("_HttpConnImpl.do_request not found")
    return path, gen, req


SELF = ("self",)
NULL = ("null",)


def _is_numexpr(v):
    """counter read, optionally reduced modulo a positive constant: (reg, modulus|None)"""
    if v[0] == "reg":
        return (v[1], None)
    if v[0] == "bin" and v[1] == "%" and v[2][0] == "reg" and v[3][0] == "const" \
            and isinstance(v[3][1], int) and not isinstance(v[3][1], bool) and v[3][1] > 0:
        return (v[2][1], v[3][1])
    return None


def _pieces_of(v, spec, what):
    """pieces rendered by format(v, spec)"""
    ne = _is_numexpr(v)
    if ne is not None:
        m = re.fullmatch(r"(?:0(\d+))?d?", spec)
        if not m:
            raise Refuse("number formatted with spec %r in %s (only '', 'd', '0<width>[d]' are understood)" % (spec, what))
        return [("num", ne[0], ne[1], int(m.group(1) or 0))]
    if spec != "":
        raise Refuse("format spec %r applied to a non-number in %s" % (spec, what))
    if v[0] == "str":
        return list(v[1])
    if v[0] == "attr" and v[1] == SELF:
        return [("conn", v[2])]
    if v[0] == "const" and isinstance(v[1], str):
        return [("lit", v[1])]
    raise Refuse("cannot tell what text %r contributes to the id in %s" % (v, what))


def _format_call(template, args, what):
    pieces, auto = [], 0
    try:
        parsed = list(string.Formatter().parse(template))
    except ValueError as e:
        raise Refuse("bad format template %r: %s" % (template, e))
    for lit, field, spec, conv in parsed:
        if lit:
            pieces.append(("lit", lit))
        if field is None:
            continue
        if conv is not None:
            raise Refuse("conversion !%s in format template %r" % (conv, template))
        if field == "":
            idx, auto = auto, auto + 1
        elif field.isdigit():
            idx = int(field)
        else:
            raise Refuse("named/attribute field %r in format template %r" % (field, template))
        if idx >= len(args):
            raise Refuse("format template %r needs more arguments than given" % template)
        if "{" in (spec or ""):
            raise Refuse("nested format spec in %r" % template)
        pieces.extend(_pieces_of(args[idx], spec or "", what))
    return ("str", pieces)


def _binop_name(arg):
    return dis._nb_ops[arg][1]


class _Machine:
    """symbolic evaluation of straight-line bytecode (CPython 3.12 opcode set, the part used here)"""

    def __init__(self, code, what):
        self.code, self.what = code, what
        self.ins = [i for i in dis.get_instructions(code)]
        self.at = {i.offset: n for n, i in enumerate(self.ins)}
        self.stack = []
        self.env = {}
        if code.co_argcount >= 1 and code.co_varnames[:1] == ("self",):
            self.env["self"] = SELF

    def pop(self):
        if not self.stack:
            raise Refuse("stack underflow while evaluating %s" % self.what)
        return self.stack.pop()

    def push(self, v):
        self.stack.append(v)

    def refuse(self, i, why):
        raise Refuse("%s: offset %d %s %s: %s" % (self.what, i.offset, i.opname, i.argrepr, why))


def _extract_program(gen):
    """-> dict(program=[(kind, a, b)], offsets=[...], counter=, lock=, conn=, pieces=[...], assumptions=[...])"""
    if sys.version_info[:2] != (3, 12):
        raise Refuse("the opcode table of the translator is the one of CPython 3.12, running %d.%d" % sys.version_info[:2])
    m = _Machine(gen, "_generate_request_id")
    stored = {i.argval for i in m.ins if i.opname == "STORE_ATTR"}
    if len(stored) != 1:
        raise Refuse("_generate_request_id stores to %d attributes (%s); exactly one (the counter) is expected"
                     % (len(stored), ", ".join(sorted(stored)) or "none"))
    counter = stored.pop()
    prog, offsets, assumptions = [], [], []
    lock = [None]
    nreg = [0]
    result = [None]

    def emit(i, kind, a=0, b=0):
        prog.append((kind, a, b))
        offsets.append(i.offset)

    def the_lock(i, v):
        if not (v[0] == "attr" and v[1] == SELF):
            m.refuse(i, "the lock is not an attribute of self")
        if lock[0] not in (None, v[2]):
            m.refuse(i, "a second lock (%s besides %s)" % (v[2], lock[0]))
        lock[0] = v[2]

    pc, steps = 0, 0
    while True:
        steps += 1
        if steps > 2000:
            raise Refuse("_generate_request_id: evaluation does not reach a return (loop?)")
        if pc >= len(m.ins):
            raise Refuse("_generate_request_id: fell off the end of the bytecode")
        i = m.ins[pc]
        op = i.opname
        nxt = pc + 1
        if op in ("RESUME", "CACHE"):
            pc = nxt            # no opcode event
            continue
        if op == "NOP":
            emit(i, "nop")
        elif op in ("LOAD_FAST", "LOAD_FAST_CHECK"):
            if i.argval not in m.env:
                m.refuse(i, "local read before it is assigned")
            m.push(m.env[i.argval])
            emit(i, "nop")
        elif op == "LOAD_CONST":
            if hasattr(i.argval, "co_code"):
                m.refuse(i, "nested code object")
            m.push(("const", i.argval))
            emit(i, "nop")
        elif op == "LOAD_GLOBAL":
            if i.arg & 1:
                m.push(NULL)
            m.push(("global", i.argval))
            emit(i, "nop")
        elif op == "PUSH_NULL":
            m.push(NULL)
            emit(i, "nop")
        elif op == "LOAD_ATTR":
            obj = m.pop()
            if obj == SELF and i.argval == counter:
                if i.arg & 1:
                    m.refuse(i, "method call on the counter")
                m.push(("reg", nreg[0]))
                emit(i, "rd", nreg[0])
                nreg[0] += 1
            elif i.arg & 1:
                m.push(("meth", obj, i.argval))
                m.push(("selfarg",))
                emit(i, "nop")
            else:
                m.push(("attr", obj, i.argval))
                emit(i, "nop")
        elif op == "STORE_FAST":
            m.env[i.argval] = m.pop()
            emit(i, "nop")
        elif op == "POP_TOP":
            m.pop()
            emit(i, "nop")
        elif op == "COPY":
            if i.arg > len(m.stack):
                m.refuse(i, "stack underflow")
            m.push(m.stack[-i.arg])
            emit(i, "nop")
        elif op == "SWAP":
            if i.arg > len(m.stack):
                m.refuse(i, "stack underflow")
            m.stack[-1], m.stack[-i.arg] = m.stack[-i.arg], m.stack[-1]
            emit(i, "nop")
        elif op == "BINARY_OP":
            b = m.pop()
            a = m.pop()
            name = _binop_name(i.arg)
            if name.endswith("=") and name not in ("==", "<=", ">=", "!="):
                name = name[:-1]
            m.push(("bin", name, a, b))
            emit(i, "nop")
        elif op == "STORE_ATTR":
            obj = m.pop()
            val = m.pop()
            if obj != SELF or i.argval != counter:
                m.refuse(i, "store to something else than self.%s" % counter)
            ok = None
            if val[0] == "bin" and val[1] == "+":
                for x, y in ((val[2], val[3]), (val[3], val[2])):
                    if x[0] == "reg" and y[0] == "const" and isinstance(y[1], int) \
                            and not isinstance(y[1], bool) and y[1] >= 0:
                        ok = (x[1], y[1])
            elif val[0] == "reg":
                ok = (val[1], 0)
            if ok is None:
                m.refuse(i, "the new counter value is not 'a counter read + constant' (%r)" % (val,))
            emit(i, "wr", ok[0], ok[1])
        elif op == "BEFORE_WITH":
            mgr = m.pop()
            the_lock(i, mgr)
            m.push(("exit", mgr))
            m.push(("enterres",))
            emit(i, "acq")
        elif op == "CALL":
            args = [m.pop() for _ in range(i.arg)][::-1]
            a = m.pop()
            b = m.pop()
            fn = a if b == NULL else b
            if b != NULL and a != ("selfarg",):
                args = [a] + args          # [callable, first argument, rest]
            if fn[0] == "exit":
                if [x for x in args if x != ("const", None)] or len(args) != 3:
                    m.refuse(i, "__exit__ called with an exception")
                m.push(("callres",))
                emit(i, "rel")
            elif fn[0] == "meth" and fn[2] in ("acquire", "release") and fn[1][0] == "attr" and fn[1][1] == SELF:
                if args:
                    m.refuse(i, "%s() with arguments (non-blocking / timed acquire)" % fn[2])
                the_lock(i, fn[1])
                m.push(("callres",))
                emit(i, "acq" if fn[2] == "acquire" else "rel")
            elif fn[0] == "meth" and fn[2] == "format" and fn[1][0] == "const" and isinstance(fn[1][1], str):
                m.push(_format_call(fn[1][1], args, "_generate_request_id"))
                emit(i, "nop")
            elif fn == ("global", "str") and len(args) == 1:
                m.push(("str", _pieces_of(args[0], "", "_generate_request_id")))
                emit(i, "nop")
            else:
                m.refuse(i, "call of %r is not understood" % (fn,))
        elif op == "FORMAT_VALUE":
            spec = ""
            if i.arg & 0x04:
                sv = m.pop()
                if sv[0] == "const" and isinstance(sv[1], str):
                    spec = sv[1]
                elif sv[0] == "str" and all(p[0] == "lit" for p in sv[1]):
                    spec = "".join(p[1] for p in sv[1])
                else:
                    m.refuse(i, "computed format spec")
            if i.arg & 0x03:
                m.refuse(i, "conversion in f-string")
            m.push(("str", _pieces_of(m.pop(), spec, "_generate_request_id")))
            emit(i, "nop")
        elif op == "BUILD_STRING":
            parts = [m.pop() for _ in range(i.arg)][::-1]
            pcs = []
            for x in parts:
                pcs.extend(_pieces_of(x, "", "_generate_request_id"))
            m.push(("str", pcs))
            emit(i, "nop")
        elif op in ("POP_JUMP_IF_NONE", "POP_JUMP_IF_NOT_NONE"):
            v = m.pop()
            if _is_numexpr(v) is not None:
                is_none = False
                a = "the counter is a number whenever _generate_request_id is called (do_request tests it)"
                if a not in assumptions:
                    assumptions.append(a)
            elif v == ("const", None):
                is_none = True
            else:
                m.refuse(i, "cannot decide whether %r is None" % (v,))
            emit(i, "nop")
            if is_none == (op == "POP_JUMP_IF_NONE"):
                nxt = m.at[i.argval]
        elif op in ("JUMP_FORWARD", "JUMP_BACKWARD", "JUMP_BACKWARD_NO_INTERRUPT"):
            emit(i, "nop")
            nxt = m.at[i.argval]
        elif op == "RETURN_VALUE":
            v = m.pop()
            if v[0] != "str":
                m.refuse(i, "the returned value is not a formatted string (%r)" % (v,))
            regs = {p[1] for p in v[1] if p[0] == "num"}
            if len(regs) != 1:
                m.refuse(i, "the returned id is built from %d different counter reads" % len(regs))
            conns = {p[1] for p in v[1] if p[0] == "conn"}
            if len(conns) > 1:
                m.refuse(i, "several connection attributes in the id")
            emit(i, "ret", regs.pop())
            result[0] = (v[1], conns.pop() if conns else None)
            break
        else:
            m.refuse(i, "opcode not understood by the translator")
        pc = nxt
    pieces, conn = result[0]
    # merge adjacent literals
    merged = []
    for p in pieces:
        if p[0] == "lit" and merged and merged[-1][0] == "lit":
            merged[-1] = ("lit", merged[-1][1] + p[1])
        elif p[0] == "lit":
            merged.append(p)
        elif p[0] == "conn":
            merged.append(("conn",))
        else:
            merged.append(("num", p[2], p[3]))
    for p in merged:
        if p[0] == "lit" and not all(32 <= ord(c) < 127 and c not in '"\\' for c in p[1]):
            raise Refuse("non-printable literal in the id format")
    return {"program": prog, "offsets": offsets, "counter": counter, "lock": lock[0], "conn": conn,
            "pieces": merged, "assumptions": assumptions}


def _genexpr_test(code, what):
    """`(h.lower() == 'lit' for h in <iter>)` -> 'lit'"""
    ins = [i for i in dis.get_instructions(code) if i.opname not in ("RESUME", "CACHE")]
    names = [i.opname for i in ins]
    try:
        k = names.index("FOR_ITER")
        y = names.index("YIELD_VALUE")
    except ValueError:
        raise Refuse("%s: generator expression without a loop/yield" % what)
    body = ins[k + 1:y]
    st, var = [], None
    for i in body:
        if i.opname == "STORE_FAST" and var is None and not st:
            var = i.argval
        elif i.opname == "LOAD_FAST":
            st.append(("var", i.argval))
        elif i.opname == "LOAD_CONST":
            st.append(("const", i.argval))
        elif i.opname == "LOAD_ATTR" and i.arg & 1:
            st.append(("meth", st.pop(), i.argval))
        elif i.opname == "CALL" and i.arg == 0 and st and st[-1][0] == "meth":
            st.append(("call",) + st.pop()[1:])
        elif i.opname == "COMPARE_OP" and i.argrepr == "==":
            b, a = st.pop(), st.pop()
            st.append(("eq", a, b))
        else:
            raise Refuse("%s: generator expression does something else than comparing a lowered name (%s)" % (what, i.opname))
    if len(st) != 1 or st[0][0] != "eq":
        raise Refuse("%s: generator expression does not yield a comparison" % what)
    for a, b in ((st[0][1], st[0][2]), (st[0][2], st[0][1])):
        if a == ("call", ("var", var), "lower") and b[0] == "const" and isinstance(b[1], str):
            return b[1]
    raise Refuse("%s: the yielded comparison is not '<name>.lower() == <literal>'" % what)


def _extract_branch(req, counter):
    """id branch of do_request -> dict(test=('lowerEq'|'exact', s), name=header name)"""
    what = "do_request"
    m = _Machine(req, what)
    ins = m.ins
    calls = [n for n, i in enumerate(ins) if i.opname == "LOAD_ATTR" and i.argval == "_generate_request_id"]
    if len(calls) != 1:
        raise Refuse("do_request refers to _generate_request_id %d times (once expected)" % len(calls))
    c = calls[0]
    cond = ("POP_JUMP_IF_TRUE", "POP_JUMP_IF_FALSE", "POP_JUMP_IF_NONE", "POP_JUMP_IF_NOT_NONE")
    # the conditional jump guarding the call, and all earlier guards with the same target
    n = c - 1
    while n >= 0 and ins[n].opname not in cond:
        if ins[n].opname.startswith("STORE_") or ins[n].opname.startswith("JUMP") or ins[n].opname.startswith("RETURN"):
            raise Refuse("do_request: the call of _generate_request_id is not guarded by a test")
        n -= 1
    if n < 0:
        raise Refuse("do_request: the call of _generate_request_id is not guarded by a test")
    skip = ins[n].argval
    first = n
    k = n - 1
    while k >= 0:
        o = ins[k].opname
        if o in cond:
            if ins[k].argval != skip:
                break
            first = k
        elif o.startswith("JUMP") or o.startswith("RETURN") or o in ("RERAISE", "RAISE_VARARGS", "FOR_ITER", "END_FOR") \
                or o.startswith("STORE_"):
            break
        k -= 1
    start = first
    while start > k + 1 and ins[start].starts_line is None:
        start -= 1
    # the first guard's expression begins at the last line start at or before it
    s2 = first
    while s2 > k + 1 and ins[s2].starts_line is None:
        s2 -= 1
    start = s2
    for name in req.co_varnames[:req.co_argcount]:
        m.env[name] = ("local", name)
    m.env["self"] = SELF
    for name in req.co_varnames:
        m.env.setdefault(name, ("local", name))
    guards = []
    pc = start
    stored = None
    while True:
        if pc >= len(ins):
            raise Refuse("do_request: fell off the end while evaluating the id branch")
        i = ins[pc]
        op = i.opname
        if op in ("LOAD_FAST", "LOAD_FAST_CHECK"):
            m.push(m.env[i.argval])
        elif op == "LOAD_CONST":
            m.push(("const", i.argval))
        elif op == "LOAD_GLOBAL":
            if i.arg & 1:
                m.push(NULL)
            m.push(("global", i.argval))
        elif op == "LOAD_ATTR":
            obj = m.pop()
            if i.arg & 1:
                m.push(("meth", obj, i.argval))
                m.push(("selfarg",))
            else:
                m.push(("attr", obj, i.argval))
        elif op == "MAKE_FUNCTION":
            if i.arg:
                m.refuse(i, "closure / defaults in the id test")
            m.push(("func", m.pop()))
        elif op == "GET_ITER":
            m.push(("iter", m.pop()))
        elif op == "CALL":
            args = [m.pop() for _ in range(i.arg)][::-1]
            a = m.pop()
            b = m.pop()
            fn = a if b == NULL else b
            if b != NULL and a != ("selfarg",):
                args = [a] + args          # [callable, first argument, rest]
            m.push(("call", fn, tuple(args)))
        elif op == "CONTAINS_OP":
            b = m.pop()
            a = m.pop()
            m.push(("notin" if i.arg else "in", a, b))
        elif op == "UNARY_NOT":
            v = m.pop()
            if v[0] in ("in", "notin"):
                m.push(("in" if v[0] == "notin" else "notin", v[1], v[2]))
            else:
                m.push(("not", v))
        elif op == "IS_OP":
            b = m.pop()
            a = m.pop()
            m.push(("isnot" if i.arg else "is", a, b))
        elif op in cond:
            if i.argval != skip:
                m.refuse(i, "a test of the id branch jumps somewhere else")
            v = m.pop()
            # normalise to "the id is generated only if <fact>"
            if op == "POP_JUMP_IF_NONE":
                guards.append(("notnone", v))
            elif op == "POP_JUMP_IF_FALSE" and v[0] == "isnot" and v[2] == ("const", None):
                guards.append(("notnone", v[1]))
            elif op == "POP_JUMP_IF_TRUE" and v[0] == "is" and v[2] == ("const", None):
                guards.append(("notnone", v[1]))
            elif op == "POP_JUMP_IF_TRUE":
                guards.append(("false", v))
            elif op == "POP_JUMP_IF_FALSE":
                guards.append(("true", v))
            else:
                m.refuse(i, "test not understood")
        elif op == "STORE_SUBSCR":
            key = m.pop()
            cont = m.pop()
            val = m.pop()
            stored = (cont, key, val)
            break
        else:
            m.refuse(i, "opcode not understood in the id branch")
        pc += 1
    cont, key, val = stored
    if val != ("call", ("meth", SELF, "_generate_request_id"), ()):
        raise Refuse("do_request: what is stored into the headers is not the result of self._generate_request_id()")
    if key[0] != "const" or not isinstance(key[1], str) or cont[0] != "local":
        raise Refuse("do_request: the id is not stored as <headers local>[<literal>]")
    if m.stack:
        raise Refuse("do_request: unbalanced stack after the id branch")
    enabled = [g for g in guards if g[0] == "notnone"]
    others = [g for g in guards if g[0] != "notnone"]
    if len(enabled) != 1 or enabled[0][1] != ("attr", SELF, counter):
        raise Refuse("do_request: no single 'self.%s is not None' guard in front of the id generation" % counter)
    if len(others) != 1:
        raise Refuse("do_request: %d tests for a caller-supplied id (one expected)" % len(others))
    kind, v = others[0]
    test = None
    if kind == "false" and v[0] == "call" and v[1] == ("global", "any") and len(v[2]) == 1:
        a = v[2][0]
        if a[0] == "call" and a[1][0] == "func" and a[1][1][0] == "const" and hasattr(a[1][1][1], "co_code") \
                and a[2] == (("iter", cont),):
            test = ("lowerEq", _genexpr_test(a[1][1][1], what))
    elif (kind == "true" and v[0] == "notin" or kind == "false" and v[0] == "in") \
            and v[1][0] == "const" and isinstance(v[1][1], str) and v[2] == cont:
        test = ("exact", v[1][1])
    if test is None:
        raise Refuse("do_request: the test for a caller-supplied id is not understood (%r)" % (v,))
    for s in (test[1], key[1]):
        if not all(32 < ord(ch) < 127 and ch not in '"\\' for ch in s):
            raise Refuse("do_request: non-printable header name literal")
    return {"test": test, "name": key[1], "headers_local": cont[1]}


_ANALYSIS = {}


def analyse(repo):
    """static analysis of the two functions (cached per source text)"""
    path, gen, req = _load_codes(repo)
    key = (path, os.path.getmtime(path), os.path.getsize(path))
    if key not in _ANALYSIS:
        a = _extract_program(gen)
        a.update(_extract_branch(req, a["counter"]))
        a["path"] = path
        _ANALYSIS[key] = a
    return _ANALYSIS[key]


def _lean_instr(t):
    kind, a, b = t
    return {"acq": ".acq", "rel": ".rel", "nop": ".nop"}.get(kind) or \
        (".rd %d" % a if kind == "rd" else ".wr %d %d" % (a, b) if kind == "wr" else ".ret %d" % a)


def _lean_piece(p):
    if p[0] == "conn":
        return ".conn"
    if p[0] == "lit":
        return '.lit "%s".toList' % p[1]
    return ".num %s %d" % ("none" if p[1] is None else "(some %d)" % p[1], p[2])


def translate(repo):
    a = analyse(repo)
    _crosscheck_trace(a)
    body = ["-- GENERATED by harness/c16.py:translate from ak/conn_http.py -- do not edit",
            "import AkVerif.Model.Interleave",
            "namespace Gen.C16",
            "open Interleave",
            "/-- `_HttpConnImpl._generate_request_id`, one instruction per bytecode instruction with an",
            "`opcode` trace event (offsets %s);" % ",".join(str(o) for o in a["offsets"]),
            "counter = self.%s, lock = self.%s -/" % (a["counter"], a["lock"]),
            "def reqIdProgram : List Instr := [" + ", ".join(_lean_instr(t) for t in a["program"]) + "]",
            "/-- the returned string -/",
            "def idFormat : List Piece := [" + ", ".join(_lean_piece(p) for p in a["pieces"]) + "]",
            "/-- `do_request`: the id is generated unless the counter is None or some header name passes this test -/",
            "def hdrTest : HdrTest := .%s \"%s\".toList" % a["test"],
            "/-- … and is stored under this name -/",
            "def hdrName : List Char := \"%s\".toList" % a["name"],
            "def cfg : Cfg := { prog := reqIdProgram, fmt := idFormat, test := hdrTest, name := hdrName }",
            "end Gen.C16", ""]
    return {"AkVerif/Gen/C16.lean": "\n".join(body)}


def _crosscheck_trace(a):
    pass
