"""C16 — request ids are unique per connection under concurrent use (ak/conn_http.py).

translator : `dis` + symbolic stack evaluation of `_HttpConnImpl._generate_request_id` (one abstract
             instruction per bytecode instruction that raises an `opcode` trace event) and of the id
             branch of `do_request`  ->  lean/AkVerif/Gen/C16.lean
real code  : driven in-process; `urllib`'s opener is replaced by the repo's own tests/mock_http;
             `par` lines run real threads inside the real function under a forced schedule
             (sys.settrace + f_trace_opcodes, baton passing; a cooperative wrapper around the
             connection's real threading.Lock turns a blocked acquire into a no-op step)
oracle     : independent of the Lean model (see `oracle`)
"""
import dis
import os
import re
import string
import sys
import threading

from harness.core import enc_str, dec_str, LEAN, REPO

PROPERTY = "C16"
READY = True
PARALLEL = False           # threads + tracing: keep everything in one process
STATEFUL = True


class Refuse(Exception):
    """the source no longer has the shape the translator understands"""


# ====================================================================== translator
def _find_code(co, name):
    for c in co.co_consts:
        if hasattr(c, "co_code") and c.co_name == name:
            return c
    return None


def _load_codes(repo):
    path = os.path.join(repo, "ak", "conn_http.py")
    mod = compile(open(path).read(), path, "exec")
    _load_codes.mod = mod
    cls = _find_code(mod, "_HttpConnImpl")
    if cls is None:
        raise Refuse("class _HttpConnImpl not found in ak/conn_http.py")
    gen = _find_code(cls, "_generate_request_id")
    if gen is None:
        raise Refuse("_HttpConnImpl._generate_request_id not found (id generation was moved or inlined)")
    req = _find_code(cls, "do_request")
    if req is None:
        raise Refuse("_HttpConnImpl.do_request not found")
    return path, gen, req


SELF = ("self",)
NULL = ("null",)


def _is_numexpr(v):
    """counter read, optionally reduced modulo a positive constant: (reg, modulus|None)"""
    if v[0] == "reg":
        return (v[1], None)
    if v[0] == "bin" and v[1] == "%" and v[2][0] == "reg" and v[3][0] == "const" \
            and isinstance(v[3][1], int) and not isinstance(v[3][1], bool) and v[3][1] > 0:
        return (v[2][1], v[3][1])
    return None


def _pieces_of(v, spec, what):
    """pieces rendered by format(v, spec)"""
    ne = _is_numexpr(v)
    if ne is not None:
        m = re.fullmatch(r"(?:0(\d+))?d?", spec)
        if not m:
            raise Refuse("number formatted with spec %r in %s (only '', 'd', '0<width>[d]' are understood)" % (spec, what))
        return [("num", ne[0], ne[1], int(m.group(1) or 0))]
    if spec != "":
        raise Refuse("format spec %r applied to a non-number in %s" % (spec, what))
    if v[0] == "str":
        return list(v[1])
    if v[0] == "attr" and v[1] == SELF:
        return [("conn", v[2])]
    if v[0] == "const" and isinstance(v[1], str):
        return [("lit", v[1])]
    raise Refuse("cannot tell what text %r contributes to the id in %s" % (v, what))


def _format_call(template, args, what):
    pieces, auto = [], 0
    try:
        parsed = list(string.Formatter().parse(template))
    except ValueError as e:
        raise Refuse("bad format template %r: %s" % (template, e))
    for lit, field, spec, conv in parsed:
        if lit:
            pieces.append(("lit", lit))
        if field is None:
            continue
        if conv is not None:
            raise Refuse("conversion !%s in format template %r" % (conv, template))
        if field == "":
            idx, auto = auto, auto + 1
        elif field.isdigit():
            idx = int(field)
        else:
            raise Refuse("named/attribute field %r in format template %r" % (field, template))
        if idx >= len(args):
            raise Refuse("format template %r needs more arguments than given" % template)
        if "{" in (spec or ""):
            raise Refuse("nested format spec in %r" % template)
        pieces.extend(_pieces_of(args[idx], spec or "", what))
    return ("str", pieces)


def _binop_name(arg):
    return dis._nb_ops[arg][1]


class _Machine:
    """symbolic evaluation of straight-line bytecode (CPython 3.12 opcode set, the part used here)"""

    def __init__(self, code, what):
        self.code, self.what = code, what
        self.ins = [i for i in dis.get_instructions(code)]
        self.at = {i.offset: n for n, i in enumerate(self.ins)}
        self.stack = []
        self.env = {}
        if code.co_argcount >= 1 and code.co_varnames[:1] == ("self",):
            self.env["self"] = SELF

    def pop(self):
        if not self.stack:
            raise Refuse("stack underflow while evaluating %s" % self.what)
        return self.stack.pop()

    def push(self, v):
        self.stack.append(v)

    def refuse(self, i, why):
        raise Refuse("%s: offset %d %s %s: %s" % (self.what, i.offset, i.opname, i.argrepr, why))


def _extract_program(gen):
    """-> dict(program=[(kind, a, b)], offsets=[...], counter=, lock=, conn=, pieces=[...], assumptions=[...])"""
    if sys.version_info[:2] != (3, 12):
        raise Refuse("the opcode table of the translator is the one of CPython 3.12, running %d.%d" % sys.version_info[:2])
    m = _Machine(gen, "_generate_request_id")
    stored = {i.argval for i in m.ins if i.opname == "STORE_ATTR"}
    if len(stored) != 1:
        raise Refuse("_generate_request_id stores to %d attributes (%s); exactly one (the counter) is expected"
                     % (len(stored), ", ".join(sorted(stored)) or "none"))
    counter = stored.pop()
    prog, offsets, assumptions = [], [], []
    lock = [None]
    nreg = [0]
    result = [None]

    def emit(i, kind, a=0, b=0):
        prog.append((kind, a, b))
        offsets.append(i.offset)

    def the_lock(i, v):
        if not (v[0] == "attr" and v[1] == SELF):
            m.refuse(i, "the lock is not an attribute of self")
        if lock[0] not in (None, v[2]):
            m.refuse(i, "a second lock (%s besides %s)" % (v[2], lock[0]))
        lock[0] = v[2]

    pc, steps = 0, 0
    while True:
        steps += 1
        if steps > 2000:
            raise Refuse("_generate_request_id: evaluation does not reach a return (loop?)")
        if pc >= len(m.ins):
            raise Refuse("_generate_request_id: fell off the end of the bytecode")
        i = m.ins[pc]
        op = i.opname
        nxt = pc + 1
        if op in ("RESUME", "CACHE"):
            pc = nxt            # no opcode event
            continue
        if op == "NOP":
            emit(i, "nop")
        elif op in ("LOAD_FAST", "LOAD_FAST_CHECK"):
            if i.argval not in m.env:
                m.refuse(i, "local read before it is assigned")
            m.push(m.env[i.argval])
            emit(i, "nop")
        elif op == "LOAD_CONST":
            if hasattr(i.argval, "co_code"):
                m.refuse(i, "nested code object")
            m.push(("const", i.argval))
            emit(i, "nop")
        elif op == "LOAD_GLOBAL":
            if i.arg & 1:
                m.push(NULL)
            m.push(("global", i.argval))
            emit(i, "nop")
        elif op == "PUSH_NULL":
            m.push(NULL)
            emit(i, "nop")
        elif op == "LOAD_ATTR":
            obj = m.pop()
            if obj == SELF and i.argval == counter:
                if i.arg & 1:
                    m.refuse(i, "method call on the counter")
                m.push(("reg", nreg[0]))
                emit(i, "rd", nreg[0])
                nreg[0] += 1
            elif i.arg & 1:
                m.push(("meth", obj, i.argval))
                m.push(("selfarg",))
                emit(i, "nop")
            else:
                m.push(("attr", obj, i.argval))
                emit(i, "nop")
        elif op == "STORE_FAST":
            m.env[i.argval] = m.pop()
            emit(i, "nop")
        elif op == "POP_TOP":
            m.pop()
            emit(i, "nop")
        elif op == "COPY":
            if i.arg > len(m.stack):
                m.refuse(i, "stack underflow")
            m.push(m.stack[-i.arg])
            emit(i, "nop")
        elif op == "SWAP":
            if i.arg > len(m.stack):
                m.refuse(i, "stack underflow")
            m.stack[-1], m.stack[-i.arg] = m.stack[-i.arg], m.stack[-1]
            emit(i, "nop")
        elif op == "BINARY_OP":
            b = m.pop()
            a = m.pop()
            name = _binop_name(i.arg)
            if name.endswith("=") and name not in ("==", "<=", ">=", "!="):
                name = name[:-1]
            m.push(("bin", name, a, b))
            emit(i, "nop")
        elif op == "STORE_ATTR":
            obj = m.pop()
            val = m.pop()
            if obj != SELF or i.argval != counter:
                m.refuse(i, "store to something else than self.%s" % counter)
            ok = None
            if val[0] == "bin" and val[1] == "+":
                for x, y in ((val[2], val[3]), (val[3], val[2])):
                    if x[0] == "reg" and y[0] == "const" and isinstance(y[1], int) \
                            and not isinstance(y[1], bool) and y[1] >= 0:
                        ok = (x[1], y[1])
            elif val[0] == "reg":
                ok = (val[1], 0)
            if ok is None:
                m.refuse(i, "the new counter value is not 'a counter read + constant' (%r)" % (val,))
            emit(i, "wr", ok[0], ok[1])
        elif op == "BEFORE_WITH":
            mgr = m.pop()
            the_lock(i, mgr)
            m.push(("exit", mgr))
            m.push(("enterres",))
            emit(i, "acq")
        elif op == "CALL":
            args = [m.pop() for _ in range(i.arg)][::-1]
            a = m.pop()
            b = m.pop()
            fn = a if b == NULL else b
            if b != NULL and a != ("selfarg",):
                args = [a] + args          # [callable, first argument, rest]
            if fn[0] == "exit":
                if [x for x in args if x != ("const", None)] or len(args) != 3:
                    m.refuse(i, "__exit__ called with an exception")
                m.push(("callres",))
                emit(i, "rel")
            elif fn[0] == "meth" and fn[2] in ("acquire", "release") and fn[1][0] == "attr" and fn[1][1] == SELF:
                if args:
                    m.refuse(i, "%s() with arguments (non-blocking / timed acquire)" % fn[2])
                the_lock(i, fn[1])
                m.push(("callres",))
                emit(i, "acq" if fn[2] == "acquire" else "rel")
            elif fn[0] == "meth" and fn[2] == "format" and fn[1][0] == "const" and isinstance(fn[1][1], str):
                m.push(_format_call(fn[1][1], args, "_generate_request_id"))
                emit(i, "nop")
            elif fn == ("global", "str") and len(args) == 1:
                m.push(("str", _pieces_of(args[0], "", "_generate_request_id")))
                emit(i, "nop")
            else:
                m.refuse(i, "call of %r is not understood" % (fn,))
        elif op == "FORMAT_VALUE":
            spec = ""
            if i.arg & 0x04:
                sv = m.pop()
                if sv[0] == "const" and isinstance(sv[1], str):
                    spec = sv[1]
                elif sv[0] == "str" and all(p[0] == "lit" for p in sv[1]):
                    spec = "".join(p[1] for p in sv[1])
                else:
                    m.refuse(i, "computed format spec")
            if i.arg & 0x03:
                m.refuse(i, "conversion in f-string")
            m.push(("str", _pieces_of(m.pop(), spec, "_generate_request_id")))
            emit(i, "nop")
        elif op == "BUILD_STRING":
            parts = [m.pop() for _ in range(i.arg)][::-1]
            pcs = []
            for x in parts:
                pcs.extend(_pieces_of(x, "", "_generate_request_id"))
            m.push(("str", pcs))
            emit(i, "nop")
        elif op in ("POP_JUMP_IF_NONE", "POP_JUMP_IF_NOT_NONE"):
            v = m.pop()
            if _is_numexpr(v) is not None:
                is_none = False
                a = "the counter is a number whenever _generate_request_id is called (do_request tests it)"
                if a not in assumptions:
                    assumptions.append(a)
            elif v == ("const", None):
                is_none = True
            else:
                m.refuse(i, "cannot decide whether %r is None" % (v,))
            emit(i, "nop")
            if is_none == (op == "POP_JUMP_IF_NONE"):
                nxt = m.at[i.argval]
        elif op in ("JUMP_FORWARD", "JUMP_BACKWARD", "JUMP_BACKWARD_NO_INTERRUPT"):
            emit(i, "nop")
            nxt = m.at[i.argval]
        elif op == "RETURN_VALUE":
            v = m.pop()
            if v[0] != "str":
                m.refuse(i, "the returned value is not a formatted string (%r)" % (v,))
            regs = {p[1] for p in v[1] if p[0] == "num"}
            if len(regs) != 1:
                m.refuse(i, "the returned id is built from %d different counter reads" % len(regs))
            conns = {p[1] for p in v[1] if p[0] == "conn"}
            if len(conns) > 1:
                m.refuse(i, "several connection attributes in the id")
            emit(i, "ret", regs.pop())
            result[0] = (v[1], conns.pop() if conns else None)
            break
        else:
            m.refuse(i, "opcode not understood by the translator")
        pc = nxt
    pieces, conn = result[0]
    # merge adjacent literals
    merged = []
    for p in pieces:
        if p[0] == "lit" and merged and merged[-1][0] == "lit":
            merged[-1] = ("lit", merged[-1][1] + p[1])
        elif p[0] == "lit":
            merged.append(p)
        elif p[0] == "conn":
            merged.append(("conn",))
        else:
            merged.append(("num", p[2], p[3]))
    for p in merged:
        if p[0] == "lit" and not all(32 <= ord(c) < 127 and c not in '"\\' for c in p[1]):
            raise Refuse("non-printable literal in the id format")
    return {"program": prog, "offsets": offsets, "counter": counter, "lock": lock[0], "conn": conn,
            "pieces": merged, "assumptions": assumptions}


def _genexpr_yield(code, what):
    """what `(<expr> for h in <iter>)` yields: ('eq-lower', 'lit') for h.lower() == 'lit', ('lower',) for h.lower()"""
    ins = [i for i in dis.get_instructions(code) if i.opname not in ("RESUME", "CACHE")]
    names = [i.opname for i in ins]
    try:
        k = names.index("FOR_ITER")
        y = names.index("YIELD_VALUE")
    except ValueError:
        raise Refuse("%s: generator expression without a loop/yield" % what)
    body = ins[k + 1:y]
    st, var = [], None
    for i in body:
        if i.opname == "STORE_FAST" and var is None and not st:
            var = i.argval
        elif i.opname == "LOAD_FAST":
            st.append(("var", i.argval))
        elif i.opname == "LOAD_CONST":
            st.append(("const", i.argval))
        elif i.opname == "LOAD_ATTR" and i.arg & 1 and st:
            st.append(("meth", st.pop(), i.argval))
        elif i.opname == "CALL" and i.arg == 0 and st and st[-1][0] == "meth":
            st.append(("call",) + st.pop()[1:])
        elif i.opname == "COMPARE_OP" and i.argrepr == "==" and len(st) >= 2:
            b, a = st.pop(), st.pop()
            st.append(("eq", a, b))
        else:
            raise Refuse("%s: generator expression does something else than lowering / comparing a name (%s)" % (what, i.opname))
    if len(st) != 1:
        raise Refuse("%s: generator expression does not yield one value" % what)
    lowered = ("call", ("var", var), "lower")
    if st[0] == lowered:
        return ("lower",)
    if st[0][0] == "eq":
        for a, b in ((st[0][1], st[0][2]), (st[0][2], st[0][1])):
            if a == lowered and b[0] == "const" and isinstance(b[1], str):
                return ("eq-lower", b[1])
    raise Refuse("%s: the generator expression yields neither '<name>.lower()' nor '<name>.lower() == <literal>'" % what)


def _is_genexpr_over(v, cont):
    """v = (<genexpr>)(iter(cont)) -> its code object"""
    if v[0] == "call" and v[1][0] == "func" and v[1][1][0] == "const" and hasattr(v[1][1][1], "co_code") \
            and v[2] == (("iter", cont),):
        return v[1][1][1]
    return None


def _extract_branch(req, counter):
    """id branch of do_request -> dict(test=('lowerEq'|'exact', s), name=header name)"""
    what = "do_request"
    m = _Machine(req, what)
    ins = m.ins
    calls = [n for n, i in enumerate(ins) if i.opname == "LOAD_ATTR" and i.argval == "_generate_request_id"]
    if len(calls) != 1:
        raise Refuse("do_request refers to _generate_request_id %d times (once expected)" % len(calls))
    c = calls[0]
    cond = ("POP_JUMP_IF_TRUE", "POP_JUMP_IF_FALSE", "POP_JUMP_IF_NONE", "POP_JUMP_IF_NOT_NONE")
    # the conditional jump guarding the call, and all earlier guards with the same target
    n = c - 1
    while n >= 0 and ins[n].opname not in cond:
        if ins[n].opname.startswith("STORE_") or ins[n].opname.startswith("JUMP") or ins[n].opname.startswith("RETURN"):
            raise Refuse("do_request: the call of _generate_request_id is not guarded by a test")
        n -= 1
    if n < 0:
        raise Refuse("do_request: the call of _generate_request_id is not guarded by a test")
    skip = ins[n].argval
    first = n
    k = n - 1
    while k >= 0:
        o = ins[k].opname
        if o in cond:
            if ins[k].argval != skip:
                break
            first = k
        elif o.startswith("JUMP") or o.startswith("RETURN") or o in ("RERAISE", "RAISE_VARARGS", "FOR_ITER", "END_FOR") \
                or o.startswith("STORE_"):
            break
        k -= 1
    # the first guard's expression begins at the last line start at or before it
    start = first
    while start > k + 1 and ins[start].starts_line is None:
        start -= 1
    for name in req.co_varnames[:req.co_argcount]:
        m.env[name] = ("local", name)
    m.env["self"] = SELF
    for name in req.co_varnames:
        m.env.setdefault(name, ("local", name))
    guards = []
    pc = start
    stored = None
    while True:
        if pc >= len(ins):
            raise Refuse("do_request: fell off the end while evaluating the id branch")
        i = ins[pc]
        op = i.opname
        if op in ("LOAD_FAST", "LOAD_FAST_CHECK"):
            if i.argval not in m.env:
                m.refuse(i, "unknown local")
            m.push(m.env[i.argval])
        elif op == "LOAD_CONST":
            m.push(("const", i.argval))
        elif op == "LOAD_GLOBAL":
            if i.arg & 1:
                m.push(NULL)
            m.push(("global", i.argval))
        elif op == "LOAD_ATTR":
            obj = m.pop()
            if i.arg & 1:
                m.push(("meth", obj, i.argval))
                m.push(("selfarg",))
            else:
                m.push(("attr", obj, i.argval))
        elif op == "MAKE_FUNCTION":
            if i.arg:
                m.refuse(i, "closure / defaults in the id test")
            m.push(("func", m.pop()))
        elif op == "GET_ITER":
            m.push(("iter", m.pop()))
        elif op == "CALL":
            args = [m.pop() for _ in range(i.arg)][::-1]
            a = m.pop()
            b = m.pop()
            fn = a if b == NULL else b
            if b != NULL and a != ("selfarg",):
                args = [a] + args          # [callable, first argument, rest]
            m.push(("call", fn, tuple(args)))
        elif op == "CONTAINS_OP":
            b = m.pop()
            a = m.pop()
            m.push(("notin" if i.arg else "in", a, b))
        elif op == "UNARY_NOT":
            v = m.pop()
            if v[0] in ("in", "notin"):
                m.push(("in" if v[0] == "notin" else "notin", v[1], v[2]))
            else:
                m.push(("not", v))
        elif op == "IS_OP":
            b = m.pop()
            a = m.pop()
            m.push(("isnot" if i.arg else "is", a, b))
        elif op in cond:
            if i.argval != skip:
                m.refuse(i, "a test of the id branch jumps somewhere else")
            v = m.pop()
            # normalise to "the id is generated only if <fact>"
            if op == "POP_JUMP_IF_NONE":
                guards.append(("notnone", v))
            elif op == "POP_JUMP_IF_FALSE" and v[0] == "isnot" and v[2] == ("const", None):
                guards.append(("notnone", v[1]))
            elif op == "POP_JUMP_IF_TRUE" and v[0] == "is" and v[2] == ("const", None):
                guards.append(("notnone", v[1]))
            elif op == "POP_JUMP_IF_TRUE":
                guards.append(("false", v))
            elif op == "POP_JUMP_IF_FALSE":
                guards.append(("true", v))
            else:
                m.refuse(i, "test not understood")
        elif op == "STORE_SUBSCR":
            key = m.pop()
            cont = m.pop()
            val = m.pop()
            stored = (cont, key, val)
            break
        else:
            m.refuse(i, "opcode not understood in the id branch")
        pc += 1
    cont, key, val = stored
    if val != ("call", ("meth", SELF, "_generate_request_id"), ()):
        raise Refuse("do_request: what is stored into the headers is not the result of self._generate_request_id()")
    if key[0] != "const" or not isinstance(key[1], str) or cont[0] != "local":
        raise Refuse("do_request: the id is not stored as <headers local>[<literal>]")
    if m.stack:
        raise Refuse("do_request: unbalanced stack after the id branch")
    enabled = [g for g in guards if g[0] == "notnone"]
    others = [g for g in guards if g[0] != "notnone"]
    if len(enabled) != 1 or enabled[0][1] != ("attr", SELF, counter):
        raise Refuse("do_request: no single 'self.%s is not None' guard in front of the id generation" % counter)
    if len(others) != 1:
        raise Refuse("do_request: %d tests for a caller-supplied id (one expected)" % len(others))
    kind, v = others[0]
    test = None
    absent = (kind == "true" and v[0] == "notin") or (kind == "false" and v[0] == "in")
    if kind == "false" and v[0] == "call" and v[1] == ("global", "any") and len(v[2]) == 1:
        code = _is_genexpr_over(v[2][0], cont)
        if code is not None:
            y = _genexpr_yield(code, what)
            if y[0] == "eq-lower":
                test = ("lowerEq", y[1])
    elif absent and v[1][0] == "const" and isinstance(v[1][1], str) and v[2] == cont:
        test = ("exact", v[1][1])
    elif absent and v[1][0] == "const" and isinstance(v[1][1], str) and _is_genexpr_over(v[2], cont) is not None:
        if _genexpr_yield(_is_genexpr_over(v[2], cont), what) == ("lower",):
            test = ("lowerEq", v[1][1])
    if test is None:
        raise Refuse("do_request: the test for a caller-supplied id is not understood (%r)" % (v,))
    for s in (test[1], key[1]):
        if not all(32 < ord(ch) < 127 and ch not in '"\\' for ch in s):
            raise Refuse("do_request: non-printable header name literal")
    return {"test": test, "name": key[1], "headers_local": cont[1]}


def _headers_statement(path):
    """line range of the one statement of RequestArguments.__init__ that assigns self.headers"""
    import ast
    tree = ast.parse(open(path).read())
    cls = next((c for c in tree.body if isinstance(c, ast.ClassDef) and c.name == "RequestArguments"), None)
    fn = next((f for f in (cls.body if cls else []) if isinstance(f, ast.FunctionDef) and f.name == "__init__"), None)
    if fn is None:
        raise Refuse("RequestArguments.__init__ not found")

    def assigns(node):
        for n in ast.walk(node):
            targets = n.targets if isinstance(n, ast.Assign) else [n.target] if isinstance(n, (ast.AnnAssign, ast.AugAssign)) else []
            for t in targets:
                for tt in ast.walk(t):
                    if isinstance(tt, ast.Attribute) and tt.attr == "headers" and isinstance(tt.value, ast.Name) \
                            and tt.value.id == "self":
                        return True
        return False

    hits = [st for st in fn.body if assigns(st)]
    if len(hits) != 1:
        raise Refuse("RequestArguments.__init__ assigns self.headers in %d statements (one expected)" % len(hits))
    return hits[0].lineno, hits[0].end_lineno


def _extract_hdr_init(mod, path):
    """RequestArguments.__init__: what becomes `self.headers` -> 'copy' | 'alias'.  Only the statement that
    assigns self.headers is evaluated; the other statements of the function (path, params, data …) are not
    C16's business."""
    lo, hi = _headers_statement(path)
    cls = _find_code(mod, "RequestArguments")
    init = _find_code(cls, "__init__") if cls is not None else None
    if init is None or "headers" not in init.co_varnames[:init.co_argcount]:
        raise Refuse("RequestArguments.__init__(…, headers) not found")
    m = _Machine(init, "RequestArguments.__init__")
    H = ("local", "headers")
    results = []

    def inside(i):
        ln = i.positions.lineno if i.positions is not None else None
        return ln is not None and lo <= ln <= hi

    def run(pc, stack, given, stored, depth):
        if depth > 6:
            raise Refuse("RequestArguments.__init__: too many branches")
        while True:
            if pc >= len(m.ins) or not inside(m.ins[pc]):      # left the statement
                results.append((given, stored))
                return
            i = m.ins[pc]
            op = i.opname
            if op in ("RESUME", "NOP"):
                pass
            elif op in ("LOAD_FAST", "LOAD_FAST_CHECK"):
                stack.append(SELF if i.argval == "self" else ("local", i.argval))
            elif op == "LOAD_CONST":
                stack.append(("const", i.argval))
            elif op == "LOAD_GLOBAL":
                if i.arg & 1:
                    stack.append(NULL)
                stack.append(("global", i.argval))
            elif op == "LOAD_ATTR":
                obj = stack.pop()
                if i.arg & 1:
                    stack.extend([("meth", obj, i.argval), ("selfarg",)])
                else:
                    stack.append(("attr", obj, i.argval))
            elif op == "CALL":
                args = [stack.pop() for _ in range(i.arg)][::-1]
                a, b = stack.pop(), stack.pop()
                fn = a if b == NULL else b
                if b != NULL and a != ("selfarg",):
                    args = [a] + args
                stack.append(("call", fn, tuple(args)))
            elif op == "BUILD_MAP" and i.arg == 0:
                stack.append(("newdict",))
            elif op == "COPY":
                stack.append(stack[-i.arg])
            elif op == "SWAP":
                stack[-1], stack[-i.arg] = stack[-i.arg], stack[-1]
            elif op == "POP_TOP":
                stack.pop()
            elif op == "STORE_ATTR":
                obj, val = stack.pop(), stack.pop()
                if obj == SELF and i.argval == "headers":
                    stored = val
            elif op in ("POP_JUMP_IF_FALSE", "POP_JUMP_IF_TRUE", "POP_JUMP_IF_NONE", "POP_JUMP_IF_NOT_NONE"):
                v = stack.pop()
                if v != H:
                    m.refuse(i, "a test on something else than the headers argument")
                jump_when_given = op in ("POP_JUMP_IF_TRUE", "POP_JUMP_IF_NOT_NONE")
                for g in ((True, False) if given is None else (given,)):
                    run(m.at[i.argval] if g == jump_when_given else pc + 1, list(stack), g, stored, depth + 1)
                return
            elif op in ("RETURN_CONST", "RETURN_VALUE"):
                results.append((given, stored))
                return
            else:
                m.refuse(i, "opcode not understood")
            pc += 1

    first = next((n for n, i in enumerate(m.ins) if inside(i)), None)
    if first is None:
        raise Refuse("RequestArguments.__init__: no bytecode for the statement that assigns self.headers")
    try:
        run(first, [], None, None, 0)
    except IndexError:
        raise Refuse("RequestArguments.__init__: stack underflow")
    if any(g is None for g, _ in results):            # no test of the argument at all
        results = [(True, v) for _, v in results] + [(False, v) for _, v in results]
    given = [v for g, v in results if g is True]
    absent = [v for g, v in results if g is False]
    if len(given) != 1 or len(absent) != 1:
        raise Refuse("RequestArguments.__init__: self.headers is not chosen by one test of the headers argument")
    if absent[0] not in (("newdict",), ("call", ("meth", H, "copy"), ()), ("call", ("global", "dict"), (H,))):
        raise Refuse("RequestArguments.__init__: without caller headers self.headers is %r" % (absent[0],))
    if given[0] in (("call", ("meth", H, "copy"), ()), ("call", ("global", "dict"), (H,))):
        return "copy"
    if given[0] == H:
        return "alias"
    raise Refuse("RequestArguments.__init__: with caller headers self.headers is %r" % (given[0],))


def _has_seq(code, pattern):
    """pattern: [(opname, argval or None)] occurs consecutively (CACHE/RESUME skipped); number of occurrences"""
    ins = [(i.opname, i.argval) for i in dis.get_instructions(code) if i.opname not in ("CACHE", "RESUME")]
    n = 0
    for k in range(len(ins) - len(pattern) + 1):
        if all(ins[k + j][0] == o and (a is None or ins[k + j][1] == a) for j, (o, a) in enumerate(pattern)):
            n += 1
    return n


def _extract_kinds(path, mod):
    """connection classes (direct subclasses of _HttpConnBase) and whether their constructor provably hands
    the parent's conn_impl on: -> ([(class name, bool)], [reasons for False])"""
    import ast
    tree = ast.parse(open(path).read())
    subs = [c.name for c in tree.body if isinstance(c, ast.ClassDef)
            and any(isinstance(b, ast.Name) and b.id == "_HttpConnBase" for b in c.bases)]
    if not subs:
        raise Refuse("no subclass of _HttpConnBase found")
    why = []
    base = _find_code(mod, "_HttpConnBase")
    impl = _find_code(mod, "_HttpConnImpl")
    binit = _find_code(base, "__init__") if base is not None else None
    iinit = _find_code(impl, "__init__") if impl is not None else None
    if binit is None or iinit is None:
        raise Refuse("_HttpConnBase.__init__ / _HttpConnImpl.__init__ not found")
    # the base constructor: a connection passed as conn_data becomes parent_conn, whose conn_impl is taken
    ins = [(i.opname, i.argval) for i in dis.get_instructions(binit) if i.opname not in ("CACHE", "RESUME")]
    take = [("LOAD_GLOBAL", "isinstance"), ("LOAD_FAST", "conn_data"), ("LOAD_GLOBAL", "_HttpConnBase"), ("CALL", 2),
            ("POP_JUMP_IF_FALSE", None), ("LOAD_FAST", "conn_data"), ("STORE_FAST", "parent_conn")]
    if _has_seq(binit, take) != 1:
        why.append("_HttpConnBase.__init__ does not start with 'isinstance(conn_data, _HttpConnBase): parent_conn = conn_data'")
    else:
        k = next(k for k in range(len(ins)) if ins[k:k + 3] == take[:3])
        if any(o in ("STORE_FAST", "DELETE_FAST") and a in ("conn_data", "parent_conn") for o, a in ins[:k]):
            why.append("_HttpConnBase.__init__ rebinds conn_data before looking at it")
    if _has_seq(binit, [("LOAD_FAST", "parent_conn"), ("LOAD_ATTR", "conn_impl"), ("LOAD_FAST", "self"),
                        ("STORE_ATTR", "conn_impl")]) != 1 or sum(1 for o, a in ins if (o, a) == ("STORE_ATTR", "conn_impl")) != 1:
        why.append("_HttpConnBase.__init__ does not set self.conn_impl = parent_conn.conn_impl (once)")
    if _has_seq(iinit, [("LOAD_FAST", "self"), ("LOAD_FAST", "self"), ("STORE_ATTR", "conn_impl")]) != 1:
        why.append("_HttpConnImpl.__init__ does not set self.conn_impl = self")
    for meth in ("get", "post", "put", "delete", "patch"):
        mc = _find_code(base, meth)
        if mc is None or _has_seq(mc, [("LOAD_FAST", "self"), ("LOAD_ATTR", "conn_impl"), ("LOAD_ATTR", "do_request")]) != 1:
            why.append("_HttpConnBase.%s does not call self.conn_impl.do_request" % meth)
    base_ok = not why
    kinds = []
    for name in subs:
        cc = _find_code(mod, name)
        init = _find_code(cc, "__init__") if cc is not None else None
        ok = base_ok
        if init is not None:
            cins = [i for i in dis.get_instructions(init) if i.opname not in ("CACHE", "RESUME")]
            sup = [n for n, i in enumerate(cins) if i.opname == "LOAD_SUPER_ATTR" and i.argval == "__init__"]
            reason = None
            if len(sup) != 1:
                reason = "does not call super().__init__ exactly once"
            elif any(i.opname in ("STORE_FAST", "DELETE_FAST") and i.argval == "conn_data" for i in cins):
                reason = "rebinds conn_data"
            else:
                calls = [n for n, i in enumerate(cins) if i.opname == "CALL" and n > sup[0]]
                last = calls[-1] if calls else None
                start = sup[0]
                while start > 0 and not (cins[start].opname == "LOAD_GLOBAL" and cins[start].argval == "super"):
                    start -= 1
                if last is None or cins[last - 1].opname != "LOAD_FAST" or cins[last - 1].argval != "conn_data":
                    reason = "the last argument of super().__init__ is not conn_data"
                elif any(i.opname.startswith(("POP_JUMP", "JUMP")) and i.argval > cins[start].offset for i in cins):
                    reason = "branches around / inside the super().__init__ call"
            if reason:
                ok = False
                why.append("%s.__init__ %s" % (name, reason))
        kinds.append((name, ok))
    return kinds, why


def _other_writers(mod, counter, lock, conn):
    """methods that a request can reach (do_request and what it calls on self, the public get/post/… methods),
    other than _generate_request_id, and that assign the counter, the lock or the connection part"""
    impl = _find_code(mod, "_HttpConnImpl")
    base = _find_code(mod, "_HttpConnBase")
    methods = {c.co_name: c for c in impl.co_consts if hasattr(c, "co_code")}
    protected = {x for x in (counter, lock, conn) if x}
    todo, seen = ["do_request"], set()
    while todo:
        name = todo.pop()
        if name in seen or name == "_generate_request_id" or name not in methods:
            continue
        seen.add(name)
        for i in dis.get_instructions(methods[name]):
            if i.opname in ("LOAD_ATTR", "LOAD_METHOD") and i.argval in methods:
                todo.append(i.argval)
    codes = [("_HttpConnImpl." + n, methods[n]) for n in sorted(seen)]
    if base is not None:
        codes += [("_HttpConnBase." + c.co_name, c) for c in base.co_consts
                  if hasattr(c, "co_code") and c.co_name in ("get", "post", "put", "delete", "patch")]
    out = []
    for name, code in codes:
        if any(i.opname in ("STORE_ATTR", "DELETE_ATTR") and i.argval in protected for i in dis.get_instructions(code)):
            out.append(name)
    # the logging helpers see the live Request: they must only read it
    mutators = {"pop", "popitem", "clear", "update", "setdefault", "add_header", "add_unredirected_header",
                "remove_header", "__setitem__", "__delitem__"}
    for name in ("_log_request", "_log_response"):
        code = methods.get(name)
        if code is not None and any(
                i.opname in ("STORE_SUBSCR", "DELETE_SUBSCR", "STORE_ATTR", "DELETE_ATTR")
                or (i.opname in ("LOAD_ATTR", "LOAD_METHOD") and i.argval in mutators)
                for i in dis.get_instructions(code)):
            out.append("_HttpConnImpl.%s modifies what it logs" % name)
    return out


def _new_allocates(path, mod):
    """every way _HttpConnBase.__init__ obtains an implementation object for an address builds a new one:
    each `parent_conn = …` other than `parent_conn = conn_data` is a direct call of the class _HttpConnImpl,
    which has no __new__ and no metaclass -> (bool, reason)"""
    import ast
    base = _find_code(mod, "_HttpConnBase")
    impl = _find_code(mod, "_HttpConnImpl")
    binit = _find_code(base, "__init__") if base is not None else None
    if binit is None or impl is None:
        return False, "_HttpConnBase.__init__ / _HttpConnImpl not found"
    ins = [(i.opname, i.argval) for i in dis.get_instructions(binit) if i.opname not in ("CACHE", "RESUME")]
    stores = sum(1 for o, a in ins if (o, a) == ("STORE_FAST", "parent_conn"))
    direct = 0
    for k, (o, a) in enumerate(ins):
        if (o, a) == ("STORE_FAST", "parent_conn") and k > 0 and ins[k - 1][0] in ("CALL", "CALL_FUNCTION_EX"):
            j = k - 1
            while j >= 0 and ins[j][0] != "LOAD_GLOBAL":
                j -= 1
            if j >= 0 and ins[j] == ("LOAD_GLOBAL", "_HttpConnImpl"):
                direct += 1
    if stores < 2 or direct != stores - 1:
        return False, "_HttpConnBase.__init__ gets an implementation object otherwise than by calling _HttpConnImpl(...)"
    if any(hasattr(c, "co_code") and c.co_name in ("__new__", "__init_subclass__", "__class_getitem__") for c in impl.co_consts):
        return False, "_HttpConnImpl customises object creation"
    tree = ast.parse(open(path).read())
    cls = next((c for c in tree.body if isinstance(c, ast.ClassDef) and c.name == "_HttpConnImpl"), None)
    if cls is None or cls.keywords or cls.bases or cls.decorator_list:
        return False, "_HttpConnImpl has bases / a metaclass / decorators"
    return True, ""


def _check_order(req):
    """the order of the steps of do_request the hand-written model relies on: request arguments are built from
    the caller's values, the adapters process them, the headers are unpacked, then the id branch, then the
    urllib Request is made.  Everything else in the function (url, method, body, response handling) may change."""
    ins = [i for i in dis.get_instructions(req)]

    def first(pred, what):
        for n, i in enumerate(ins):
            if pred(i):
                return n
        raise Refuse("do_request: %s not found" % what)

    marks = [
        first(lambda i: i.opname == "LOAD_GLOBAL" and i.argval == "RequestArguments", "construction of RequestArguments"),
        first(lambda i: i.opname == "LOAD_ATTR" and i.argval == "process_req_args", "adapter.process_req_args(...)"),
        first(lambda i: i.opname == "LOAD_ATTR" and i.argval == "args", "req_args.args()"),
        first(lambda i: i.opname == "LOAD_ATTR" and i.argval == "_generate_request_id", "self._generate_request_id()"),
        first(lambda i: i.opname == "LOAD_ATTR" and i.argval == "Request", "urllib.request.Request(...)"),
    ]
    if marks != sorted(marks):
        raise Refuse("do_request: the steps 'request arguments, adapters, unpack, id, urllib Request' are not in this order")


_ANALYSIS = {}
_ANALYSIS = {}


def analyse(repo):
    """static analysis of the two functions (cached per source text)"""
    path = os.path.join(repo, "ak", "conn_http.py")
    key = (path, os.path.getmtime(path), os.path.getsize(path))
    if key in _ANALYSIS and isinstance(_ANALYSIS[key], Exception):
        raise _ANALYSIS[key]
    if key not in _ANALYSIS:
        try:
            path, gen, req = _load_codes(repo)
        except Exception as e:
            _ANALYSIS[key] = e
            raise
        try:
            a = _extract_program(gen)
        except Exception as e:
            _ANALYSIS[key] = e
            raise
        try:
            a.update(_extract_branch(req, a["counter"]))
            a["init"] = _extract_hdr_init(_load_codes.mod, path)
            _check_order(req)
            a["allocates"], a["allocates_why"] = _new_allocates(path, _load_codes.mod)
            a["writers"] = _other_writers(_load_codes.mod, a["counter"], a["lock"], a["conn"])
            a["kinds"], a["kinds_why"] = _extract_kinds(path, _load_codes.mod)
        except Exception as e:
            _ANALYSIS[key] = e
            raise
        a["path"] = path
        _ANALYSIS[key] = a
    return _ANALYSIS[key]


def _lean_instr(t):
    kind, a, b = t
    return {"acq": ".acq", "rel": ".rel", "nop": ".nop"}.get(kind) or \
        (".rd %d" % a if kind == "rd" else ".wr %d %d" % (a, b) if kind == "wr" else ".ret %d" % a)


def _lean_piece(p):
    if p[0] == "conn":
        return ".conn"
    if p[0] == "lit":
        return '.lit "%s".toList' % p[1]
    return ".num %s %d" % ("none" if p[1] is None else "(some %d)" % p[1], p[2])


def translate(repo):
    a = analyse(repo)
    _crosscheck_trace(a)
    body = ["-- GENERATED by harness/c16.py:translate from ak/conn_http.py -- do not edit",
            "import AkVerif.Model.Interleave",
            "namespace Gen.C16",
            "open Interleave",
            "/-- `_HttpConnImpl._generate_request_id`, one instruction per bytecode instruction with an",
            "`opcode` trace event (offsets %s);" % ",".join(str(o) for o in a["offsets"]),
            "counter = self.%s, lock = self.%s -/" % (a["counter"], a["lock"]),
            "def reqIdProgram : List Instr := [" + ", ".join(_lean_instr(t) for t in a["program"]) + "]",
            "/-- the returned string -/",
            "def idFormat : List Piece := [" + ", ".join(_lean_piece(p) for p in a["pieces"]) + "]",
            "/-- `do_request`: the id is generated unless the counter is None or some header name passes this test -/",
            "def hdrTest : HdrTest := .%s \"%s\".toList" % a["test"],
            "/-- … and is stored under this name -/",
            "def hdrName : List Char := \"%s\".toList" % a["name"],
            "/-- `RequestArguments.__init__`: the request works on a copy of the caller's dict, or on the dict itself -/",
            "def hdrInit : HdrInit := .%s" % a["init"],
            "/-- subclasses of `_HttpConnBase`; true = the constructor passes `conn_data` on unchanged and the base",
            "constructor takes `parent_conn.conn_impl`%s -/" % ("".join("; NOT: " + w for w in a["kinds_why"])),
            "def wrapKinds : List (List Char × Bool) := [" + ", ".join(
                '("%s".toList, %s)' % (n, "true" if ok else "false") for n, ok in a["kinds"]) + "]",
            "/-- methods reachable from a request, other than `_generate_request_id`, that assign the counter, the lock",
            "or the connection part (e.g. a reset in an error handler of `do_request`) -/",
            "def otherWriters : List (List Char) := [" + ", ".join('"%s".toList' % w for w in a["writers"]) + "]",
            "/-- a connection made from an address (string, list or dict) always gets a new `_HttpConnImpl`%s -/"
            % ("" if a["allocates"] else " — NOT: " + a["allocates_why"]),
            "def newAllocates : Bool := %s" % ("true" if a["allocates"] else "false"),
            "def cfg : Cfg := { prog := reqIdProgram, fmt := idFormat, test := hdrTest, name := hdrName,",
            "                   init := hdrInit, kinds := wrapKinds }",
            "end Gen.C16", ""]
    return {"AkVerif/Gen/C16.lean": "\n".join(body)}



# ====================================================================== forced interleavings of real threads
class _ThreadingProxy:
    """stands for the `threading` module inside ak.conn_http: locks the module creates (at construction
    or lazily, later) are cooperative wrappers around real locks"""

    def __getattr__(self, name):
        return getattr(threading, name)

    @staticmethod
    def Lock():
        return _CoopLock(threading.Lock())

    @staticmethod
    def RLock():
        return _CoopLock(threading.RLock())


def _conn_http():
    from ak import conn_http
    if getattr(conn_http, "threading", None) is threading:
        conn_http.threading = _ThreadingProxy()
    return conn_http


_LOCK_TYPES = (type(threading.Lock()), type(threading.RLock()))
_CUR = [None]            # the scheduler of the `par` line being executed
DRAIN_RUN = 1000000      # = Interleave.drainRun
STEP_TIMEOUT = 10.0
SEQ_LOCK_TIMEOUT = 2.0
_DEAD = [0]              # deadlocks / hangs seen in this process; after three the real code is not driven any more


class _CoopLock:
    """the connection's own threading.Lock, acquired without blocking inside a forced schedule:
    a failed attempt gives the baton back (one wasted step, as in the model) and is retried"""

    def __init__(self, real):
        self._real = real

    def acquire(self, blocking=True, timeout=-1):
        sch = _CUR[0]
        k = getattr(sch.local, "k", None) if sch is not None else None
        if not blocking:
            return self._real.acquire(False)
        if timeout != -1:
            # a timed acquire never really waits here: under a forced schedule (and in a sequential call, where
            # nobody else runs) a lock that is busy now stays busy until this thread gives way, so the attempt
            # "times out" at once - the situation of a holder that is pre-empted for longer than the timeout
            return self._real.acquire(False)
        if k is None:                      # an ordinary sequential call: must not wait (nobody else runs)
            if self._real.acquire(True, SEQ_LOCK_TIMEOUT):
                return True
            _DEAD[0] += 1
            raise RuntimeError("deadlock: the connection's lock is never released")
        while not self._real.acquire(False):
            if sch.abort:                  # the run is over: do not wait for ever
                if self._real.acquire(True, 1.0):
                    return True
                raise RuntimeError("forced schedule aborted while waiting for a lock")
            sch.point(k, blocked=True)
        return True

    def release(self):
        self._real.release()

    def locked(self):
        return self._real.locked()

    def __enter__(self):
        self.acquire()
        return True

    def __exit__(self, *a):
        self._real.release()


def wrap_locks(obj):
    """every lock reachable as an attribute of the implementation object (its own or its class's) is
    shadowed on the instance by a cooperative wrapper around the same lock"""
    found = {}
    for cls in reversed(type(obj).__mro__):
        found.update({n: v for n, v in vars(cls).items() if isinstance(v, _LOCK_TYPES)})
    found.update({n: v for n, v in vars(obj).items() if isinstance(v, _LOCK_TYPES)})
    for name, val in found.items():
        setattr(obj, name, _CoopLock(val))     # (_CoopLock objects are not of these types: never wrapped twice)


_WARM = set()


def _trace_offsets(code, fn):
    """offsets of the opcode events raised in `code` while fn() runs"""
    ev = []

    def loc(frame, event, arg):
        if event == "opcode":
            ev.append(frame.f_lasti)
        return loc

    def glob(frame, event, arg):
        if frame.f_code is code:
            frame.f_trace_opcodes = True
            frame.f_trace_lines = False
            return loc
        return None

    old = sys.gettrace()
    sys.settrace(glob)
    try:
        fn()
    finally:
        sys.settrace(old)
    return ev


def _warm_up(codes, fn):
    """CPython 3.12 delivers no opcode events in the first tracing session that asks for them on a
    code object; run throw-away sessions until they arrive"""
    for code in codes:
        if code in _WARM:
            continue
        for _ in range(4):
            if _trace_offsets(code, fn):
                break
        _WARM.add(code)


def _scratch_call():
    ch = _conn_http()
    impl = ch._HttpConnImpl("http://warmup")
    return impl._generate_request_id


def _crosscheck_trace(a):
    """the statically extracted path must be the one a real call takes"""
    try:
        ch = _conn_http()
        if not os.path.samefile(ch.__file__, a["path"]):
            return
        code = ch._HttpConnImpl._generate_request_id.__code__
    except Exception:
        return
    call = _scratch_call()
    _warm_up([code], call)
    got = _trace_offsets(code, call)
    if got != a["offsets"]:
        raise Refuse("a traced call of _generate_request_id executes offsets %s, the translator extracted %s"
                     % (got, a["offsets"]))


class Forced:
    """runs `bodies[k]()` in real threads; inside the code objects `codes` a thread advances only when
    the schedule says so, one bytecode instruction per step"""

    def __init__(self, codes, bodies, raw=False):
        self.raw = raw             # workers are raw `_thread` threads the `threading` module does not know
        self.codes = set(codes)
        self.n = len(bodies)
        self.bodies = bodies
        # binary semaphores made of raw locks (strict alternation scheduler <-> one worker)
        self.go = [threading.Lock() for _ in bodies]
        for g in self.go:
            g.acquire()
        self.back = threading.Lock()
        self.back.acquire()
        self.grant = [0] * self.n
        self.done = [False] * self.n
        self.exc = [None] * self.n
        self.steps = [0] * self.n
        self.local = threading.local()
        self.abort = False
        self.hung = False
        self.threads = []

    # ---- worker side
    def _global(self, frame, event, arg):
        if frame.f_code in self.codes:
            frame.f_trace_opcodes = True
            frame.f_trace_lines = False
            return self._local
        return None

    def _local(self, frame, event, arg):
        if event == "opcode":
            self.point(self.local.k)
        return self._local

    def point(self, k, blocked=False):
        if self.abort:                 # the run is over (deadlock / hang): let everybody run out freely
            return
        if blocked:
            self.grant[k] = 0          # the rest of the run is wasted as well
        if self.grant[k] > 0:
            self.grant[k] -= 1
            self.steps[k] += 1
            return
        self.back.release()
        self.go[k].acquire()
        if self.abort:
            return
        self.grant[k] -= 1
        self.steps[k] += 1

    def _worker(self, k):
        self.local.k = k
        self.go[k].acquire()
        try:
            if not self.abort:
                sys.settrace(self._global)
                self.bodies[k]()
        except BaseException as e:     # noqa: the exception is an observation
            self.exc[k] = e
        finally:
            sys.settrace(None)
            self.done[k] = True
            try:
                self.back.release()
            except RuntimeError:       # several threads unwinding after an abort
                pass

    # ---- scheduler side
    def _give(self, t, n):
        if self.done[t] or self.hung:
            return
        self.grant[t] = n
        self.go[t].release()
        if not self.back.acquire(timeout=STEP_TIMEOUT):
            self.hung = True

    def run(self, sched):
        """sched: [(thread, steps)]; returns 'ok' | 'deadlock' | 'hang'"""
        _CUR[0] = self
        for k in range(self.n):
            if self.raw:
                import _thread
                _thread.start_new_thread(self._worker, (k,))
            else:
                th = threading.Thread(target=self._worker, args=(k,), daemon=True)
                self.threads.append(th)
                th.start()
        try:
            for t in range(self.n):            # prologue: up to the first traced instruction
                self._give(t, 0)
            for t, n in sched:
                if 0 <= t < self.n and n > 0:
                    self._give(t, n)
            for _ in range(self.n + 1):        # drain
                if all(self.done):
                    break
                for t in range(self.n):
                    self._give(t, DRAIN_RUN)
            status = "hang" if self.hung else ("ok" if all(self.done) else "deadlock")
        finally:
            self.abort = True
            for t in range(self.n):
                if not self.done[t]:
                    self.grant[t] = 1
                    try:
                        self.go[t].release()
                    except RuntimeError:
                        pass
            for th in self.threads:
                th.join(timeout=5.0)
            if self.raw:
                import time
                t_end = time.time() + 5.0
                while not all(self.done) and time.time() < t_end:
                    time.sleep(0.0005)
            _CUR[0] = None
        return status


# ====================================================================== the real code behind the protocol
THEOREMS = [
    "C16.program_ok", "C16.locked_unique", "C16.locked_gap_free", "C16.locked_in_order", "C16.par_ids",
    "C16.par_total", "C16.genSeq_ok", "C16.format_ok", "C16.format_injective", "C16.header_test_ok",
    "C16.caller_id", "C16.new_allocates_ok", "C16.new_fresh_counter", "C16.reachable_wf",
    "C16.new_fresh_counter_reachable", "C16.constructors_share",
    "C16.derived_shares", "C16.program_fuel", "C16.request_auto", "C16.test_covers", "C16.no_other_writer",
    "C16.hdr_init_ok", "C16.request_spec", "C16.auth_chain_keeps", "C16.request_supplied_id",
    "C16.request_caller_id", "C16.request_auto_sent", "C16.par_world", "C16.par_link", "C16.parCore_total",
    "C16.request_cases",
    "C16.test_is_idName", "C16.add_adapter_spec", "C16.derived_inherits_adapters", "C16.request_supplied_value",
    "C16.request_id_adapter", "C16.added_id_adapter_request",
    "C16.history_ids_distinct", "C16.history_from_scratch",
]


def _names():
    """attribute names found by the translator (defaults when it refuses)"""
    try:
        a = analyse(REPO)
        return a["counter"], a["conn"], len(a["program"])
    except Exception:
        return "_cur_req_id", "_reqid_connection_part", 37


def enc_hdrs(pairs):
    return ";".join("%s=%s" % (enc_str(k), enc_str(v)) for k, v in pairs) if pairs else "_"


def dec_hdrs(t):
    if t == "_":
        return []
    return [tuple(dec_str(x) for x in kv.split("=")) for kv in t.split(";")]


def _is_id_name(name):
    return name.lower() == "x-request-id"


FAILURES = {"url": "URLError", "http": "HTTPError", "timeout": "TimeoutError", "exc": "RuntimeError",
            "disc": "RemoteDisconnected", "reset": "ConnectionResetError", "pipe": "BrokenPipeError",
            # the request went out and was answered with 200, but processing the answer fails
            "badjson": "JSONDecodeError", "badutf": "UnicodeDecodeError", "respad": "ValueError",
            # ... or does not even look at the body (raw_response=True): nothing is raised
            "raw": None}
RESPONSES = {"badjson": b"<html>not json</html>", "badutf": b"\xff\xfe\xfa", "respad": b"", "raw": b"<html>not json</html>"}


def make_failure(kind, request):
    """what the opener raises after it was handed the request"""
    import socket
    import urllib.error
    if kind == "url":
        return urllib.error.URLError("connection refused")
    if kind == "timeout":
        return socket.timeout("timed out")
    if kind == "disc":
        import http.client
        return http.client.RemoteDisconnected("Remote end closed connection without response")
    if kind == "reset":
        return ConnectionResetError(104, "Connection reset by peer")
    if kind == "pipe":
        return BrokenPipeError(32, "Broken pipe")
    if kind == "http":
        class _Fp:                      # the parts of http.client.HTTPResponse that do_request's logging touches
            _method = request.get_method()
            closed = False

            def read(self, *a):
                return b"no"

            def close(self):
                pass

            def getheaders(self):
                return []
        return urllib.error.HTTPError(request.full_url, 503, "unavailable", {}, _Fp())
    return RuntimeError("opener broke")


def _failure_matches(kind, e):
    import socket
    import urllib.error
    import http.client
    import json
    if kind == "badjson":
        return isinstance(e, json.JSONDecodeError)
    if kind == "badutf":
        return isinstance(e, UnicodeDecodeError)
    if kind == "respad":
        return type(e) is ValueError
    want = {"url": urllib.error.URLError, "http": urllib.error.HTTPError, "timeout": socket.timeout, "exc": RuntimeError,
            "disc": http.client.RemoteDisconnected, "reset": ConnectionResetError, "pipe": BrokenPipeError}[kind]
    if kind == "reset" and isinstance(e, http.client.RemoteDisconnected):
        return False
    if kind == "url" and isinstance(e, urllib.error.HTTPError):
        return False
    return isinstance(e, want)


class _Capture:
    """replacement of urllib.request.OpenerDirector.open (as tests/mock_http does), remembering which
    thread sent what under 'X-request-id'"""

    def __init__(self):
        self.sent = {}         # thread -> [(number of the send() call of that thread, id handed to the opener)]
        self.tag = {}
        self.respfail = {}     # thread -> the response adapter of the harness rejects the next answer
        self.fail = {}         # thread -> how the opener fails on the next request of that thread

    def __enter__(self):
        from unittest.mock import patch
        from tests.mock_http import _FakeHttpResponse
        cap = self

        def opener(_self, request):
            me = threading.get_ident()
            cap.sent.setdefault(me, []).append((cap.tag.get(me, 0), request.get_header("X-request-id")))
            kind = cap.fail.pop(threading.get_ident(), None)
            if kind in RESPONSES:
                if kind == "respad":
                    cap.respfail[me] = True
                return _FakeHttpResponse(request.method, 200, RESPONSES[kind])
            if kind is not None:
                raise make_failure(kind, request)
            return _FakeHttpResponse(request.method, 200, b"")
        import urllib.request
        director = urllib.request.OpenerDirector
        self._p = patch("urllib.request.OpenerDirector.open", opener)
        # building the default opener loads the system's TLS certificates (25 ms per connection); the
        # opener is never used for real, its `open` is the function above
        self._q = patch("urllib.request.build_opener", lambda *handlers: director())
        import ssl
        self._r = patch("ssl.create_default_context", lambda *a, **k: ssl.SSLContext(ssl.PROTOCOL_TLS_CLIENT))
        self._p.start()
        self._q.start()
        self._r.start()
        return self

    def __exit__(self, *a):
        self._r.stop()
        self._q.stop()
        self._p.stop()

    def take(self, ident=None):
        """ids of everything that reached the opener from this thread since the last take()"""
        return [v for _, v in self.sent.pop(ident if ident is not None else threading.get_ident(), [])]


class _Real:
    """connections built by the lines of one case"""

    def __init__(self):
        self.ch = _conn_http()
        self.conns = []        # (connection object, family index)
        self.fams = []         # dict(impl=, cp_line=, ids=)
        self.extra_impls = []
        self.dicts, self.dict_orig = [], []
        self.id_values = []    # per connection: ids the caller's adapters of the chain may supply
        self.maybe_values = []  # per connection: ids of adapters attached to an ancestor AFTER this connection was derived
        self.parent = []       # per connection: the connection it was derived from (None for a base)
        self.counter_attr, self.conn_attr, _ = _names()

    def canon(self, fam, v):
        """replace the random connection part by the one named in the `new` line"""
        if v is None:
            return None
        f = self.fams[fam]
        real = getattr(f["impl"], self.conn_attr, None) if self.conn_attr else None
        if isinstance(v, str) and isinstance(real, str) and real and v.startswith(real):
            return f["cp_line"] + v[len(real):]
        return v

    def new(self, cp, ids, form="str", addr="h"):
        addr = ADDRESSES.get(addr, ADDRESSES["h"])
        if not ids:
            data = [addr, False] if form == "list" else {"address": addr, "_send_request_ids": False}
        elif form == "list":
            data = (addr,)
        elif form == "dict":
            data = {"address": addr}
        elif form == "slash":
            data = addr + "/"
        else:
            data = addr
        c = self.ch.HttpConn(data)
        wrap_locks(c.conn_impl)
        self.fams.append({"impl": c.conn_impl, "cp_line": cp, "ids": ids})
        self.id_values.append([])
        self.maybe_values.append([])
        self.parent.append(None)
        self.conns.append((c, len(self.fams) - 1))
        return len(self.conns) - 1

    def wrap(self, c, kind, spec="none"):
        parent, fam = self.conns[c]
        ch = self.ch
        if kind == "respfail":
            cap = self.cap

            class RespAdapter(ch.RequestAdapter):    # a response adapter of the caller's that may reject an answer
                def process_response(self, return_value):
                    if cap.respfail.pop(threading.get_ident(), False):
                        raise ValueError("answer rejected")
                    return return_value
            d = ch.HttpConn(parent, adapters=[RespAdapter()])
            self.id_values.append(list(self.id_values[c]))
        elif kind in ID_KINDS:
            value = dec_str(spec.split(":", 1)[1])
            polite = kind == "idpolite"

            class IdAdapter(ch.RequestAdapter):      # the caller's way to pass on the id of the request being served
                def process_req_args(self, req_args):
                    if polite and any(h.lower() == "x-request-id" for h in req_args.headers):
                        return
                    req_args.headers["X-Request-ID"] = value
            d = ch.HttpConn(parent, adapters=[IdAdapter()])
            self.id_values.append(self.id_values[c] + [value])
        elif kind == "bauth":
            d = ch.BAuthConn(parent, *AUTH_ARGS["bauth"])
        elif kind == "token":
            d = ch.TokenAuthConn(parent, *AUTH_ARGS["token"])
        elif kind == "client":
            d = ch.ClientAuthConn(parent, *AUTH_ARGS["client"])
        elif kind == "prefix":
            d = ch.HttpConn(parent, adapters=[ch.RequestAdapterAddPathPrefix("/api")])
        else:
            d = ch.HttpConn(parent)
        if all(d.conn_impl is not f["impl"] for f in self.fams) and d.conn_impl not in self.extra_impls:
            wrap_locks(d.conn_impl)        # not shared with the parent (the property is then broken)
            self.extra_impls.append(d.conn_impl)
        if kind not in ID_KINDS and kind != "respfail":
            self.id_values.append(list(self.id_values[c]))
        self.maybe_values.append(list(self.maybe_values[c]))
        self.parent.append(c)
        self.conns.append((d, fam))
        return len(self.conns) - 1

    def make_adapter(self, kind, spec):
        """an adapter object of the caller's: id-propagating (always / only if the request has no id), one of the
        package's authenticating adapters, the path prefix adapter; -> (adapter, id it may supply or None)"""
        ch = self.ch
        if kind in ID_KINDS:
            value = dec_str(spec.split(":", 1)[1])
            polite = kind == "idpolite"

            class IdAdapter(ch.RequestAdapter):
                def process_req_args(self, req_args):
                    if polite and any(h.lower() == "x-request-id" for h in req_args.headers):
                        return
                    req_args.headers["X-Request-ID"] = value
            return IdAdapter(), value
        if kind == "bauth":
            return ch.BAuthConn.Adapter(*AUTH_ARGS["bauth"]), None
        if kind == "token":
            return ch.TokenAuthConn.Adapter(*AUTH_ARGS["token"]), None
        if kind == "client":
            return ch.ClientAuthConn.Adapter(*AUTH_ARGS["client"]), None
        return ch.RequestAdapterAddPathPrefix("/api"), None

    def add_adapter(self, c, kind, spec):
        """conn.add_adapter(<adapter>) on an existing connection.  The id of an id-supplying adapter is from now on
        supplied by the caller for requests through this connection (and through connections derived from it
        later: wrap() copies id_values); connections derived from it EARLIER may or may not see the adapter -
        the property does not say - so for them the id is only something that may legitimately be sent."""
        conn, _ = self.conns[c]
        ad, value = self.make_adapter(kind, spec)
        conn.add_adapter(ad)
        if value is not None:
            self.id_values[c] = self.id_values[c] + [value]
            for k in range(len(self.conns)):
                p = self.parent[k]
                while p is not None and p != c:
                    p = self.parent[p]
                if p == c and k != c:
                    self.maybe_values[k] = self.maybe_values[k] + [value]

    def new_dict(self, pairs):
        self.dicts.append(dict(pairs))
        self.dict_orig.append(list(pairs))
        return len(self.dicts) - 1

    def source(self, t):
        """'#k' -> (the caller's dict object k, what the caller put into it); pairs -> (a dict for this call, pairs)"""
        if t.startswith("#"):
            k = int(t[1:])
            return self.dicts[k], self.dict_orig[k]
        pairs = dec_hdrs(t)
        return (dict(pairs) if pairs else None), pairs

    def send(self, c, hdrs, method="get", fail=None):
        """fail: the opener raises after it got the request; returns the canonical name of what came out"""
        conn, _ = self.conns[c]
        me = threading.get_ident()
        self.cap.tag[me] = self.cap.tag.get(me, 0) + 1
        kw = {"headers": hdrs} if hdrs is not None else {}
        if method in ("post", "put", "patch"):
            kw["data"] = {"k": 1}
        if fail is None:
            getattr(conn, method)("p", **kw)
            return None
        if fail == "raw":
            kw["raw_response"] = True
        self.cap.fail[threading.get_ident()] = fail
        try:
            getattr(conn, method)("p", **kw)
        except BaseException as e:
            if fail != "raw" and _failure_matches(fail, e) and threading.get_ident() not in self.cap.fail:
                return FAILURES[fail]
            raise
        finally:
            self.cap.fail.pop(threading.get_ident(), None)
            self.cap.respfail.pop(threading.get_ident(), None)
        return None if fail == "raw" else "nothing"


ADDRESSES = {"h": "http://host.example", "s": "https://host.example", "sp": "https://host.example:8443",
             "S": "HTTPS://Host.Example"}
AUTH_ARGS = {"bauth": ("user", "pw"), "token": ("tok",), "client": ("cn", "cid", "cs")}


def auth_value(kind):
    """what the adapter of a connection of this kind puts under 'Authorization' (text; '' = no adapter)"""
    import base64
    if kind == "bauth":
        return "Basic " + base64.b64encode(b"user:pw").decode()
    if kind == "client":
        return "Basic " + base64.b64encode(b"cid:cs").decode()
    if kind == "token":
        return "Bearer tok"
    return None


def _val(v):
    return v if isinstance(v, str) else v.decode("latin-1") if isinstance(v, bytes) else repr(v)


def show_dict(d):
    return enc_hdrs([(str(k), _val(v)) for k, v in d.items()])


def _show(v):
    return "none" if v is None else enc_str(v) if isinstance(v, str) else "nonstr"


def _err(e):
    return "err " + type(e).__name__


_LAST = {}
_TIER = [None]           # tier of the run = tier of the first gen_cases call (the directed search asks for "thorough")
_SPENT = [0.0]            # wall-clock seconds spent driving the real code in this process
IMPL_BUDGET = {"quick": 180.0, "thorough": 1500.0}
CASE_BUDGET = 8.0         # a scenario slower than this counts as a hang (clean tree: 1-40 ms, a long burst 0.5 s)


def _run(case):
    """-> (replies, details); details feed the oracle.  Bounded: after three deadlocks / hangs / over-long
    scenarios, or when the budget of the tier is used up, the real code is not driven any more (the
    replies say so; the oracle then claims nothing)."""
    import time
    lines = case["lines"]
    if _DEAD[0] >= 3:
        return ["err deadlock-seen-before"] * len(lines), []
    if _SPENT[0] > IMPL_BUDGET.get(_TIER[0] or "quick", 180.0):
        return ["err time-budget-used-up"] * len(lines), []
    t0 = time.time()
    try:
        return _run_lines(case)
    finally:
        import logging
        logging.getLogger("ak.conn_http").setLevel(logging.NOTSET)
        dt = time.time() - t0
        _SPENT[0] += dt
        if dt > CASE_BUDGET and not any(l.startswith("burst") for l in lines):
            _DEAD[0] += 1


def _run_lines(case):
    lines = case["lines"]
    replies, details = [], []
    w = _Real()
    gen_code = None
    try:
        gen_code = w.ch._HttpConnImpl._generate_request_id.__code__
    except AttributeError:
        pass
    with _Capture() as cap:
        w.cap = cap
        for line in lines:
            tok = line.split()
            d = {"kind": tok[0] if tok else "?"}
            try:
                if tok[0] == "new":
                    k = w.new(dec_str(tok[1]), tok[2] == "1", tok[3] if len(tok) > 3 else "str",
                              tok[4] if len(tok) > 4 else "h")
                    d.update(fam=w.conns[k][1], ids=tok[2] == "1")
                    replies.append("ok %d" % k)
                elif tok[0] == "wrap":
                    if int(tok[1]) >= len(w.conns):
                        replies.append("err IndexError")
                    else:
                        replies.append("ok %d" % w.wrap(int(tok[1]), tok[2], tok[3] if len(tok) > 3 else "none"))
                elif tok[0] == "addad":     # conn.add_adapter(...) on a connection that exists (and may have been used)
                    if int(tok[1]) >= len(w.conns):
                        replies.append("err IndexError")
                    else:
                        w.add_adapter(int(tok[1]), tok[2], tok[3] if len(tok) > 3 else "none")
                        replies.append("ok")
                elif tok[0] == "log":       # DEBUG logging effective for the module's logger (records go nowhere)
                    import logging
                    lg = logging.getLogger("ak.conn_http")
                    if not any(isinstance(h, logging.NullHandler) for h in lg.handlers):
                        lg.addHandler(logging.NullHandler())
                    lg.propagate = False
                    lg.setLevel(logging.DEBUG if tok[1] == "debug" else logging.NOTSET)
                    replies.append("ok")
                elif tok[0] == "dict":
                    replies.append("ok %d" % w.new_dict(dec_hdrs(tok[1])))
                elif tok[0] == "req":
                    c = int(tok[1])
                    if c >= len(w.conns) or (tok[2].startswith("#") and int(tok[2][1:]) >= len(w.dicts)):
                        replies.append("err IndexError")
                    else:
                        fam = w.conns[c][1]
                        d["fam"] = fam
                        hdrs, pairs = w.source(tok[2])
                        cap.take()
                        fail = tok[4] if len(tok) > 4 and tok[4] in FAILURES else None
                        raised = w.send(c, hdrs, tok[3] if len(tok) > 3 else "get", fail)
                        got = cap.take()
                        got = [w.canon(fam, v) for v in got]
                        sent = got[0] if got else "<nothing sent>"
                        d.update(fam=fam, supplied=[v for k, v in pairs if _is_id_name(k)] + w.id_values[c], sent=sent,
                                 resent=got[1:], maybe=list(w.maybe_values[c]))
                        after = "".join(" again " + _show(v) for v in got[1:])     # the same request handed over again
                        if tok[2].startswith("#"):     # the caller's object after the call
                            after = " dict=" + enc_hdrs([(k, w.canon(fam, _val(v))) for k, v in hdrs.items()])
                        if raised is not None:
                            d["raised"] = raised
                            after += " raised " + raised
                        replies.append("sent " + _show(sent) + after)
                elif tok[0] == "burst":
                    c, n = int(tok[1]), int(tok[2])
                    if c >= len(w.conns):
                        replies.append("err IndexError")
                    else:
                        fam = w.conns[c][1]
                        cap.take()
                        for _ in range(n):
                            w.send(c, None)
                        got = [w.canon(fam, v) for v in cap.take()]
                        d.update(fam=fam, sent=got, n=n, supplied=list(w.id_values[c]), maybe=list(w.maybe_values[c]))
                        replies.append("ok %s %s" % (_show(got[0]), _show(got[-1])) if got else "ok none none")
                elif tok[0] in ("par", "parw", "parraw"):
                    replies.append(_run_par(w, cap, tok, d, gen_code))
                elif tok[0] == "enum":
                    replies.append("none")
                else:
                    replies.append("bad-op")
            except Exception as e:     # an exception the adapter did not expect is an observation
                d["error"] = type(e).__name__
                replies.append(_err(e))
            details.append(d)
    return replies, details


def _run_par(w, cap, tok, d, gen_code):
    c = int(tok[1])
    raw = [[] if t == "." else [(int(r.split("@")[0]), r.split("@")[1].split("!")[0]) for r in t.split("+")]
           for t in tok[2].split("|")]
    fails = [[] if t == "." else [(r.split("!")[1] if "!" in r else None) for r in t.split("+")]
             for t in tok[2].split("|")]
    if any(src.startswith("#") and int(src[1:]) >= len(w.dicts) for t in raw for _, src in t):
        return "err IndexError"
    # (connection, object passed as headers, what the caller put into it)
    threads = [[(rc,) + w.source(src) for rc, src in t] for t in raw]
    sched = [] if tok[3] == "-" else [tuple(int(x) for x in r.split("*")) for r in tok[3].split(",")]
    if c >= len(w.conns) or any(r[0] >= len(w.conns) for t in threads for r in t):
        return "err IndexError"
    fam = w.conns[c][1]
    if any(w.conns[r[0]][1] != fam for t in threads for r in t):
        return "err IndexError"
    if tok[0] == "parw" or gen_code is None:
        ch = w.ch
        codes = [f.__code__ for cls in vars(ch).values() if isinstance(cls, type) and cls.__module__ == ch.__name__
                 for f in vars(cls).values() if hasattr(f, "__code__")]
        codes += [k for co in list(codes) for k in co.co_consts if hasattr(k, "co_code")]
    else:
        codes = [gen_code]
    _warm_up([gen_code] if gen_code is not None else [], _scratch_call()) if gen_code is not None else None
    idents = [None] * len(threads)

    def body(k):
        def run():
            idents[k] = threading.get_ident()
            cap.tag[idents[k]] = 0
            for j, (rc, hdrs, _pairs) in enumerate(threads[k]):
                w.send(rc, hdrs, "get", fails[k][j])
        return run

    f = Forced(codes, [body(k) for k in range(len(threads))], raw=tok[0] == "parraw")
    status = f.run(sched)
    out, extra = [], []
    for k, t in enumerate(threads):
        sends = cap.sent.pop(idents[k], []) if idents[k] is not None else []
        per = [[w.canon(fam, v) for tg, v in sends if tg == j + 1] for j in range(len(t))]
        out.append([p[0] if p else "<missing>" for p in per])
        extra.append([p[1:] for p in per])
    d.update(fam=fam, status=status, steps=list(f.steps),
             threads=[[{"supplied": [v for kk, v in pairs if _is_id_name(kk)] + w.id_values[rc],
                        "maybe": list(w.maybe_values[rc]), "sent": out[k][j], "resent": extra[k][j]}
                       for j, (rc, _hdrs, pairs) in enumerate(t)] for k, t in enumerate(threads)])
    errs = [e for e in f.exc if e is not None]
    if errs:
        d["error"] = type(errs[0]).__name__
        return _err(errs[0])
    if status != "ok":
        _DEAD[0] += 1
        return "err OUT-OF-FUEL" if status == "deadlock" else "err hang"
    return "ok " + "|".join("." if not t else "+".join(
        _show(v) + "".join("&" + _show(x) for x in extra[k][j]) for j, v in enumerate(t)) for k, t in enumerate(out))


def impl(case):
    replies, details = _run(case)
    _LAST.clear()
    _LAST[tuple(case["lines"])] = details
    return replies


def observable(i, line):
    return not line.startswith("enum")


# ====================================================================== oracle: the property itself
def _seq_of(v):
    """the sequence number carried by an id of today's layout: its last run of >= 12 digits"""
    m = re.search(r"(\d{12,})$", v)
    return int(m.group(1)) if m else None


def oracle(case, replies):
    """Stated on what the opener was handed, per family of connections sharing one implementation:
      * every request that brings no id of its own carries an id, and these ids are pairwise distinct;
      * their sequence numbers continue without gap or repeat (k such requests -> k consecutive
        numbers; concurrent ones: exactly the next k numbers in some order, increasing per thread);
      * a request that brings an id under 'X-Request-ID' in any capitalisation is sent with that id
        and takes no number.  "Brings an id" = the caller put it into the request: in the headers argument,
        or through an adapter of the caller's in the chain of the connection object the request is made
        through - whether the adapter was given to a constructor, came with the parent the connection was
        derived from, or was attached with add_adapter() (before or after the first requests).  An id of an
        adapter attached to an ancestor AFTER the connection was derived may or may not be used (the
        property does not say whether such an adapter reaches existing derived connections): if it is what
        was sent the request counts as one that brought its id, otherwise as one that did not.
    Nothing here looks at the Lean model."""
    details = _LAST.get(tuple(case["lines"]))
    if details is None:
        details = _run(case)[1]
    fams = {}

    def auto(fam, sent, where, st):
        if sent is None:
            return "missing-id: %s carries no X-Request-ID" % where
        if not isinstance(sent, str):
            return "bad-id: %s carries %r" % (where, sent)
        if sent in st["ids"]:
            return "duplicate-id: %s carries %s, already used on this connection" % (where, sent)
        st["ids"].add(sent)
        return None

    for n, d in enumerate(details):
        if d.get("kind") == "new":
            fams[d["fam"]] = {"ids": set(), "next": None, "enabled": d["ids"], "dead": False}
            continue
        if d.get("kind") not in ("req", "burst", "par", "parw", "parraw") or "fam" not in d:
            continue
        st = fams.get(d["fam"])
        if st is None or not st["enabled"] or st["dead"]:
            continue
        if d.get("kind") == "req" and "error" in d:
            st["resync"] = True        # refused request (nothing was sent): a number may or may not have been taken
            continue
        if "error" in d or d.get("status", "ok") != "ok":
            st["dead"] = True          # crash / deadlock: reported by the correspondence, no claim here
            continue
        where = "line %d (%s)" % (n, d["kind"])
        if d["kind"] == "req":         # every time the request reached the opener is a send of its own
            groups = [[{"supplied": d["supplied"], "maybe": d.get("maybe", []), "sent": v}]
                      for v in [d["sent"]] + list(d.get("resent", []))]
        elif d["kind"] == "burst":
            if len(d["sent"]) != d["n"]:
                return "missing-request: %s sent %d of %d requests" % (where, len(d["sent"]), d["n"])
            groups = [[{"supplied": d.get("supplied", []), "maybe": d.get("maybe", []), "sent": v}] for v in d["sent"]]
        else:
            groups = None
        if groups is not None:            # sequential requests, in order
            for g in groups:
                r = g[0]
                if r["supplied"]:
                    if r["sent"] not in r["supplied"] + r["maybe"]:
                        return "caller-id: %s supplied %r, sent %r" % (where, r["supplied"], r["sent"])
                    continue
                if r["sent"] in r["maybe"]:
                    continue
                msg = auto(d["fam"], r["sent"], where, st)
                if msg:
                    return msg
                s = _seq_of(r["sent"])
                if s is None:
                    st["next"] = False         # layout without a readable number: distinctness only
                elif st["next"] is None:
                    st["next"] = s + 1
                elif st["next"] is not False:
                    if st.pop("resync", False) and s >= st["next"]:
                        st["next"] = s
                    if s != st["next"]:
                        return "sequence: %s got number %d, expected %d" % (where, s, st["next"])
                    st["next"] = s + 1
            continue
        # concurrent requests
        seqs = []
        for k, t in enumerate(d["threads"]):
            last = None
            for r in [dict(r0, sent=v) for r0 in t for v in [r0["sent"]] + list(r0.get("resent", []))]:
                if r["supplied"]:
                    if r["sent"] not in r["supplied"] + r.get("maybe", []):
                        return "caller-id: %s thread %d supplied %r, sent %r" % (where, k, r["supplied"], r["sent"])
                    continue
                if r["sent"] in r.get("maybe", []):
                    continue
                msg = auto(d["fam"], r["sent"], where + " thread %d" % k, st)
                if msg:
                    return msg
                s = _seq_of(r["sent"])
                seqs.append(s)
                if s is not None and last is not None and s <= last:
                    return "sequence: %s thread %d got %d after %d" % (where, k, s, last)
                last = s if s is not None else last
        if any(s is None for s in seqs):
            st["next"] = False
        elif seqs and st["next"] is not False:
            if st.pop("resync", False) and st["next"] is not None and min(seqs) >= st["next"]:
                st["next"] = min(seqs)
            base = st["next"] if st["next"] is not None else min(seqs)
            if sorted(seqs) != list(range(base, base + len(seqs))):
                return "sequence: %s handed out %s, expected the %d numbers from %d" % (
                    where, sorted(seqs), len(seqs), base)
            st["next"] = base + len(seqs)
    return None


# ====================================================================== generators
CPS = ["ab12", "0000", "ffff", "9a0c", "dead", "1234"]
ID_NAMES = ["X-Request-ID", "x-request-id", "X-REQUEST-ID", "X-request-id", "X-Request-Id", "x-Request-iD"]
NEAR_NAMES = ["X-Request-IDx", "X-Request_ID", "Request-ID", "X-Request-I", "xx-request-id", "X-Request-ID ",
              "X-Correlation-ID"]
OTHER = [("Accept", "*/*"), ("X-Trace", "Zt1"), ("Content-Type", "text/plain"), ("User-Agent", "Zua")]
KINDS = ["plain", "bauth", "token", "client", "prefix"]
METHODS = ["get", "post", "put", "delete", "patch"]


def _rand_case_name(rng):
    return "".join(c.upper() if rng.random() < 0.5 else c.lower() for c in "x-request-id")


def _rand_value(rng):
    return "Z" + "".join(rng.choice("abcXYZ019-_") for _ in range(rng.randrange(0, 6)))


def _rand_headers(rng, p_none=0.55):
    x = rng.random()
    if x < p_none:
        return []
    pairs = []
    if x < p_none + 0.15:
        for _ in range(rng.randrange(1, 3)):
            pairs.append(rng.choice(OTHER) if rng.random() < 0.5 else (rng.choice(NEAR_NAMES), _rand_value(rng)))
    else:
        if rng.random() < 0.4:
            pairs.append(rng.choice(OTHER))
        name = rng.choice(ID_NAMES) if rng.random() < 0.6 else _rand_case_name(rng)
        pairs.append((name, _rand_value(rng)))
        if rng.random() < 0.08:
            pairs.append((_rand_case_name(rng), _rand_value(rng)))
        if rng.random() < 0.3:
            pairs.append((rng.choice(NEAR_NAMES), _rand_value(rng)))
    seen, out = set(), []
    for k, v in pairs:
        if k not in seen:
            seen.add(k)
            out.append((k, v))
    return out


def _prog_info():
    """(length, index of acq, index of rel) of the extracted program (defaults when the translator refuses)"""
    try:
        prog = analyse(REPO)["program"]
        kinds = [t[0] for t in prog]
        return len(prog), kinds.index("acq") if "acq" in kinds else 2, kinds.index("rel") if "rel" in kinds else len(prog) // 2
    except Exception:
        pass
    try:                                   # the translator refused: measure a real call
        ch = _conn_http()
        code = ch._HttpConnImpl._generate_request_id.__code__
        _warm_up([code], _scratch_call())
        n = len(_trace_offsets(code, _scratch_call()))
        if n:
            return n, min(6, n), n // 2
    except Exception:
        pass
    return 37, 2, 17


ID_KINDS = {"idset": "set", "idpolite": "polite"}


def wrap_line(parent, kind, value=None):
    """kinds idset / idpolite: a plain HttpConn with an adapter of the caller's that puts `value` under
    X-Request-ID (always / unless the request already has an id in any capitalisation)"""
    if kind in ID_KINDS:
        return "wrap %d %s %s:%s" % (parent, kind, ID_KINDS[kind], enc_str(value or "Zadapter"))
    if kind == "respfail":      # a plain HttpConn with a response adapter of the caller's that can reject an answer
        return "wrap %d respfail none" % parent
    a = auth_value(kind)
    return "wrap %d %s %s" % (parent, kind, "none" if a is None else "auth:" + enc_str(a))


ADD_KINDS = ["idset", "idpolite", "prefix", "bauth", "token", "client"]


def addad_line(c, kind, value=None):
    """conn.add_adapter(<adapter>) on connection c: an id-propagating adapter of the caller's (idset / idpolite),
    the package's path prefix adapter, or one of the package's authenticating adapters"""
    if kind in ID_KINDS:
        return "addad %d %s %s:%s" % (c, kind, ID_KINDS[kind], enc_str(value or "Zadded"))
    a = auth_value(kind)
    return "addad %d %s %s" % (c, kind, "none" if a is None else "auth:" + enc_str(a))


def _rand_addad(rng, c, auth):
    """an add_adapter line for connection c; auth[c] (an authenticating adapter is in its chain) is kept up to date -
    a second authenticating adapter is refused by the adapters themselves (left to the malformed stream)"""
    x = rng.random()
    if x < 0.55:
        return addad_line(c, rng.choice(sorted(ID_KINDS)), _rand_value(rng))
    if x < 0.75 or auth.get(c):
        return addad_line(c, "prefix")
    auth[c] = True
    return addad_line(c, rng.choice(["bauth", "token", "client"]))


def _prelude(rng, lines, nfam_max=3, p_dicts=0.4, p_add=0.07):
    """new/wrap/addad/dict lines; returns ({family: (ids, [connection indices])}, number of caller dicts,
    {connection: has an authenticating adapter}).  add_adapter calls come before and after the derivation of
    further connections from the connection they are made on."""
    fams = {}
    nconn = 0
    auth_all = {}
    for f in range(rng.randrange(1, nfam_max + 1)):
        ids = 1 if f == 0 or rng.random() < 0.7 else 0
        form = rng.choice(["str", "str", "slash", "list", "dict"])
        if f == 0:
            addr0 = rng.choice(sorted(ADDRESSES))
        # independent connections of one scenario go to the same server (equal or equivalent address) half the time
        addr = addr0 if rng.random() < 0.5 else rng.choice(sorted(ADDRESSES))
        lines.append("new %s %d %s %s" % (enc_str(rng.choice(CPS)), ids, form, addr))
        mine = [nconn]
        auth = {nconn: False}          # two authenticating layers are rejected by the adapters themselves
        nconn += 1
        for _ in range(rng.choice([0, 1, 1, 2, 3])):
            if rng.random() < p_add:
                lines.append(_rand_addad(rng, rng.choice(mine), auth))
            parent = rng.choice(mine)
            kind = rng.choice(["plain", "prefix"] if auth[parent] else KINDS)
            if rng.random() < 0.12:
                kind = rng.choice(sorted(ID_KINDS))
            lines.append(wrap_line(parent, kind, _rand_value(rng)))
            auth[nconn] = auth[parent] or kind in ("bauth", "token", "client")
            mine.append(nconn)
            nconn += 1
        if rng.random() < p_add:
            lines.append(_rand_addad(rng, rng.choice(mine), auth))
        auth_all.update(auth)
        fams[f] = (ids, mine)
    ndict = 0
    if rng.random() < p_dicts:             # header dicts the caller keeps and passes to several requests
        for _ in range(rng.choice([1, 1, 2, 3])):
            x = rng.random()
            pairs = [] if x < 0.1 else _rand_headers(rng, 0.0) if x < 0.35 else \
                [kv for kv in rng.sample(OTHER, rng.randrange(1, 3)) if kv[0] != "Authorization"]
            lines.append("dict " + enc_hdrs(pairs))
            ndict += 1
    return fams, ndict, auth_all


def _src(rng, ndict, p_none=0.55):
    if ndict and rng.random() < 0.5:
        return "#%d" % rng.randrange(ndict)
    return enc_hdrs(_rand_headers(rng, p_none))


GEN_FAILS = sorted(k for k in FAILURES if k != "respad")     # respad needs a connection with the rejecting adapter


def _req_line(rng, conns, p_none=0.55, ndict=0, p_fail=0.1):
    m = rng.choice(METHODS) if rng.random() < 0.5 else "get"
    fail = " " + rng.choice(GEN_FAILS) if rng.random() < p_fail else ""
    return "req %d %s %s%s" % (rng.choice(conns), _src(rng, ndict, p_none), m, fail)


def _sched(rng, kind, nthreads, nreq, L, A, R):
    total = L * max(1, max(nreq))
    if kind == "empty":
        return []
    if kind == "rr1":
        return [(t, 1) for _ in range(total + 5) for t in range(nthreads)]
    if kind == "grid":
        return [(t, rng.randrange(0, L + 2)) for t in range(nthreads)]
    if kind == "prologue":      # everybody is stopped before / around the acquire of its first call
        out = [(t, rng.randrange(0, A + 5)) for t in range(nthreads)]
        rng.shuffle(out)
        return out + [(rng.randrange(nthreads), rng.randrange(1, L)) for _ in range(rng.randrange(0, 3))]
    if kind == "critical":      # everybody is stopped somewhere between the acquire and the release
        out = [(t, rng.randrange(A, R + 3)) for t in range(nthreads)]
        rng.shuffle(out)
        return out + [(rng.randrange(nthreads), rng.randrange(1, L)) for _ in range(rng.randrange(0, 4))]
    if kind == "blocks":
        out = [(t, L) for t in range(nthreads) for _ in range(nreq[t])]
        rng.shuffle(out)
        return out
    out = []                    # random runs
    mean = rng.choice([1, 2, 4, 8, 16])
    for _ in range(rng.randrange(1, 3 * nthreads * total // mean + 2)):
        out.append((rng.randrange(nthreads), rng.randrange(1, 2 * mean + 1)))
    return out


def enc_sched(s):
    return ",".join("%d*%d" % tn for tn in s) if s else "-"


def _par_line(rng, conns, kind, L, A, R, nthreads=None, p_none=0.8, dicts=()):
    """dicts: contents of the caller dicts declared so far (requests may pass them by reference)"""
    nthreads = nthreads or rng.choice([2, 2, 2, 3, 3, 4])
    threads, nreq = [], []
    for _ in range(nthreads):
        reqs = []
        for _ in range(rng.choice([1, 1, 2, 2, 3, 0])):
            if dicts and rng.random() < 0.35:
                k = rng.randrange(len(dicts))
                reqs.append((rng.choice(conns), "#%d" % k, dicts[k]))
            else:
                h = _rand_headers(rng, p_none)
                reqs.append((rng.choice(conns), enc_hdrs(h), h))
        threads.append(reqs)
        nreq.append(sum(1 for _, _, h in reqs if not any(_is_id_name(k) for k, _ in h)))
    spec = "|".join("." if not t else "+".join(
        "%d@%s%s" % (c, src, "!" + rng.choice(GEN_FAILS) if rng.random() < 0.1 else "") for c, src, _ in t)
        for t in threads)
    op = "parraw" if rng.random() < 0.25 else "par"       # parraw: workers the `threading` module does not know
    return "%s %d %s %s" % (op, conns[0], spec, enc_sched(_sched(rng, kind, nthreads, nreq, L, A, R)))


SCHED_KINDS = ["random", "random", "random", "rr1", "grid", "grid", "critical", "critical", "blocks", "empty"]


def _dict_contents(lines):
    return [dec_hdrs(l.split()[1]) for l in lines if l.startswith("dict ")]


def corpus():
    x = enc_str("ab12")
    out = []
    # the header-case defect repaired by 074d1c0: every spelling of the name is the caller's id
    for name in ("x-request-id", "X-Request-Id", "X-request-id", "X-REQUEST-ID"):
        out.append({"lines": ["new %s 1" % x, "req 0 _", "req 0 %s" % enc_hdrs([(name, "Zmine")]), "req 0 _"],
                    "meta": {"kind": "corpus-header-case"}})
    out.append({"lines": ["new %s 1" % x, wrap_line(0, "bauth"), wrap_line(1, "prefix"), "req 2 _", "req 0 _", "req 1 _",
                          "new %s 1" % enc_str("ffff"), "req 3 _", "req 2 _"], "meta": {"kind": "corpus-derived"}})
    # every constructor over every kind of parent draws from the parent's counter
    lines, n = ["new %s 1 list" % x], 1
    for parent_kind in (None, "plain", "prefix", "bauth"):
        p = 0
        if parent_kind:
            lines.append(wrap_line(0, parent_kind))
            p, n = n, n + 1
        for kind in KINDS:
            if parent_kind == "bauth" and kind in ("bauth", "token", "client"):
                continue
            lines += [wrap_line(p, kind), "req %d _" % n, "req %d _" % p, "req 0 _"]
            n += 1
    out.append({"lines": lines, "meta": {"kind": "corpus-constructors"}})
    # independent (not derived) connections to the same server, equal or equivalent addresses of every scheme:
    # each counts on its own, gap-free
    for addr in sorted(ADDRESSES):
        lines = ["new %s 1 str %s" % (x, addr), "new %s 1 str %s" % (enc_str("ffff"), addr),
                 "new %s 1 slash %s" % (enc_str("9a0c"), addr), "new %s 1 dict %s" % (enc_str("dead"), addr)]
        for c in (0, 1, 0, 2, 1, 3, 0, 1, 2, 3, 0):
            lines.append("req %d _" % c)
        lines += ["par 0 0@_|0@_ 0*4,1*9", "req 1 _", "parraw 1 1@_|1@_ 0*6,1*3", "req 0 _", "req 1 _"]
        out.append({"lines": lines, "meta": {"kind": "corpus-independent-connections"}})
    # ids supplied through an adapter of the caller's: sent as they are, no number is taken
    out.append({"lines": ["new %s 1" % x, wrap_line(0, "idset", "Zfrom-adapter"), wrap_line(0, "idpolite", "Zpolite"),
                          wrap_line(1, "bauth"), "req 0 _", "req 1 _", "req 2 _", "req 0 _", "req 3 _ post",
                          "req 2 %s" % enc_hdrs([("x-request-id", "Zown")]), "req 1 %s" % enc_hdrs([("x-request-id", "Zown")]),
                          "par 0 1@_+0@_|2@_+0@_ 0*4,1*8", "req 0 _"], "meta": {"kind": "corpus-id-adapters"}})
    # adapters attached with add_adapter(): to a used connection, before and after deriving connections from it
    out.append({"lines": ["new %s 1" % x, wrap_line(0, "plain"), "req 0 _", addad_line(0, "idpolite", "Zin1"),
                          wrap_line(0, "bauth"), "req 0 _", "req 2 _ post", "req 1 _", addad_line(1, "idset", "Zin2"),
                          "req 1 _", "req 1 %s" % enc_hdrs([("x-request-id", "Zown")]), "req 0 %s" % enc_hdrs([("X-Request-ID", "Zown")]),
                          addad_line(2, "prefix"), "req 2 _", "par 0 0@_+1@_|2@_+1@_ 0*4,1*8",
                          "new %s 1" % enc_str("ffff"), addad_line(3, "token"), "req 3 _", "req 3 _", "req 1 _"],
                "meta": {"kind": "corpus-add-adapter"}})
    # one caller dict passed to many requests, through several connections of the family, also concurrently
    out.append({"lines": ["new %s 1" % x, wrap_line(0, "token"), "dict " + enc_hdrs([("Accept", "*/*")]),
                          "req 0 #0", "req 0 #0 post", "req 1 #0", "par 0 0@#0+1@#0|1@#0|0@#0 0*4,1*9,2*2", "req 1 #0 put",
                          "dict _", "req 0 #1", "req 0 #1"], "meta": {"kind": "corpus-dict-reuse"}})
    # the opener fails after it was handed the request (network error, HTTP error status, timeout, anything):
    # the failed request had its id; the numbering goes on, on the base and on derived connections
    lines = ["new %s 1" % x, wrap_line(0, "bauth"), wrap_line(0, "plain"), "req 0 _"]
    for kind in GEN_FAILS:
        lines += ["req 1 _ get %s" % kind, "req 0 _", "req 2 _ post %s" % kind, "req 1 _", "req 0 _ put %s" % kind, "req 2 _"]
    lines += ["par 0 0@_!url+0@_|1@_!http+2@_|2@_!timeout 0*7,1*9,2*3", "req 0 _"]
    out.append({"lines": lines, "meta": {"kind": "corpus-failing-opener"}})
    # the answer arrives (200) but cannot be processed: body that is no JSON / no UTF-8, a response adapter of the
    # caller's that rejects it; raw_response=True does not look at the body.  The request was sent: its number is used
    out.append({"lines": ["new %s 1" % x, wrap_line(0, "respfail"), wrap_line(1, "token"), "req 0 _",
                          "req 0 _ get badjson", "req 0 _", "req 1 _ post badutf", "req 0 _", "req 1 _ get respad", "req 1 _",
                          "req 2 _ put respad", "req 0 _", "req 2 _ get raw", "req 0 _ get raw", "req 0 _",
                          "par 0 0@_!badjson+0@_|1@_!respad+2@_|2@_!badutf 0*7,1*9,2*3", "req 0 _"],
                "meta": {"kind": "corpus-answer-not-processed"}})
    out.append({"lines": ["new %s 1" % x, "req 0 _", "burst 0 10050", "req 0 _", "burst 0 3"],
                "meta": {"kind": "corpus-burst-10000"}})
    # self-test of the search machinery: on the extracted program the model finds no schedule that repeats a number
    out.append({"lines": ["new %s 1" % x, "enum 2 1 1000000", "enum 3 1 3000000", "enum 2 2 3000000"],
                "meta": {"kind": "corpus-model-enumeration"}})
    out.append({"lines": ["new %s 0" % x, "req 0 _", "req 0 %s" % enc_hdrs([("X-Request-ID", "Zq")]),
                          "par 0 0@_|0@_ 0*5,1*9"], "meta": {"kind": "corpus-ids-disabled"}})
    return out


def gen_cases(rng, tier):
    if _TIER[0] is None:
        _TIER[0] = tier
    L, A, R = _prog_info()
    quick = tier == "quick"
    # sequential scenarios
    for _ in range(1200 if quick else 20000):
        lines = []
        fams, ndict, auth = _prelude(rng, lines)
        allc = [c for _, (ids, cs) in fams.items() for c in cs]
        added = False
        for _ in range(rng.randrange(3, 25)):
            lines.append(_req_line(rng, allc, ndict=ndict))
            if rng.random() < 0.03:
                lines.append("burst %d %d" % (rng.choice(allc), rng.randrange(1, 40)))
            if rng.random() < 0.012:         # add_adapter on a connection that has been used
                lines.append(_rand_addad(rng, rng.choice(allc), auth))
                added = True
        if rng.random() < 0.12:
            lines.insert(0, "log debug")
        yield {"lines": lines, "meta": {"kind": "sequential" + ("-dicts" if ndict else "") + ("-addad" if added else "")}}
    # malformed stream: connections / dicts that do not exist, an Authorization header of the caller's or two
    # authenticating layers (the adapters refuse both with AssertionError, no id is taken)
    for _ in range(80 if quick else 1500):
        lines = ["new %s 1 str" % enc_str(rng.choice(CPS))]
        kinds = [rng.choice(KINDS) for _ in range(rng.randrange(1, 4))]
        for k, kind in enumerate(kinds):
            lines.append(wrap_line(rng.randrange(0, k + 1), kind))
        lines.append("dict " + enc_hdrs([("Authorization", "Zsecret")] if rng.random() < 0.5 else [("Accept", "*/*")]))
        n = len(kinds) + 1
        for _ in range(rng.randrange(3, 10)):
            x = rng.random()
            c = rng.randrange(n) if x > 0.15 else n + rng.randrange(3)
            src = "#%d" % (0 if rng.random() < 0.8 else 1 + rng.randrange(2)) if rng.random() < 0.4 else \
                enc_hdrs(([("Authorization", "Zmine")] if rng.random() < 0.4 else []) + _rand_headers(rng, 0.6))
            lines.append("req %d %s %s" % (c, src, rng.choice(METHODS)))
        if rng.random() < 0.3:
            lines.append("wrap %d plain none" % (n + 1))
            lines.append("par %d 0@_|0@_ 0*3" % (n + 2))
        if rng.random() < 0.3:             # add_adapter: no such connection / a second authenticating adapter
            lines.append(addad_line(n + rng.randrange(3) if rng.random() < 0.4 else rng.randrange(n),
                                    rng.choice(ADD_KINDS), "Zlate"))
            lines.append("req %d _" % rng.randrange(n))
        lines.append("req 0 _")
        yield {"lines": lines, "meta": {"kind": "malformed"}}
    # answers that cannot be processed (through a connection whose response adapter may reject them), then more requests
    for _ in range(60 if quick else 1500):
        lines = ["new %s 1 str" % enc_str(rng.choice(CPS)), wrap_line(0, "respfail")]
        n = 2
        if rng.random() < 0.5:
            lines.append(wrap_line(1, rng.choice(KINDS)))
            n = 3
        for _ in range(rng.randrange(4, 14)):
            c = rng.randrange(n)
            kinds = ["badjson", "badutf", "raw"] + (["respad", "respad"] if c >= 1 else [])
            fail = " " + rng.choice(kinds) if rng.random() < 0.45 else ""
            lines.append("req %d %s %s%s" % (c, enc_hdrs(_rand_headers(rng, 0.8)), rng.choice(METHODS), fail))
        yield {"lines": lines, "meta": {"kind": "answer-not-processed"}}
    # adapters attached with add_adapter(): on a base or a derived connection, before / after requests, before /
    # after further connections are derived from it; requests through all of them, sequential and concurrent
    for n in range(90 if quick else 3000):
        lines = ["new %s 1 %s" % (enc_str(rng.choice(CPS)), rng.choice(["str", "list", "dict", "slash"]))]
        auth = {0: False}

        def derive():
            parent = rng.randrange(len(auth))
            kind = rng.choice(["plain", "prefix"] if auth[parent] else KINDS)
            if rng.random() < 0.1:
                kind = rng.choice(sorted(ID_KINDS))
            auth[len(auth)] = auth[parent] or kind in ("bauth", "token", "client")
            return wrap_line(parent, kind, _rand_value(rng))
        for _ in range(rng.choice([0, 1, 2])):
            lines.append(derive())
        for _ in range(rng.randrange(2, 6)):
            x = rng.random()
            if x < 0.4:
                lines.append(_rand_addad(rng, rng.randrange(len(auth)), auth))
            elif x < 0.6:
                lines.append(derive())
            for _ in range(rng.randrange(1, 4)):
                lines.append(_req_line(rng, list(range(len(auth))), 0.8, p_fail=0.05))
        if n % 3 == 0:
            lines.append(_par_line(rng, list(range(len(auth))), rng.choice(SCHED_KINDS), L, A, R))
            lines.append("req 0 _")
        yield {"lines": lines, "meta": {"kind": "add-adapter"}}
    # forced interleavings; every third scenario starts them on a connection that has not been used yet
    for n in range(800 if quick else 20000):
        lines = []
        fams, ndict, _auth = _prelude(rng, lines)
        f = rng.choice(list(fams))
        ids, conns = fams[f]
        allc = [c for _, (_, cs) in fams.items() for c in cs]
        fresh = n % 3 == 0
        if not fresh:
            for _ in range(rng.randrange(1, 4)):
                lines.append(_req_line(rng, allc, ndict=ndict))
        kind = SCHED_KINDS[(n // 3) % len(SCHED_KINDS)] if not fresh else rng.choice(["prologue", "prologue", "grid", "rr1"])
        dicts = _dict_contents(lines)
        for _ in range(rng.choice([1, 1, 2])):
            lines.append(_par_line(rng, conns, kind, L, A, R, dicts=dicts))
            lines.append(_req_line(rng, conns, 1.0, ndict=ndict))
        if rng.random() < 0.08:
            lines.insert(0, "log debug")
        yield {"lines": lines, "meta": {"kind": "par-" + kind + ("-fresh" if fresh else "")}}
    # exhaustive small scope: two threads, one call each on a brand-new connection, each stopped at every position
    for a in range(0, L + 1):
        for b in range(0, L + 1):
            for op in (["par", "parraw"] if not quick else ["parraw" if (a + b) % 2 else "par"]):
                yield {"lines": ["new %s 1" % enc_str("ab12"), wrap_line(0, "bauth"),
                                 "%s 0 0@_|1@_ 0*%d,1*%d" % (op, a, b), "req 0 _"],
                       "meta": {"kind": "par-grid2-fresh"}}
    if not quick:
        for a in range(0, L + 1, 4):
            for b in range(0, L + 1, 4):
                for c in range(0, L + 1, 4):
                    yield {"lines": ["new %s 1" % enc_str("ab12"),
                                     "par 0 0@_+0@_|0@_+0@_|0@_ 0*%d,1*%d,2*%d,0*%d" % (a, b, c, L), "req 0 _"],
                           "meta": {"kind": "par-grid3-fresh"}}
        yield {"lines": ["new %s 1" % enc_str("ab12"), "burst 0 100050", "req 0 _"], "meta": {"kind": "burst-100000"}}


# ====================================================================== directed search
def _ask_driver(lines):
    import subprocess
    exe = os.path.join(LEAN, ".lake", "build", "bin", "drv_c16")
    if not os.path.exists(exe):
        return []
    try:
        p = subprocess.run([exe], input="\n".join(lines) + "\n", stdout=subprocess.PIPE, text=True, timeout=120)
        return p.stdout.split("\n")
    except Exception:
        return []


def search_cases(rng, tier):
    x = enc_str("ab12")
    L, A, R = _prog_info()
    # 1. schedules on which the model (extracted program) hands out a number twice, replayed on the real code
    for k, n in ((2, 1), (2, 2), (3, 1)):
        out = _ask_driver(["reset", "enum %d %d 3000000" % (k, n)])
        if len(out) >= 2 and out[1].startswith("found "):
            spec = "|".join("+".join(["0@_"] * n) for _ in range(k))
            yield {"lines": ["new %s 1" % x, "par 0 %s %s" % (spec, out[1].split()[1]), "req 0 _"],
                   "meta": {"kind": "search-model-schedule"}}
    # 2. every capitalisation of the header name
    base = "x-request-id"
    letters = [i for i, c in enumerate(base) if c.isalpha()]
    for mask in range(1 << len(letters)):
        name = list(base)
        for b, i in enumerate(letters):
            if mask >> b & 1:
                name[i] = name[i].upper()
        yield {"lines": ["new %s 1" % x, "req 0 _", "req 0 %s" % enc_hdrs([("".join(name), "Zmine")]), "req 0 _"],
               "meta": {"kind": "search-header-case"}}
    # 2b. one caller dict passed again and again (state left in the caller's object)
    for pairs in ([("Accept", "*/*")], [], [("X-Trace", "Zt"), ("Accept", "*/*")]):
        for kind in (None, "plain", "bauth", "prefix"):
            lines = ["new %s 1" % x] + ([wrap_line(0, kind)] if kind else []) + ["dict " + enc_hdrs(pairs)]
            c = 1 if kind else 0
            lines += ["req %d #0" % c, "req %d #0 post" % c, "req 0 #0", "par 0 0@#0|%d@#0 0*3,1*4" % c, "req 0 _"]
            yield {"lines": lines, "meta": {"kind": "search-dict-reuse"}}
    # 2b'. ids that come from an adapter of the caller's
    for kind in sorted(ID_KINDS):
        yield {"lines": ["new %s 1" % x, wrap_line(0, kind, "Zad"), "req 0 _", "req 1 _", "req 0 _", "req 1 _ post", "req 0 _"],
               "meta": {"kind": "search-id-adapter"}}
    # 2b'+. ... attached with add_adapter() instead of a constructor: before any request / after some, on the base /
    #       on a derived connection, with a connection derived afterwards
    for kind in ADD_KINDS:
        for on in (0, 1):
            for early in (True, False):
                lines = ["new %s 1" % x, wrap_line(0, "plain")]
                lines += [addad_line(on, kind, "Zad")] if early else ["req 0 _", "req 1 _", addad_line(on, kind, "Zad")]
                lines += [wrap_line(on, "prefix"), "req 0 _", "req 1 _", "req 2 _ post", "req %d _" % on, "req 0 _", "req 1 _"]
                yield {"lines": lines, "meta": {"kind": "search-add-adapter"}}
    # 2b''. DEBUG logging effective
    yield {"lines": ["log debug", "new %s 1" % x, wrap_line(0, "bauth"), "req 0 _", "req 1 _ post",
                     "req 0 %s" % enc_hdrs([("x-request-id", "Zown")]), "par 0 0@_|1@_ 0*5", "req 0 _"],
           "meta": {"kind": "search-debug-logging"}}
    # 2b3. several independent connections to one server
    for addr in sorted(ADDRESSES):
        for form2 in ("str", "slash"):
            yield {"lines": ["new %s 1 str %s" % (x, addr), "new %s 1 %s %s" % (enc_str("ffff"), form2, addr),
                             "req 0 _", "req 1 _", "req 0 _", "req 1 _", "req 0 _"],
                   "meta": {"kind": "search-independent-connections"}}
    # 2c. requests that fail in the opener, then more requests
    for kind in sorted(FAILURES):
        for c in (0, 1):
            yield {"lines": ["new %s 1" % x, wrap_line(0, "respfail"), "req 0 _", "req %d _ get %s" % (1 if kind == "respad" else c, kind), "req 0 _", "req 1 _",
                             "par 0 0@_!%s|1@_ 0*5" % kind, "req 0 _"], "meta": {"kind": "search-failing-opener"}}
    # 3. the real function on a brand-new connection (first call / first call), two threads stopped at every
    #    pair of positions, then two calls each
    for a in range(0, L + 3):
        for b in range(0, L + 3):
            yield {"lines": ["new %s 1" % x, "par 0 0@_|0@_ 0*%d,1*%d" % (a, b), "req 0 _"],
                   "meta": {"kind": "search-grid2"}}
            if (a + b) % 2 == 0:
                yield {"lines": ["new %s 1" % x, "parraw 0 0@_|0@_ 0*%d,1*%d" % (a, b), "req 0 _"],
                       "meta": {"kind": "search-grid2-raw-threads"}}
    for a in range(0, L + 3, 2):
        for b in range(0, L + 3, 2):
            yield {"lines": ["new %s 1" % x, "par 0 0@_+0@_|0@_+0@_ 0*%d,1*%d,0*%d,1*%d" % (a, b, L, L), "req 0 _"],
                   "meta": {"kind": "search-grid2x2"}}
    # 4. numbers far apart (a format that drops digits)
    for n in (1005, 10050, 20010, 100010):
        yield {"lines": ["new %s 1" % x, "burst 0 %d" % n, "req 0 _"], "meta": {"kind": "search-burst"}}
    # 5. everything in ak/conn_http.py at bytecode granularity (the id code was moved or inlined)
    for a in range(0, 1500, 1):
        yield {"lines": ["new %s 1" % x, "parw 0 0@_|0@_ 0*%d,1*%d" % (a, DRAIN_RUN), "req 0 _"],
               "meta": {"kind": "search-wide"}}
    for _ in range(3000):
        yield {"lines": ["new %s 1" % x, "parw 0 0@_+0@_|0@_+0@_ %s" % enc_sched(
            [(rng.randrange(2), rng.randrange(1, 120)) for _ in range(rng.randrange(2, 30))]), "req 0 _"],
            "meta": {"kind": "search-wide-random"}}


# ====================================================================== shrinking, statistics
def _refs(line):
    """(connection indices, dict indices) a line refers to"""
    t = line.split()
    conns, dicts = set(), set()
    if t[0] in ("wrap", "burst", "addad"):
        conns.add(int(t[1]))
    elif t[0] == "req":
        conns.add(int(t[1]))
        if t[2].startswith("#"):
            dicts.add(int(t[2][1:]))
    elif t[0] in ("par", "parw", "parraw"):
        conns.add(int(t[1]))
        for th in t[2].split("|"):
            for r in ([] if th == "." else th.split("+")):
                c, src = r.split("!")[0].split("@")
                conns.add(int(c))
                if src.startswith("#"):
                    dicts.add(int(src[1:]))
    return conns, dicts


def shrink(case):
    lines = case["lines"]
    meta = case.get("meta", {})
    # the last connection / the last caller dict, when nothing uses it
    for kinds, which in ((("new", "wrap"), 0), (("dict",), 1)):
        made = [i for i, l in enumerate(lines) if l.split()[0] in kinds]
        if made and not any(len(made) - 1 in _refs(l)[which] for l in lines[made[-1] + 1:]) \
                and not (which == 0 and len(made) == 1):
            yield {"lines": lines[:made[-1]] + lines[made[-1] + 1:], "meta": meta}
    for i in range(len(lines) - 1, -1, -1):
        if lines[i].split()[0] in ("req", "burst", "par", "parw", "parraw", "log", "addad"):
            yield {"lines": lines[:i] + lines[i + 1:], "meta": meta}
    for i, l in enumerate(lines):
        tok = l.split()
        if tok[0] in ("par", "parw", "parraw"):
            runs = [] if tok[3] == "-" else tok[3].split(",")
            for j in range(len(runs)):
                yield {"lines": lines[:i] + [" ".join(tok[:3] + [",".join(runs[:j] + runs[j + 1:]) or "-"])] + lines[i + 1:],
                       "meta": meta}
            ths = tok[2].split("|")
            for j, t in enumerate(ths):
                rs = [] if t == "." else t.split("+")
                for k in range(len(rs)):
                    t2 = "+".join(rs[:k] + rs[k + 1:]) or "."
                    yield {"lines": lines[:i] + [" ".join([tok[0], tok[1], "|".join(ths[:j] + [t2] + ths[j + 1:]), tok[3]])]
                           + lines[i + 1:], "meta": meta}
        elif tok[0] == "burst" and int(tok[2]) > 1:
            for n in (int(tok[2]) // 2, int(tok[2]) - 1):
                yield {"lines": lines[:i] + ["burst %s %d" % (tok[1], n)] + lines[i + 1:], "meta": meta}
        elif tok[0] == "req" and tok[2] != "_" and not tok[2].startswith("#"):
            pairs = dec_hdrs(tok[2])
            for j in range(len(pairs)):
                yield {"lines": lines[:i] + [" ".join(["req", tok[1], enc_hdrs(pairs[:j] + pairs[j + 1:])] + tok[3:])]
                       + lines[i + 1:], "meta": meta}


def nontrivial(case, replies):
    n = 0
    for l, r in zip(case["lines"], replies):
        t = l.split()[0]
        if t in ("par", "parw", "parraw") and "|" in l.split()[2]:
            return True
        if t == "burst" or (t == "req" and r.startswith("sent ") and r != "sent none"):
            n += 1
    return n >= 2


def tags(case, replies):
    yield case.get("meta", {}).get("kind", "?")
    dicts, used, parent_kind = [], {}, {}
    requested, has_child, added_to = set(), set(), set()
    seen_addr = set()
    nconn = 0
    for l, r in zip(case["lines"], replies):
        t = l.split()
        if t[0] == "log":
            yield "log:" + t[1]
        elif t[0] == "dict":
            dicts.append(dec_hdrs(t[1]))
            yield "dict:" + ("empty" if not dicts[-1] else "with-id" if any(_is_id_name(k) for k, _ in dicts[-1]) else "plain")
        elif t[0] == "new":
            parent_kind[nconn] = "base"
            nconn += 1
            yield "new:form=" + (t[3] if len(t) > 3 else "str") + (":ids" if t[2] == "1" else ":no-ids")
            yield "new:addr=" + (t[4] if len(t) > 4 else "h") + (":again" if (t[4] if len(t) > 4 else "h") in seen_addr else "")
            seen_addr.add(t[4] if len(t) > 4 else "h")
        elif t[0] == "req":
            requested.add(int(t[1]))
            if int(t[1]) in added_to:
                yield "req:through-added-adapter"
            ref = t[2].startswith("#")
            pairs = dicts[int(t[2][1:])] if ref and int(t[2][1:]) < len(dicts) else [] if ref else dec_hdrs(t[2])
            if ref:
                used[t[2]] = used.get(t[2], 0) + 1
                yield "req:caller-dict" + (":again" if used[t[2]] > 1 else ":first")
            if any(_is_id_name(k) for k, _ in pairs):
                yield "req:caller-id" + ("" if any(k == "X-Request-ID" for k, _ in pairs) else ":other-case")
            elif r.startswith("err"):
                yield "req:" + r.replace(" ", ":")
            else:
                yield "req:auto" if not r.startswith("sent none") else "req:no-id"
            if len(t) > 3 and t[3] in ("post", "put", "patch"):
                yield "req:with-body"
            if len(t) > 4:
                yield "req:opener-fails:" + t[4]
        elif t[0] in ("par", "parw", "parraw"):
            yield "par:threads=%d" % len(t[2].split("|"))
            if t[0] == "parraw":
                yield "par:raw-threads"
            yield "par:reply=" + r.split()[0] + (":" + r.split()[1] if r.startswith("err") else "")
            if "#" in t[2]:
                yield "par:caller-dict"
            if "!" in t[2]:
                yield "par:opener-fails"
        elif t[0] == "addad":
            c = int(t[1])
            yield "addad:%s-on-%s" % (t[2], parent_kind.get(c, "?")) + ("" if r == "ok" else ":" + r.replace(" ", ":"))
            if r == "ok":
                yield "addad:" + ("after-requests" if c in requested else "before-requests") + \
                    (":has-children" if c in has_child else "")
                added_to.add(c)
        elif t[0] == "wrap":
            p = int(t[1])
            has_child.add(p)
            if p in added_to:
                yield "wrap:over-connection-with-added-adapter"
            yield "wrap:%s-over-%s" % (t[2], parent_kind.get(p, "?"))
            parent_kind[nconn] = t[2]
            nconn += 1


RULE = ("sequential scenarios (1-3 independent connection families, half of them to the same server (http / https / "
        "other port / other capitalisation, with and without trailing slash), built from 4 forms of conn_data, derived connections of 5 kinds "
        "over every kind of parent, 3-25 requests with no / unrelated / near-miss / caller-supplied id headers in many "
        "capitalisations, passed in a dict built for the call or in one of 1-3 dicts the caller keeps and passes "
        "again (also through other connections of the family and concurrently), with and without a json body, "
        "8 % of them failing in the opener after the request was handed over (URLError, HTTPError, timeout, "
        "RemoteDisconnected, ConnectionResetError, BrokenPipeError, RuntimeError; every time a request reaches "
        "the opener counts as a send) and followed by further requests, ~10 % of the scenarios with DEBUG logging "
        "effective for the module's logger, answers (200) whose processing fails after the request went out "
        "(body not JSON / not UTF-8, a rejecting response adapter; raw_response=True as the control), "
        "bursts across 9999->10000), "
        "adapters attached with add_adapter() (id-propagating 'always' / 'only if the request has no id', path prefix, the three "
        "authenticating adapters; on a base or a derived connection of every kind, before or after its first requests, before or "
        "after further connections are derived from it; ~7 % of the connections of the ordinary scenarios plus a dedicated stream, "
        "requests through every connection of the family afterwards, sequential and concurrent), "
        "forced interleavings of 2-4 real threads (a quarter of them raw _thread threads unknown to `threading`) x 0-3 requests inside the real _generate_request_id (random runs, "
        "round robin, everybody stopped inside the locked section / in the prologue of its first call, whole-call "
        "blocks, stop positions grid; every third scenario on a connection that has never been used), "
        "all pairs of stop positions for 2 threads on a brand-new connection. non-trivial = a par line with >= 2 threads "
        "or >= 2 id-carrying sequential requests; distinct by protocol text")
TRUSTED = ["CPython switches threads only between bytecode instructions (GIL)", "threading.Lock (mutual exclusion)",
           "sys.settrace opcode events = the instructions dis lists (cross-checked against a traced call on every run)",
           "urllib.request.Request header capitalisation (what is observed is what it reports under 'X-request-id')"]
ASSUMPTIONS = ["the counter is an int whenever _generate_request_id runs (do_request tests `is not None` first; "
               "the translator follows the not-None branch)",
               "registers are written before they are read in the extracted straight-line program"]
KNOWN = {}

LEVEL_TEXT = ("Proved in Lean for every program of the WellLocked shape, any number of threads and EVERY schedule "
              "(invariant + ghost-log refinement to 'take a number atomically', no enumeration): returned numbers "
              "pairwise distinct within and between threads (locked_unique); at any moment every number below the "
              "counter is had (returned to, or held after its write by) exactly one thread and nothing else is "
              "returned (locked_gap_free, one-owner form); increasing per thread (locked_in_order); par_ids / par_total = the function "
              "the driver executes for a forced schedule always terminates (no deadlock; par_total under the fuel "
              "hypothesis reqs[t] * program length <= 10^6 drain steps, which the driver does not check) and hands "
              "out exactly "
              "{c..c'-1}, c' - c = number of calls; par_world = the same on what is sent: ids of concurrent requests "
              "of one connection family are pairwise distinct renderings of the next #ids numbers, requests with "
              "their own id keep their headers and take nothing, caller dicts untouched. Sequential, whole "
              "do_request header path (request_spec, request_caller_id, request_auto_sent): RequestArguments copy, "
              "Authorization adapters, id branch, content type - a caller id in any capitalisation is what is sent "
              "and moves no counter; otherwise counter + 1 and the rendering of the old counter is sent; the "
              "caller's dict objects (heap) are never written, so nothing is left over for a later request with the "
              "same dict. derived_shares: for EVERY connection class of the source (constructors_share, read from "
              "the constructors' bytecode) a derived connection refers to its parent's implementation object. "
              "Obligations re-decided from the source on every run: program_ok, format_ok, header_test_ok, "
              "hdr_init_ok, constructors_share, new_allocates_ok (a connection made from an address always gets "
              "a new implementation object - no pooling per server; new_fresh_counter: it counts from 0 on its own "
              "and nothing that existed changes; its well-formedness hypothesis is proved for every world reachable by a "
              "history of operations - reachable_wf - and new_fresh_counter_reachable states it without hypothesis), no_other_writer (nothing a request reaches except "
              "_generate_request_id assigns counter / lock / connection part: a request that fails in the opener "
              "keeps its number, and the logging helpers do not modify the request they log), program_fuel. request_supplied_id: an id present after the adapters ran (the "
              "caller's header or one put there by an adapter of the caller's) is sent and takes no number. "
              "request_supplied_value / request_id_adapter: with an id-supplying adapter of the caller's ANYWHERE in the "
              "chain of the connection object (constructor argument, inherited from the parent, or attached with "
              "add_adapter() at any moment - add_adapter_spec: appended to that connection's list only, nothing "
              "else changes; derived_inherits_adapters: a connection derived later copies the list) every successful "
              "request sends one of the supplied ids (the caller's id headers or the ids of the chain's id adapters - "
              "the very set the oracle accepts) and no counter moves; added_id_adapter_request = add_adapter() then a request. "
              "format_injective. History level (history_ids_distinct / history_from_scratch): over ANY list of "
              "operations (new connections, derived connections of any class, add_adapter() calls, caller dicts, sequential requests "
              "with or without own id / body, concurrent batches under any schedule) no implementation object ever "
              "sends the same generated id twice and every sent generated id renders a number below its counter; "
              "sequential requests carry their outcome (answered / opener raised / answer not processed); that "
              "the number a sent request took stays taken when the opener raises or the answer cannot be processed is a "
              "MODELLING DECISION (the model has no step that gives a number back), not a theorem: it rests on the "
              "translator's no_other_writer flag and on the tie (failing requests followed by further ones, id by id). "
              "par_link: World.par (what the driver calls) = adapters, then parCore (what par_world is about); "
              "parCore_total: parCore cannot fail on well-formed input (its AssertionError branch is unreachable). "
              "model = code: sequential scenarios "
              "(incl. reuse of caller dicts, all constructor pairs) and forced interleavings of real threads inside "
              "the real function (opcode-level scheduler, also on never-used connections) compared id by id and "
              "caller dict by caller dict with the compiled model.")
LEVEL_NOTE = ("Only _generate_request_id is interleaved at bytecode granularity (in the model and by the forced "
              "scheduler of the tie); the rest of do_request is executed atomically per request in the model - its "
              "only shared state is the counter, which it reads once for the None test (checked by the translator: "
              "no other writer). Partial by nature: CPython's 'threads switch only between bytecodes' and threading.Lock are trusted, not "
              "proved; exception paths of the with statement (asynchronous exceptions) are not modelled; the "
              "translator (dis + symbolic stack evaluation, cross-checked against a traced call; pattern checks of "
              "the constructors and of RequestArguments.__init__) and the adapter are trusted; model = code only on "
              "the sampled scenarios and schedules (all pairs of stop positions for two threads on a fresh "
              "connection are exhaustive). Hand-modelled around generated constants: the order of the steps of "
              "do_request, that the dict of the request arguments is the one handed to urllib, the Authorization / "
              "Content-Type names; adapters: the authenticating ones, the path prefix and two id-propagating adapters "
              "of the harness are modelled (given to a constructor or attached with add_adapter()), others are not - in particular "
              "adapters with state that changes between requests; an id supplied by an adapter of the caller's counts as "
              "'supplied by the caller' (the property's mechanism: the id is attached only when none is present after the "
              "adapters ran); whether an adapter attached to a connection reaches connections derived from it EARLIER is "
              "not part of the property (the oracle accepts both; the model follows the code: it does not); "
              "that add_adapter appends to the list do_request iterates is hand-modelled (no generated constant: the tie and the seeds cover it); concurrent requests are modelled without body and with copy semantics only; header names "
              "are ASCII; that the lock object exists before the first call is established by the translator "
              "(it refuses a lock that is not a plain attribute read) and by first-call schedules in the tie.")
TECHNIQUE = ("Lean 4 invariant proof over all schedules of a bytecode-extracted instruction list + heap model of "
             "connections / caller dicts with constants read from bytecode + decide on the generated constants + "
             "forced-interleaving differential test (sys.settrace opcode scheduler)")
