"""C12 — tables are rectangular, aligned, width-bounded and account for every record (ak/ppobj.py PPTable)."""
import ast
import os
import random

from harness.core import enc_str, dec_str

PROPERTY = "C12"
READY = True
THEOREMS = [
    "C12.marks", "C12.resize_exact", "C12.fit_exact", "C12.blanks_are_blanks", "C12.width_bounds",
    "C12.reach_width_inv", "C12.width_bounds_reachable", "C12.rectangular", "C12.separators",
    "C12.cell_content", "C12.service_lines", "C12.cell_default", "C12.full_when_fits", "C12.cell_len_exact", "C12.title_content", "C12.limits",
    "C12.print_twice", "C12.interleaved", "C12.interleaved_run", "C12.snapshot_kept", "C12.fmt_obj_same", "C12.ctor_options", "C12.fmt_obj_ignores_printing", "C12.field_positions",
    "C12.setter_bounds", "C12.ctor_bounds", "C12.widths_faithful",
]


# ------------------------------------------------------------------ translator
class _Refuse(ValueError):
    pass


def _find_class(tree, name):
    for node in ast.walk(tree):
        if isinstance(node, ast.ClassDef) and node.name == name:
            return node
    raise _Refuse("class %s not found" % name)


def _find_func(cls, name):
    for node in cls.body:
        if isinstance(node, ast.FunctionDef) and node.name == name:
            return node
    raise _Refuse("method %s.%s not found" % (cls.name, name))


def _const_str(node, what):
    if isinstance(node, ast.Constant) and isinstance(node.value, str):
        return node.value
    raise _Refuse("%s is not a string literal" % what)


def _const_nat(node, what):
    if isinstance(node, ast.Constant) and isinstance(node.value, int) and not isinstance(node.value, bool) and node.value >= 0:
        return node.value
    raise _Refuse("%s is not a natural number literal" % what)


def _joined_parts(node, what):
    """f"aaa{x}bbb" -> ("aaa", "bbb"); exactly one placeholder"""
    if not isinstance(node, ast.JoinedStr):
        raise _Refuse("%s is not an f-string" % what)
    pre, post, seen = "", "", 0
    for v in node.values:
        if isinstance(v, ast.FormattedValue):
            if v.conversion != -1 or v.format_spec is not None:
                raise _Refuse("%s: placeholder with conversion/format" % what)
            seen += 1
        elif isinstance(v, ast.Constant) and isinstance(v.value, str):
            if seen == 0:
                pre += v.value
            else:
                post += v.value
    if seen != 1:
        raise _Refuse("%s: expected exactly one placeholder" % what)
    return pre, post


def _calls(fn, attr):
    """calls of the form  <anything>.attr(...)  inside fn, in source order"""
    res = [n for n in ast.walk(fn) if isinstance(n, ast.Call) and isinstance(n.func, ast.Attribute) and n.func.attr == attr]
    res.sort(key=lambda n: (n.lineno, n.col_offset))
    return res


def _lean_str(s):
    if not all(32 <= ord(c) < 127 and c not in '"\\' for c in s):
        raise _Refuse("constant %r is not plain printable ASCII" % s)
    return '"%s".toList' % s


def _lean_char(s, what):
    if len(s) != 1 or not (32 <= ord(s) < 127) or s in "'\\":
        raise _Refuse("%s: %r is not a single plain ASCII character" % (what, s))
    return "'%s'" % s


def extract_constants(repo):
    src = open(os.path.join(repo, "ak", "ppobj.py")).read()
    tree = ast.parse(src)
    k = {}
    # FieldType.__init__(self, min_width=1, max_width=999)
    ft = _find_class(tree, "FieldType")
    init = _find_func(ft, "__init__")
    names = [a.arg for a in init.args.args]
    if names != ["self", "min_width", "max_width"] or len(init.args.defaults) != 2:
        raise _Refuse("FieldType.__init__ signature changed")
    k["dfltMinWidth"] = _const_nat(init.args.defaults[0], "FieldType min_width default")
    k["dfltMaxWidth"] = _const_nat(init.args.defaults[1], "FieldType max_width default")
    # fit_to_width: dots_len = min(3, width); cp.warn('.'*dots_len)
    fit = _find_func(ft, "fit_to_width")
    dots = None
    for n in ast.walk(fit):
        if (isinstance(n, ast.Assign) and len(n.targets) == 1 and isinstance(n.targets[0], ast.Name)
                and n.targets[0].id == "dots_len"):
            c = n.value
            if (isinstance(c, ast.Call) and isinstance(c.func, ast.Name) and c.func.id == "min" and len(c.args) == 2
                    and isinstance(c.args[1], ast.Name) and c.args[1].id == "width"):
                dots = _const_nat(c.args[0], "dots_len bound")
    if dots is None:
        raise _Refuse("fit_to_width: 'dots_len = min(<n>, width)' not found")
    k["dotsMax"] = dots
    warn = _calls(fit, "warn")
    if len(warn) != 1 or not (isinstance(warn[0].args[0], ast.BinOp) and isinstance(warn[0].args[0].op, ast.Mult)):
        raise _Refuse("fit_to_width: cp.warn('.'*dots_len) not found")
    k["dotChar"] = _const_str(warn[0].args[0].left, "dots character")
    fills = set()
    for n in ast.walk(fit):
        if isinstance(n, ast.BinOp) and isinstance(n.op, ast.Mult) and isinstance(n.left, ast.Constant) and n is not warn[0].args[0]:
            fills.add(n.left.value)
    if fills != {" "}:
        raise _Refuse("fit_to_width: filler is not a blank: %r" % fills)
    # _PPTableImpl
    impl = _find_class(tree, "_PPTableImpl")
    gen = _find_func(impl, "gen_ch_lines")
    w = _calls(gen, "warn")
    if len(w) != 1:
        raise _Refuse("gen_ch_lines: expected one cp.warn(...)")
    k["skippedPrefix"] = _const_str(w[0].args[0], "skipped line prefix")
    sk = [n for n in ast.walk(gen) if isinstance(n, ast.JoinedStr)]
    if len(sk) != 1:
        raise _Refuse("gen_ch_lines: expected one f-string (the skipped-records text)")
    pre, post = _joined_parts(sk[0], "skipped-records text")
    if pre != "":
        raise _Refuse("skipped-records text has a prefix")
    k["skippedSuffix"] = post
    b = _calls(gen, "border")
    if len(b) != 2:
        raise _Refuse("gen_ch_lines: expected two cp.border(...)")
    k["sepChar"] = _const_str(b[0].args[0], "separator")
    # border line: "".join("+" + "-"*col.width for col in columns) + '+'
    bl = b[1].args[0]
    ok = (isinstance(bl, ast.BinOp) and isinstance(bl.op, ast.Add) and isinstance(bl.left, ast.Call)
          and isinstance(bl.left.func, ast.Attribute) and bl.left.func.attr == "join"
          and _const_str(bl.left.func.value, "join sep") == "" and isinstance(bl.left.args[0], ast.GeneratorExp))
    if not ok:
        raise _Refuse("border line expression changed")
    elt = bl.left.args[0].elt
    if not (isinstance(elt, ast.BinOp) and isinstance(elt.op, ast.Add) and isinstance(elt.right, ast.BinOp)
            and isinstance(elt.right.op, ast.Mult)):
        raise _Refuse("border line element changed")
    k["cornerChar"] = _const_str(elt.left, "corner")
    k["dashChar"] = _const_str(elt.right.left, "dash")
    if _const_str(bl.right, "last corner") != k["cornerChar"]:
        raise _Refuse("border line: last corner differs")
    init = _find_func(impl, "__init__")
    fs = [n for n in ast.walk(init) if isinstance(n, ast.JoinedStr)]
    if len(fs) != 1:
        raise _Refuse("_PPTableImpl.__init__: expected one f-string (default footer)")
    k["footerPrefix"], k["footerSuffix"] = _joined_parts(fs[0], "default footer")
    # ReprStructure.make: dummy field and col_N names
    rs = _find_class(tree, "ReprStructure")
    mk = _find_func(rs, "make")
    colp = [_joined_parts(n, "col_N") for n in ast.walk(mk) if isinstance(n, ast.JoinedStr)
            and len(n.values) == 2 and isinstance(n.values[0], ast.Constant) and isinstance(n.values[1], ast.FormattedValue)
            and isinstance(n.values[1].value, ast.BinOp)]
    if len(colp) != 1 or colp[0][1] != "":
        raise _Refuse("ReprStructure.make: f\"col_{pos+1}\" not found")
    k["colPrefix"] = colp[0][0]
    dummy = [n.args[0].value for n in ast.walk(mk) if isinstance(n, ast.Call) and isinstance(n.func, ast.Name)
             and n.func.id == "RecordField" and n.args and isinstance(n.args[0], ast.Constant)]
    if len(dummy) != 1:
        raise _Refuse("ReprStructure.make: dummy field not found")
    k["dummyField"] = dummy[0]
    # PPTableFormat._DFLT_LIMIT_LINES
    pf = _find_class(tree, "PPTableFormat")
    lim = None
    for n in pf.body:
        if isinstance(n, ast.Assign) and isinstance(n.targets[0], ast.Name) and n.targets[0].id == "_DFLT_LIMIT_LINES":
            lim = ast.literal_eval(n.value)
    if not (isinstance(lim, tuple) and len(lim) == 2 and all(isinstance(x, int) and x >= 0 for x in lim)):
        raise _Refuse("_DFLT_LIMIT_LINES not found")
    k["dfltLimits"] = lim
    # PPEnumFieldType
    en = _find_class(tree, "PPEnumFieldType")
    mods = None
    for n in en.body:
        if isinstance(n, ast.Assign) and isinstance(n.targets[0], ast.Name) and n.targets[0].id == "_FMT_MODIFIERS":
            mods = list(ast.literal_eval(n.value).keys())
    if mods is None or sorted(mods) != ["full", "name", "val"]:
        raise _Refuse("PPEnumFieldType._FMT_MODIFIERS changed: %r" % (mods,))
    k["enumModifiers"] = mods
    einit = _find_func(en, "__init__")
    miss = [n for n in ast.walk(einit) if isinstance(n, ast.Call) and isinstance(n.func, ast.Attribute) and n.func.attr == "get"
            and len(n.args) == 2 and isinstance(n.args[1], ast.Tuple)]
    if len(miss) != 1:
        raise _Refuse("PPEnumFieldType: default for MISSING not found")
    k["enumMissingName"] = _const_str(miss[0].args[1].elts[0], "missing name")
    dflt = [n for n in ast.walk(einit) if isinstance(n, ast.keyword) and n.arg == "default"]
    if len(dflt) != 1:
        raise _Refuse("PPEnumFieldType: max(..., default=1) not found")
    k["enumDfltValLen"] = _const_nat(dflt[0].value, "max_val_len default")
    # whitespace as understood by str.strip()/int() of the running Python (library data)
    k["spaceCodes"] = [c for c in range(0x110000) if chr(c).isspace()]
    return k


def translate(repo):
    k = extract_constants(repo)
    body = [
        "-- GENERATED by harness/c12.py:translate from /repo/ak/ppobj.py -- do not edit",
        "namespace Gen.C12",
        "def dfltMinWidth : Nat := %d" % k["dfltMinWidth"],
        "def dfltMaxWidth : Nat := %d" % k["dfltMaxWidth"],
        "def dotsMax : Nat := %d" % k["dotsMax"],
        "def dotChar : Char := %s" % _lean_char(k["dotChar"], "dot"),
        "def sepChar : Char := %s" % _lean_char(k["sepChar"], "separator"),
        "def cornerChar : Char := %s" % _lean_char(k["cornerChar"], "corner"),
        "def dashChar : Char := %s" % _lean_char(k["dashChar"], "dash"),
        "def skippedPrefix : List Char := %s" % _lean_str(k["skippedPrefix"]),
        "def skippedSuffix : List Char := %s" % _lean_str(k["skippedSuffix"]),
        "def footerPrefix : List Char := %s" % _lean_str(k["footerPrefix"]),
        "def footerSuffix : List Char := %s" % _lean_str(k["footerSuffix"]),
        "def colPrefix : List Char := %s" % _lean_str(k["colPrefix"]),
        "def dummyField : List Char := %s" % _lean_str(k["dummyField"]),
        "def dfltLimits : Nat × Nat := (%d, %d)" % k["dfltLimits"],
        "def enumModFull : List Char := %s" % _lean_str("full"),
        "def enumModVal : List Char := %s" % _lean_str("val"),
        "def enumModName : List Char := %s" % _lean_str("name"),
        "def enumMissingName : List Char := %s" % _lean_str(k["enumMissingName"]),
        "def enumDfltValLen : Nat := %d" % k["enumDfltValLen"],
        "/-- code points `c` with `chr(c).isspace()` in the running Python (what `str.strip()` and `int()` skip) -/",
        "def spaceCodes : List Nat := [%s]" % ", ".join(str(c) for c in k["spaceCodes"]),
        "end Gen.C12", ""]
    files = {"AkVerif/Gen/C12.lean": "\n".join(body)}
    # the chunk operations are those of the CHText model (C08), which needs its own constants
    from harness import c08
    files.update(c08.translate(repo))
    return files


# ------------------------------------------------------------------ table descriptions and the wire
# A table description (`desc`, JSON-serialisable) is what the generator builds; the protocol line is
# derived from it (`encode`) and the adapter builds the real table from the *line* (`decode`), so
# that the line is the single source of truth for both sides of the tie.

def enc_val(v):
    if v is None:
        return "n"
    if v is True:
        return "t"
    if v is False:
        return "f"
    if isinstance(v, int):
        return "i%d" % v
    if isinstance(v, float):
        n, d = v.as_integer_ratio()
        return "d%d/%d/%s" % (n, d, enc_str(str(v)))
    if isinstance(v, str):
        return "s" + enc_str(v)
    raise TypeError("value %r cannot travel" % (v,))


def dec_val(t):
    if t == "n":
        return None
    if t == "t":
        return True
    if t == "f":
        return False
    if t[0] == "i":
        return int(t[1:])
    if t[0] == "s":
        return dec_str(t[1:])
    if t[0] == "d":
        n, d, _ = t[1:].split("/")
        from fractions import Fraction
        return float(Fraction(int(n), int(d)))
    raise ValueError(t)


def _opt(s):
    return "none" if s is None else enc_str(s)


def _sentinel_len():
    from ak.ppobj import PPEnumFieldType
    return len(str(PPEnumFieldType.MISSING))


def encode(desc):
    """table description -> tokens of the wire format (see Table.Wire in Model/TableFmt.lean)"""
    out = []
    if desc.get("fields") is None:
        out.append("F-")
    else:
        out += ["F", str(len(desc["fields"]))]
        for f in desc["fields"]:
            if f.get("pos") is not None:
                out.append("O%d" % f["pos"])       # a ready RecordField object with its own value position
            out.append(enc_str(f["name"]))
            e = f.get("enum")
            cu = f.get("custom")
            if cu is not None:
                out += ["C", str(cu["min"]), str(cu["max"]), str(cu["align"]), enc_str(cu["tag"]), str(len(cu["banned"]))]
                out += [enc_str(b) for b in cu["banned"]]
            elif e is None:
                out.append("D")
            else:
                out += ["E", str(len(e["keys"]))]
                for k, name in e["keys"]:
                    out += [enc_val(k), enc_str(name)]
                if e.get("missing") is None:
                    out.append("S-")
                else:
                    out += ["S%d" % _sentinel_len(), enc_str(e["missing"])]
            t = f.get("title")
            if t is None:
                out.append("TN")
            elif isinstance(t, str):
                out += ["TS", enc_str(t)]
            else:
                out += ["TL", str(len(t))] + [enc_val(x) for x in t]
    out += ["R", str(len(desc["records"]))]
    same = dict(desc.get("same") or [])
    for i, r in enumerate(desc["records"]):
        if i in same:
            out.append("=%d" % same[i])      # the very same record object as record same[i]
            continue
        out.append(str(len(r)))
        out += [enc_val(v) for v in r]
    out.append(_opt(desc.get("fmt")))
    lim = desc.get("limits")
    if lim is None:
        out.append("L-")
    else:
        out += ["L"] + ["n" if x is None else str(x) for x in lim]
    out.append(_opt(desc.get("header")))
    out.append(_opt(desc.get("footer")))
    if desc.get("skip") is None:
        out.append("K-")
    else:
        out += ["K", str(len(desc["skip"]))] + [enc_str(s) for s in desc["skip"]]
    return " ".join(out)


class _Toks:
    def __init__(self, toks):
        self.t, self.i = toks, 0

    def tok(self):
        self.i += 1
        return self.t[self.i - 1]

    def opt(self):
        t = self.tok()
        return None if t == "none" else dec_str(t)


def decode(toks):
    """tokens -> (records, kwargs for PPTable); mirrors Table.Wire.specP"""
    from ak.ppobj import PPEnumFieldType
    p = _Toks(toks)
    kw = {}
    f = p.tok()
    if f == "F":
        from ak.ppobj import RecordField, FieldType
        names, types, titles = [], {}, {}
        for _ in range(int(p.tok())):
            t0 = p.tok()
            objpos = None
            if t0.startswith("O"):
                objpos = int(t0[1:])
                t0 = p.tok()
            name = dec_str(t0)
            names.append(name)
            ft = p.tok()
            ftobj = None
            if ft == "C":
                mn, mx, al, tag = int(p.tok()), int(p.tok()), int(p.tok()), dec_str(p.tok())
                banned = [dec_str(p.tok()) for _ in range(int(p.tok()))]
                ftobj = make_custom_type(mn, mx, al, tag, banned)
            elif ft == "E":
                d = {}
                for i in range(int(p.tok())):
                    k = dec_val(p.tok())
                    nm = dec_str(p.tok())
                    d[k] = nm if i % 3 == 0 else (nm, [None, "name_good", "name_warn", "error"][i % 4])
                s = p.tok()
                if s != "S-":
                    d[PPEnumFieldType.MISSING] = (dec_str(p.tok()), "error")
                ftobj = PPEnumFieldType(d)
            elif ft != "D":
                raise ValueError(ft)
            t = p.tok()
            title = None
            if t == "TS":
                title = dec_str(p.tok())
            elif t == "TL":
                title = [dec_val(p.tok()) for _ in range(int(p.tok()))]
            elif t != "TN":
                raise ValueError(t)
            if objpos is not None:
                names[-1] = RecordField(name, ftobj if ftobj is not None else FieldType(), objpos, title)
            else:
                if ftobj is not None:
                    types[name] = ftobj
                if title is not None:
                    titles[name] = title
        kw["fields"] = names
        if types:
            kw["fields_types"] = types
        if titles:
            kw["fields_titles"] = titles
    elif f != "F-":
        raise ValueError(f)
    if p.tok() != "R":
        raise ValueError("R")
    records = []
    for _ in range(int(p.tok())):
        t = p.tok()
        if t.startswith("="):
            records.append(records[int(t[1:])])      # one object at several places of the list
        else:
            records.append(tuple(dec_val(p.tok()) for _ in range(int(t))))
    kw["fmt"] = p.opt()
    l = p.tok()
    if l == "L":
        kw["limits"] = tuple(None if x == "n" else int(x) for x in (p.tok(), p.tok()))
    kw["header"] = p.opt()
    kw["footer"] = p.opt()
    k = p.tok()
    if k == "K":
        kw["skip_columns"] = [dec_str(p.tok()) for _ in range(int(p.tok()))]
    if p.i != len(toks):
        raise ValueError("trailing tokens")
    return records, kw


_CUSTOM_CACHE = {}


def make_custom_type(mn, mx, al, tag, banned):
    """a user-written FieldType (the documented extension point): own width bounds, fixed alignment (centre
    included), free-text modifiers (all but the banned ones), cell text = tag + str(value) [+ '~' + modifier]"""
    from ak import ppobj

    class Custom(ppobj.FieldType):
        def __init__(self):
            super().__init__(mn, mx)

        def make_desired_cell_ch_chunks(self, value, fmt_modifier, cp):
            text = tag + str(value) + ("~" + fmt_modifier if fmt_modifier is not None else "")
            return [cp.text(text)], al

        def is_fmt_modifier_ok(self, fmt_modifier):
            if fmt_modifier in banned:
                return False, "modifier %r is not accepted" % (fmt_modifier,)
            return True, ""
    return Custom()


def build_table(toks):
    from ak.ppobj import PPTable
    records, kw = decode(toks)
    return PPTable(list(records), **kw)


def render_lines(table):
    return table.ch_text(no_color=True).plain_text().split("\n")


def show_lines(lines):
    return " ".join([str(len(lines))] + [enc_str(l) for l in lines])


def _err(e):
    return "err " + type(e).__name__


# ------------------------------------------------------------------ real code
def _fit_args(args):
    from ak.color import CHText
    from ak.ppobj import PPTable
    return [CHText.Chunk.make_plain(dec_str(a)) for a in args], PPTable.TablePalette(no_color=True)


def show_chunks(chunks):
    return " ".join([str(len(chunks))] + [enc_str(c.text) for c in chunks])


def split_at(toks):
    groups = [[]]
    for t in toks:
        if t == "@":
            groups.append([])
        else:
            groups[-1].append(t)
    return groups


def enc_rest(d):
    """records, limits, header, footer, skip of a table built from a format object"""
    out = ["R", str(len(d["records"]))]
    for r in d["records"]:
        out.append(str(len(r)))
        out += [enc_val(v) for v in r]
    lim = d.get("limits")
    out += ["L-"] if lim is None else ["L"] + ["n" if x is None else str(x) for x in lim]
    out += [_opt(d.get("header")), _opt(d.get("footer"))]
    out += ["K-"] if d.get("skip") is None else ["K", str(len(d["skip"]))] + [enc_str(x) for x in d["skip"]]
    return " ".join(out)


def dec_rest(toks):
    p = _Toks(toks)
    if p.tok() != "R":
        raise ValueError("R")
    records = [tuple(dec_val(p.tok()) for _ in range(int(p.tok()))) for _ in range(int(p.tok()))]
    kw = {}
    if p.tok() == "L":
        kw["limits"] = tuple(None if x == "n" else int(x) for x in (p.tok(), p.tok()))
    kw["header"] = p.opt()
    kw["footer"] = p.opt()
    if p.tok() == "K":
        kw["skip_columns"] = [dec_str(p.tok()) for _ in range(int(p.tok()))]
    if p.i != len(toks):
        raise ValueError("trailing tokens")
    return records, kw


def build_from_fmt_obj(pf, via, toks):
    """PPTable(records, fmt_obj=<the format of another table | a PPTableFormat made directly>, ...)"""
    from ak.ppobj import PPTable, PPTableFormat
    donor, second = split_at(toks)
    records2, kw2 = dec_rest(second)
    if via == "1":
        records, kw = decode(donor)
        fobj = PPTableFormat.make(kw.get("fmt"), kw.get("fields"), kw.get("fields_types"), kw.get("fields_titles"),
                                  records[0] if records else None)
    else:
        t = build_table(donor)
        if pf == "1":
            render_lines(t)
        fobj = t.fmt
    return PPTable(records2, fmt_obj=fobj, **kw2)


def run_siblings(pf, via, toks):
    """A and B from ONE format object; A printed, B built (with its own limits= / skip_columns=) and printed,
    A printed again, then the donor table (when the object is a table's format)"""
    from ak.ppobj import PPTable, PPTableFormat
    donor, ra, rb = split_at(toks)
    dt = None
    if via == "1":
        records, kw = decode(donor)
        fobj = PPTableFormat.make(kw.get("fmt"), kw.get("fields"), kw.get("fields_types"), kw.get("fields_titles"),
                                  records[0] if records else None)
    else:
        dt = build_table(donor)
        if pf == "1":
            render_lines(dt)
        fobj = dt.fmt
    recs_a, kw_a = dec_rest(ra)
    recs_b, kw_b = dec_rest(rb)
    ta = PPTable(recs_a, fmt_obj=fobj, **kw_a)
    out = [render_lines(ta)]
    tb = PPTable(recs_b, fmt_obj=fobj, **kw_b)
    out.append(render_lines(tb))
    out.append(render_lines(ta))
    if dt is not None:
        out.append(render_lines(dt))
    return "ok " + " ".join([str(len(out))] + [show_lines(x) for x in out])


def _line_text(l):
    return l.plain_text() if hasattr(l, "plain_text") else "".join(c.text for c in l)


def run_interleaved(toks):
    """several line iterators over several tables, advanced as the schedule says, then drained in order"""
    groups = split_at(toks)
    specs, its, sched = groups[:-2], [int(x) for x in groups[-2]], groups[-1]
    tables = [build_table(sp) for sp in specs]
    iters = [iter(tables[i].ch_text(no_color=True)) for i in its]
    got = [[] for _ in its]
    done = [False] * len(its)

    def advance(i):
        if not done[i]:
            try:
                got[i].append(_line_text(next(iters[i])))
            except StopIteration:
                done[i] = True
    for tok in sched:
        if tok[0] == "L":       # the caller changes the limits of the live format object
            ti, a, b = tok[1:].split(":")
            tables[int(ti)].fmt.set_limits((None if a == "n" else int(a), None if b == "n" else int(b)))
        elif tok[0] == "A":     # the caller appends a record to the list the table was given
            ti, vals = tok[1:].split(":")
            tables[int(ti)].records.append(tuple(dec_val(v) for v in vals.split("+")) if vals else ())
        elif tok[0] == "S":     # ... replaces one record (the list keeps its length)
            ti, i, vals = tok[1:].split(":")
            tables[int(ti)].records[int(i)] = tuple(dec_val(v) for v in vals.split("+")) if vals else ()
        elif tok[0] == "V":     # ... reverses the list in place
            tables[int(tok[1:])].records.reverse()
        elif int(tok) < len(its):
            advance(int(tok))
    for i in range(len(its)):
        while not done[i]:
            advance(i)
    return "ok " + " ".join([str(len(its))] + [show_lines(g) for g in got])


def impl(case):
    from ak.color import CHText
    from ak.ppobj import FieldType
    out = []
    for line in case["lines"]:
        op, *args = line.split()
        try:
            if op == "tbl":
                out.append("ok " + show_lines(render_lines(build_table(args))))
            elif op == "obj":
                out.append("ok " + show_lines(render_lines(build_from_fmt_obj(args[0], args[1], args[2:]))))
            elif op == "ilv":
                out.append(run_interleaved(args))
            elif op == "obj2":
                out.append(run_siblings(args[0], args[1], args[2:]))
            elif op == "tset":
                spec, fmt = split_at(args[1:])
                t = build_table(spec)
                if args[0] == "1":
                    render_lines(t)
                t.fmt = dec_str(fmt[0])
                out.append("ok " + show_lines(render_lines(t)))
            elif op == "fit":
                chunks, cp = _fit_args(args[2:])
                out.append("ok " + show_chunks(FieldType.fit_to_width(chunks, int(args[0]), int(args[1]), cp)))
            elif op == "resize":
                chunks, _ = _fit_args(args[1:])
                out.append("ok " + show_chunks(CHText.resize_chunks_list(chunks, int(args[0]))))
            else:
                out.append("bad-op")
        except Exception as e:
            out.append(_err(e))
    return out


def observable(i, line):
    # `fit` / `resize` lines exercise internal helpers directly: diagnostics only
    return line.split(" ", 1)[0] in ("tbl", "obj", "obj2", "ilv", "tset")


# ------------------------------------------------------------------ oracle: the property itself
def spec_fit(text, w, right=False):
    """the documented behaviour of a cell: padded to the width (right: True / False / "c" for centred),
    or a prefix ending in dots"""
    if len(text) <= w:
        fill = w - len(text)
        if right == "c":
            return " " * (fill // 2) + text + " " * (fill - fill // 2)
        return " " * fill + text if right else text + " " * fill
    dots = min(3, w)
    return text[:w - dots] + "." * dots


def _is_right(v):
    return v is None or isinstance(v, (bool, int, float))


def spec_title_lines(field):
    t = field.get("title")
    items = [field["name"]] if t is None else ([t] if isinstance(t, str) else list(t))
    out = []
    for it in items:
        if isinstance(it, str):
            out += [l.strip() for l in it.split("\n")]
        else:
            out.append(it)
    return out


def spec_cell_options(field, mod, v):
    """acceptable desired texts of a cell, with alignment: [(text, right?)]"""
    e = field.get("enum")
    cu = field.get("custom")
    if cu is not None:
        return [(cu["tag"] + str(v) + ("~" + mod if mod is not None else ""), {1: False, 2: "c", 3: True}[cu["align"]])]
    if e is None:
        return [(str(v), _is_right(v))]
    if v is None and not any(k is None for k, _ in e["keys"]):
        return [(str(v), True)]
    missing = e["missing"] if e.get("missing") is not None else "<???>"
    # the name of the value: the key equal to it (a dict lookup: 1, True and 1.0 are the same key; the statement
    # does not say whether such a value counts as known, so both readings are accepted)
    names = [nm for k, nm in e["keys"] if k == v and type(k) is type(v)]
    if not names:
        names = [nm for k, nm in e["keys"] if k is not None and v is not None and k == v] + [missing]
    out = []
    for name in names:
        if mod == "val":
            out.append((str(v), _is_right(v)))
        elif mod == "name":
            out.append((name, _is_right(v)))
        else:
            widest = max([len(str(k)) for k, _ in e["keys"]] + [len(str(v)), 40 if e.get("missing") is not None else 1])
            out += [(" " * p + str(v) + " " + name, False) for p in range(0, widest + 1)]
    return out


def _fields(desc):
    return desc["fields"] if desc.get("fields") is not None else desc["oracle_fields"]


def field_positions(desc):
    """name -> index of the field's value in a record: the position in `fields`, or the RecordField's own"""
    return {f["name"]: (f["pos"] if f.get("pos") is not None else i) for i, f in enumerate(_fields(desc))}


def visible_columns(desc):
    """[(field, modifier, break_by, min, max)] as the user asked for them; None if not known"""
    fields = _fields(desc)
    cols = desc.get("cols")
    def bounds(f):
        return (f["custom"]["min"], f["custom"]["max"]) if f.get("custom") else (1, 999)
    if cols is None:
        res = [(f, None, False) + bounds(f) for f in fields]
    else:
        byname = {f["name"]: f for f in fields}
        res = []
        for c in cols:
            if c["w"] == "hidden":
                continue
            lo, hi = bounds(byname[c["f"]]) if c["w"] is None else c["w"]
            res.append((byname[c["f"]], c.get("mod"), c.get("brk", False), lo, hi))
    skip = desc.get("skip") or []
    return [c for c in res if c[0]["name"] not in skip]


def effective_limits(desc):
    if desc.get("limits") is not None:
        return tuple(desc["limits"])
    fl = desc.get("fmt_limits")
    if fl is None or fl == "*":
        return (None, None)
    return tuple(fl)


def spec_body(desc, cols):
    """expected body: records (lists), None for a break line, "skip" for the skipped-records line; and the number
    the skipped line has to announce"""
    pos = field_positions(desc)
    records = desc["records"]
    body, prev = [], None
    bpos = [pos[c[0]["name"]] for c in cols if c[2]]
    for r in records:
        cur = [r[p] for p in bpos]
        if prev is not None and prev != cur:
            body.append(None)
        body.append(r)
        prev = cur
    nf, nl = effective_limits(desc)
    skipped = None
    if nf is not None and nl is not None and len(body) > nf + nl + 1:
        first = body[:nf] if nf else []
        last = body[-nl:] if nl else []
        skipped = len(records) - sum(1 for x in first + last if x is not None)
        body = first + ["skip"] + last
    return body, skipped


def oracle_table(desc, rep):
    if not rep.startswith("ok "):
        return "rejected: a well-formed table gives %s" % rep
    toks = rep.split()
    lines = [dec_str(t) for t in toks[2:]]
    if len(lines) != int(toks[1]):
        return "protocol: line count"
    if any("\n" in l for l in lines):
        return "newline: a line contains a line break"
    cols = visible_columns(desc)
    if not cols:
        return None   # zero-column tables are out of the property's domain
    W = len(lines[0])
    for i, l in enumerate(lines):
        if len(l) != W:
            return "rectangular: line %d has %d characters, the first line %d" % (i, len(l), W)
    border = lines[0]
    if set(border) - set("+-") or not border.startswith("+") or not border.endswith("+") or W < 2:
        return "border: first line %r is not a border" % border
    plus = [i for i, c in enumerate(border) if c == "+"]
    widths = [b - a - 1 for a, b in zip(plus, plus[1:])]
    if len(widths) != len(cols):
        return "columns: %d columns drawn, %d asked for" % (len(widths), len(cols))
    for j, (w, c) in enumerate(zip(widths, cols)):
        if c[3] <= c[4] and not c[3] <= w <= c[4]:
            return "width-bounds: column %d is %d wide, configured %d-%d" % (j, w, c[3], c[4])
    # expected lay-out
    pos = field_positions(desc)
    records = desc["records"]
    exp = [("border", border)]
    if desc.get("header"):
        exp.append(("header", "|" + spec_fit(desc["header"], W - 2) + "|"))
    tls = [spec_title_lines(c[0]) for c in cols]
    for i in range(max(len(t) for t in tls)):
        cells = []
        for t, w in zip(tls, widths):
            it = t[i] if i < len(t) else ""
            cells.append([spec_fit(str(it), w, (not isinstance(it, str)) and _is_right(it))])
        exp.append(("title", cells))
    exp.append(("border", border))
    body, skipped = spec_body(desc, cols)
    for x in body:
        if x is None:
            exp.append(("break", "|" + " " * (W - 2) + "|"))
        elif isinstance(x, str):
            exp.append(("skipped", "|" + spec_fit("... %d records skipped" % skipped, W - 2) + "|"))
        else:
            cells = []
            for c, w in zip(cols, widths):
                v = x[pos[c[0]["name"]]]
                cells.append([spec_fit(t, w, right) for t, right in spec_cell_options(c[0], c[1], v)])
            exp.append(("record", cells))
    exp.append(("border", border))
    footer = desc.get("footer") if desc.get("footer") is not None else "Total %d records" % len(records)
    if footer:
        exp.append(("footer", spec_fit(footer, W)))
    if len(exp) != len(lines):
        shown = sum(1 for k, _ in exp if k == "record")
        return "lines: %d lines printed, %d expected (%d of %d records to be shown)" % (
            len(lines), len(exp), shown, len(records))
    for i, ((kind, e), l) in enumerate(zip(exp, lines)):
        if isinstance(e, str):
            if e != l:
                return "%s: line %d is %r, expected %r" % (kind, i, l, e)
            continue
        for p in plus:
            if l[p] != "|":
                return "separators: %s line %d has %r under the '+' at %d" % (kind, i, l[p], p)
        for j, (a, b) in enumerate(zip(plus, plus[1:])):
            if l[a + 1:b] not in e[j]:
                return "cell: %s line %d column %d shows %r, expected %r" % (kind, i, j, l[a + 1:b], e[j][0])
    return None


def descs_at_start(descs, iters, sched):
    """the description of its table at the moment each iterator is started (first advance; or the final drain)"""
    import copy
    cur = []
    for d in descs:
        d = copy.deepcopy(d)
        if d.get("footer") is None:     # the default footer is made by the constructor and does not follow the list
            d["footer"] = "Total %d records" % len(d["records"])
        cur.append(d)
    snap = {}
    for tok in sched:
        tok = str(tok)
        if tok[0] == "L":
            ti, a, b = tok[1:].split(":")
            cur[int(ti)]["limits"] = [None if a == "n" else int(a), None if b == "n" else int(b)]
        elif tok[0] == "A":
            ti, vals = tok[1:].split(":")
            cur[int(ti)]["records"].append([dec_val(v) for v in vals.split("+")] if vals else [])
        elif tok[0] == "S":
            ti, i, vals = tok[1:].split(":")
            cur[int(ti)]["records"][int(i)] = [dec_val(v) for v in vals.split("+")] if vals else []
            cur[int(ti)]["same"] = None
        elif tok[0] == "V":
            cur[int(tok[1:])]["records"].reverse()
            cur[int(tok[1:])]["same"] = None
        elif int(tok) < len(iters) and int(tok) not in snap:
            snap[int(tok)] = copy.deepcopy(cur[iters[int(tok)]])
    for i in range(len(iters)):
        if i not in snap:
            snap[i] = copy.deepcopy(cur[iters[i]])
    return snap


def oracle(case, replies):
    desc = case.get("desc")
    for line, rep in zip(case["lines"], replies):
        op, *args = line.split()
        if op in ("obj", "tset"):
            # a table built from a format object: the columns of the donor, its limits unless given anew;
            # a table re-formatted through the setter: the new columns and bounds, the new limits or the old ones
            d2 = case.get("desc2")
            if d2 is None or not d2.get("valid"):
                continue
            msg = oracle_table(d2, rep)
            if msg:
                return ("fmt_obj-" if op == "obj" else "setter-") + msg
        elif op == "ilv":
            descs = case.get("descs")
            if descs is None or not all(d.get("valid") for d in descs):
                continue
            if not rep.startswith("ok "):
                return "interleaved-rejected: %s" % rep
            toks = rep.split()
            k, pos = int(toks[1]), 2
            at_start = descs_at_start(descs, case["iters"], case["sched"])
            for it in range(k):
                n = int(toks[pos])
                one = "ok " + " ".join(toks[pos:pos + n + 1])
                pos += n + 1
                msg = oracle_table(at_start[it], one)
                if msg:
                    return "interleaved-" + msg + " (iterator %d of table %d)" % (it, case["iters"][it])
        elif op == "obj2":
            ds = case.get("descs2")
            if ds is None or not all(d.get("valid") for d in ds):
                continue
            if not rep.startswith("ok "):
                return "siblings-rejected: %s" % rep
            toks = rep.split()
            k, pos = int(toks[1]), 2
            for j in range(k):
                n = int(toks[pos])
                one = "ok " + " ".join(toks[pos:pos + n + 1])
                pos += n + 1
                msg = oracle_table(ds[j], one)
                if msg:
                    return "siblings-" + msg + " (%s)" % ["A", "B built with its own options", "A printed again",
                                                         "the donor table"][j]
        elif op == "tbl":
            if desc is None or not desc.get("valid"):
                # malformed stream: whatever is printed must still be rectangular
                if rep.startswith("ok "):
                    ls = [dec_str(t) for t in rep.split()[2:]]
                    if len(set(len(l) for l in ls)) > 1:
                        return "rectangular: lines of different length"
                continue
            if encode(desc) != " ".join(args):
                return "oracle crashed: description and protocol line differ"
            msg = oracle_table(desc, rep)
            if msg:
                return msg
        elif op in ("fit", "resize"):
            if not rep.startswith("ok "):
                return "%s-fails: %s" % (op, rep)
            chunks = [dec_str(t) for t in rep.split()[2:]]
            text = "".join(dec_str(a) for a in (args[2:] if op == "fit" else args[1:]))
            got = "".join(chunks)
            w = int(args[0])
            if op == "fit":
                al = int(args[1])
                if len(text) <= w:
                    fill = w - len(text)
                    want = {1: text + " " * fill, 3: " " * fill + text,
                            2: " " * (fill // 2) + text + " " * (fill - fill // 2)}[al]
                else:
                    want = spec_fit(text, w)
            else:
                want = (text + " " * w)[:w] if len(text) < w else text[:w]
            if got != want:
                return "%s: %r to width %d gives %r, expected %r" % (op, text, w, got, want)
    return None


# ------------------------------------------------------------------ generators
_NAMES = ["id", "name", "level", "a", "b", "x y", "st.at_us", "Ж", "c_name", "f0", "f1", "long_field_name",
          "K", "q-r", "n7", "**", "col_1", "e=mc2", "it's", "[k]", "a  b", "№",
          # characters that are format marks when they stand elsewhere: an inner '!', parentheses, '-', a lone '<'
          "qty!=0", "done!?", "f(x)", "a(b)-c", "x!y", "(1)", "p<q"]
_ALPHA = "ab|+- .xyzWQ"
_EXTRA = "é中Ж\t:;,!/()<*'\"\\_0"


def gen_text(rng, maxlen=14):
    n = rng.choice([0, 1, 2, 3, 5, 8, maxlen, rng.randint(0, maxlen)])
    al = _ALPHA if rng.random() < 0.7 else _ALPHA + _EXTRA
    return "".join(rng.choice(al) for _ in range(n))


def gen_value(rng, profile=None):
    k = profile if profile is not None and rng.random() < 0.75 else rng.choice("iiIsssnbf")
    if k == "i":
        return rng.randint(-5, 120)
    if k == "I":
        return rng.choice([10 ** rng.randint(3, 25), -10 ** rng.randint(2, 9), 0, 1, 99999, 100000])
    if k == "n":
        return None
    if k == "b":
        return rng.random() < 0.5
    if k == "f":
        return rng.choice([0.5, 1.0, -2.25, 3.14159, 1e10, 1e-7, 100.0, rng.random() * 100, float(rng.randint(0, 3))])
    return gen_text(rng)


def gen_enum(rng):
    keys, used = [], set()
    for _ in range(rng.choice([0, 1, 2, 3, 3, 4])):
        k = rng.choice([1, 2, 3, 10, 30, 999, -1, 0, 12345, "x", "key", None])
        if k in used or (k in (0, 1) and (k in used)):
            continue
        used.add(k)
        keys.append([k, rng.choice(["one", "Ok status", "Error status", "", "a|b", "thirty", "N"])])
    missing = rng.choice([None, None, None, "???", "unexpected value", ""])
    return {"keys": keys, "missing": missing}


# values equal to a key or to each other but printed differently (1 / True / 1.0 / 7 / 7.0) in enum columns: every
# row must show its own value (known finding "enum cell caches keyed by equality", fixed by 0b2b8bb)
ENUM_EQUAL_VALUES = True


def gen_enum_value(rng, e):
    ks = [k for k, _ in e["keys"]]
    r = rng.random()
    if ENUM_EQUAL_VALUES and r < 0.25:
        return rng.choice([True, False, 1, 0, 1.0, 0.0, 7, 7.0, 2.0, 2, 10.0, 999.0])
    if ks and r < 0.6:
        return rng.choice(ks)
    if r < 0.75:
        return None
    return rng.choice([7, 12345, 4, -3, "zz", "", 10 ** 12, "key2"])


def gen_title(rng, name):
    r = rng.random()
    if r < 0.7:
        return None
    if r < 0.85:
        return rng.choice([name + "\n" + gen_text(rng, 8), "  " + gen_text(rng, 10) + " ", "T", "", "a\n\nb",
                           gen_text(rng, 20), "l1 \n l2\nl3"])
    return [rng.choice([gen_text(rng, 8), 555, None, True, "x\ny", 2.5, ""]) for _ in range(rng.randint(1, 3))]


def gen_width(rng):
    k = rng.randint(0, 9)
    if k <= 2:
        return None
    if k <= 5:
        w = rng.choice([0, 0, 1, 2, 3, 4, 5, 8, rng.randint(0, 8), 20])
        return [w, w]
    a = rng.choice([0, 0, 1, 2, 3, rng.randint(0, 6)])
    if rng.random() < 0.06:
        return [a + rng.randint(1, 8), a]      # contradictory bounds: the code lets the maximum win
    return [a, a + rng.randint(0, 8)]


def col_str(rng, c, plain=False):
    """one column description, optionally decorated with what the parser tolerates"""
    deco = (not plain) and rng.random() < 0.3
    sp = lambda: rng.choice([" ", " ", " ", "\t", "\xa0", "\u2003"]) * rng.randint(0, 2) if deco else ""
    s = sp() + c["f"]
    if c.get("mod") is not None:
        s += "/" + c["mod"]
    if c.get("brk"):
        s += "!"
    w = c["w"]
    if w == "hidden":
        return s + sp() + ":" + sp() + "-1" + sp()
    if w is None:
        return s + sp()

    def num(n):
        t = str(n)
        if deco and rng.random() < 0.2:
            t = rng.choice(["+" + t, "0" + t, t[0] + "_" + t[1:] if len(t) > 1 else t])
        return sp() + t + sp()
    s += sp() + ":"
    if w[0] == w[1] and rng.random() < 0.8:
        s += num(w[0])
    else:
        s += num(w[0]) + "-" + num(w[1])
    if rng.random() < 0.1:
        s += "(%d)" % rng.randint(0, 12) + sp()
    return s


def gen_col(rng, f):
    c = _gen_col(rng, f)
    if f.get("custom") is not None and rng.random() < 0.35:
        # a field type with its own bounds x explicit bounds: the global defaults, or the type's own
        c["w"] = rng.choice([[1, 999], [1, 999], [f["custom"]["min"], f["custom"]["max"]]])
    return c


def _gen_col(rng, f):
    mod = None
    if f.get("enum") is not None and rng.random() < 0.75:
        mod = rng.choice(["full", "val", "name"])
    if f.get("custom") is not None and rng.random() < 0.6:
        mod = rng.choice(_MODIFIERS)
    return {"f": f["name"], "mod": mod, "brk": rng.random() < 0.3, "w": gen_width(rng)}


def fmt_str(rng, cols, fmt_limits, plain=False):
    s = ",".join(col_str(rng, c, plain) for c in cols) if cols is not None else rng.choice(["", "*"])
    if fmt_limits is None:
        return s + rng.choice(["", "", ";", ";;"])
    if fmt_limits == "*":
        return s + ";*" + rng.choice(["", ";"])
    a, b = fmt_limits
    if rng.random() < 0.2 and not plain:
        return s + "; %d : %d " % (a, b) + rng.choice(["", ";"])
    return s + ";%d:%d" % (a, b)


_MODIFIERS = ["x", "%d/%m/%Y", "a/b", "/", "k=v", "(1)", " lead", "m.n", "", "%H.%M", "a/b/c(2)", "é"]


def gen_custom(rng):
    """a user-written field type: bounds, alignment (1 left, 2 centre, 3 right), tag, rejected modifiers"""
    mn, mx = rng.choice([(1, 999), (1, 999), (0, 6), (3, 3), (2, 12), (0, 0), (5, 40)])
    return {"min": mn, "max": mx, "align": rng.choice([1, 2, 2, 3]), "tag": rng.choice(["", "", "#", "<>"]),
            "banned": rng.choice([[], ["bad"], ["bad", "jInXedText"]])}


def gen_desc(rng, big=False):
    nf = rng.choice([1, 2, 2, 3, 3, 4])
    names = rng.sample(_NAMES, nf)
    fields = [{"name": n, "enum": None, "title": gen_title(rng, n)} for n in names]
    if rng.random() < 0.4:
        rng.choice(fields)["enum"] = gen_enum(rng)
    if rng.random() < 0.3:
        f = rng.choice(fields)
        if f["enum"] is None:
            f["custom"] = gen_custom(rng)
    if rng.random() < 0.3:
        # some (or all) elements of `fields` are ready RecordField objects, at any place of the list, each
        # knowing its own value position (which need not be its place in the list)
        perm = list(range(nf))
        if rng.random() < 0.5:
            rng.shuffle(perm)
        for i, f in enumerate(fields):
            if rng.random() < 0.5:
                f["pos"] = perm[i]
    profiles = [rng.choice("iiIssnbf") for _ in fields]
    fmt_limits = rng.choice([None, None, None, "*", [rng.randint(0, 4), rng.randint(0, 4)],
                             [rng.randint(0, 4), rng.randint(0, 4)]])
    limits = None
    if rng.random() < 0.35:
        limits = rng.choice([[rng.randint(0, 4), rng.randint(0, 4)], [rng.randint(0, 4), rng.randint(0, 4)],
                             [None, rng.randint(0, 4)], [rng.randint(0, 4), None], [None, None]])
    limited = isinstance(limits or fmt_limits, list) and None not in (limits or fmt_limits)
    nrec = rng.choice(([2, 3, 4, 5, 6, 8, 12] if limited else [0, 1, 2, 3, 5, 8, 12]) + ([20, 40] if big else []))
    records, prev = [], None
    for _ in range(nrec):
        r = []
        for i, f in enumerate(fields):
            if prev is not None and rng.random() < 0.45:
                r.append(prev[i])
            elif f["enum"] is not None:
                r.append(gen_enum_value(rng, f["enum"]))
            else:
                r.append(gen_value(rng, profiles[i]))
        records.append(r)
        prev = r
    same = []
    if nrec >= 2 and rng.random() < 0.15:
        # one record OBJECT at several places of the list ([row] * n, a shared heartbeat row, random.choices(pool))
        for i in range(1, nrec):
            if rng.random() < 0.5:
                k = rng.randrange(i)
                k = dict(same).get(k, k)
                same.append([i, k])
                records[i] = list(records[k])
    cols = None
    if rng.random() < 0.85:
        cols = []
        for _ in range(rng.choice([1, 1, 2, 2, 3, 3, 4, 4, 6] if big else [1, 2, 2, 3, 3, 4])):
            cols.append(gen_col(rng, rng.choice(fields)))
        if rng.random() < 0.1:
            cols.insert(rng.randint(0, len(cols)), {"f": rng.choice(names), "mod": None, "brk": rng.random() < 0.3,
                                                    "w": "hidden"})
    desc = {
        "valid": True, "fields": fields, "records": records, "cols": cols, "fmt_limits": fmt_limits,
        "limits": limits,
        "same": same or None,
        "header": rng.choice([None, None, "", "H", "My Table | Description", "a very long header " * 4]),
        "footer": rng.choice([None, None, "", "F", "+--+", "a very long footer " * 4]),
        "skip": None,
    }
    if cols is None and fmt_limits is None and rng.random() < 0.5:
        desc["fmt"] = None
    else:
        desc["fmt"] = fmt_str(rng, cols, fmt_limits)
    if rng.random() < 0.08:
        vis = [c for c in (cols if cols is not None else [{"f": n, "w": None} for n in names]) if c["w"] != "hidden"]
        keep = rng.choice(vis)["f"]
        desc["skip"] = [n for n in names + ["no such column"] if n != keep and rng.random() < 0.5]
    return desc


def gen_fieldless(rng):
    """PPTable(records) without `fields`: col_N columns, or the dummy column of an empty table"""
    n = rng.randint(1, 4)
    records = [[gen_value(rng) for _ in range(n)] for _ in range(rng.choice([0, 0, 1, 2, 5]))]
    names = ["col_%d" % (i + 1) for i in range(n)] if records else ["-" + " " * 30 + "-"]
    fmt_limits = rng.choice([None, None, "*", [rng.randint(0, 3), rng.randint(0, 3)]])
    desc = {"valid": True, "fields": None, "records": records, "cols": None, "fmt_limits": fmt_limits,
            "limits": rng.choice([None, None, [rng.randint(0, 2), rng.randint(0, 2)]]),
            "header": rng.choice([None, "empty list of something", "H"]), "footer": rng.choice([None, "", "F"]),
            "skip": None, "oracle_fields": [{"name": nm, "enum": None, "title": None} for nm in names]}
    desc["fmt"] = None if fmt_limits is None and rng.random() < 0.7 else fmt_str(rng, None, fmt_limits)
    return desc


_JUNK = "a:,;!/<-()* 0123456789_+bx"


def gen_malformed(rng):
    """descriptions the constructor may reject; the oracle expects nothing but rectangularity"""
    d = gen_desc(rng)
    d["valid"] = False
    names = [f["name"] for f in d["fields"]]
    k = rng.randint(0, 9)
    base = fmt_str(rng, d["cols"], d["fmt_limits"]) if d["cols"] else names[0]
    if k == 0:      # random junk
        d["fmt"] = "".join(rng.choice(_JUNK) for _ in range(rng.randint(1, 12))) + "," + names[0]
    elif k == 1:    # one character of a valid format replaced / inserted / removed
        i = rng.randrange(len(base) + 1)
        d["fmt"] = base[:i] + rng.choice(_JUNK) + base[i + rng.randint(0, 1):]
    elif k == 2:    # unknown field / bad modifier
        d["fmt"] = base + "," + rng.choice(["nosuch", names[0] + "/bad", names[0] + "/full", "", " ", names[0] + " !",
                                            names[0] + "<-0", names[0] + "!/val"])
    elif k == 3:    # bad widths
        d["fmt"] = names[0] + ":" + rng.choice(["", "x", "3-", "-3", "1-2-3", "3-1", "--", "(2)", "2(", "2)", "-1(3)",
                                               "1 0", "0x10", "1__0", "_1", "+-1", "5-2(4)", " - ", "2-5(x)", "-1 "])
    elif k == 4:    # bad limits / too many sections
        d["fmt"] = base.split(";")[0] + ";" + rng.choice(["1", "1:2:3", "a:b", ":", "1:", ":2", "*:*", " *", "1;2;3",
                                                         "1:2;;", "1:2;x;y", "+1:+2", "1_0:2", "-1:2", "2:-1"])
    elif k == 5:    # duplicated field names
        d["fields"].append(dict(d["fields"][0]))
    elif k == 6 and d["records"]:    # short record
        d["records"][rng.randrange(len(d["records"]))] = d["records"][0][:rng.randint(0, len(names) - 1)]
    elif k == 7:    # empty title list
        d["fields"][0]["title"] = []
        d["fmt"] = names[0] + "," + base
    elif k == 8:    # many ':' / value paths with explicit fields
        d["fmt"] = rng.choice([names[0] + ":1:2", names[0] + "<-0:3", names[0] + " <- 1 ", "<-", names[0] + "<-"])
    else:
        d["fmt"] = base + rng.choice([",", ";;;", ",,", " ", "*", ",*"])
    return d


def _case(desc, kind):
    return {"lines": ["tbl " + encode(desc)], "desc": desc, "meta": {"kind": kind}}


def gen_records_like(rng, desc, n):
    """other records for the fields of `desc`"""
    recs, prev = [], None
    for _ in range(n):
        r = []
        for i, f in enumerate(desc["fields"]):
            if prev is not None and rng.random() < 0.4:
                r.append(prev[i])
            elif f["enum"] is not None:
                r.append(gen_enum_value(rng, f["enum"]))
            else:
                r.append(gen_value(rng))
        recs.append(r)
        prev = r
    return recs


def mk_obj_case(rng, donor, pf, via, second, kind="fmt_obj"):
    """case for `PPTable(records, fmt_obj=...)`; the oracle's description of the new table is derived from the
    donor's: same fields and columns, the donor's limits unless new ones are given"""
    d2 = {"valid": bool(donor.get("valid")), "fields": donor["fields"], "cols": donor.get("cols"),
          "records": second["records"], "header": second.get("header"), "footer": second.get("footer"),
          "fmt_limits": None}
    dl = (None, None)
    if donor.get("fmt_limits") not in (None, "*"):
        dl = tuple(donor["fmt_limits"])
    if via == 0 and donor.get("limits") is not None:
        dl = tuple(donor["limits"])
    d2["limits"] = list(second["limits"]) if second.get("limits") is not None else list(dl)
    skip = list(second.get("skip") or []) + (list(donor.get("skip") or []) if via == 0 else [])
    d2["skip"] = skip or None
    line = "obj %d %d %s @ %s" % (pf, via, encode(donor), enc_rest(second))
    return {"lines": [line], "desc2": d2, "donor": donor, "second": second, "pf": pf, "via": via,
            "meta": {"kind": kind}}


def gen_obj_case(rng):
    donor = gen_desc(rng)
    if rng.random() < 0.7:       # asymmetric limits in the format object, the point of this route
        a, b = rng.sample(range(0, 5), 2)
        if rng.random() < 0.6:
            donor["fmt_limits"], donor["limits"] = [a, b], None
            donor["fmt"] = fmt_str(rng, donor["cols"], [a, b]) if donor["cols"] is not None else "*;%d:%d" % (a, b)
        else:
            donor["limits"] = [a, b]
    via = 1 if rng.random() < 0.3 else 0
    if via == 1:
        donor["skip"] = None     # PPTableFormat.make knows nothing of limits= / skip_columns=
        donor["limits"] = None
    second = {"records": gen_records_like(rng, donor, rng.choice([0, 1, 3, 5, 6, 8, 9, 12])),
              "limits": rng.choice([None, None, None, None, [rng.randint(0, 4), rng.randint(0, 4)], [None, None]]),
              "header": rng.choice([None, "H2"]), "footer": rng.choice([None, None, "", "F2"]), "skip": None}
    return mk_obj_case(rng, donor, 1 if rng.random() < 0.5 else 0, via, second)


def mk_tset_case(rng, desc, pf, cols, lim, kind="setter"):
    """`table.fmt = <format>` on a built (and maybe printed) table, then print: the new columns, bounds and limits
    must be honoured exactly as if they had been given to the constructor"""
    fmt = fmt_str(rng, cols, lim)
    old = effective_limits(desc)
    d2 = {"valid": bool(desc.get("valid")), "fields": desc["fields"], "cols": cols, "records": desc["records"],
          "header": desc.get("header"), "footer": desc.get("footer"), "fmt_limits": None, "skip": None,
          "limits": list(old) if lim is None else ([None, None] if lim == "*" else list(lim))}
    line = "tset %d %s @ %s" % (pf, encode(desc), enc_str(fmt))
    return {"lines": [line], "desc2": d2, "base": desc, "pf": pf, "newcols": cols, "newlim": lim, "meta": {"kind": kind}}


def gen_tset_case(rng):
    desc = gen_desc(rng)
    desc["skip"] = None
    cols = [gen_col(rng, rng.choice(desc["fields"])) for _ in range(rng.choice([1, 2, 2, 3, 4]))]
    for c in cols:                      # zero and min=max bounds are the point of this route
        if rng.random() < 0.5:
            w = rng.choice([0, 0, 0, 1, 2, 5])
            c["w"] = rng.choice([[w, w], [0, w], [0, 0]])
    lim = rng.choice([None, None, "*", [rng.randint(0, 4), rng.randint(0, 4)]])
    return mk_tset_case(rng, desc, 1 if rng.random() < 0.5 else 0, cols, lim)


def gen_wide_case(rng):
    """widths, values, headers and footers beyond the small-int cache (256) and beyond the default maximum (999):
    exact fits, one more, one less"""
    W = rng.choice([257, 258, 300, 512, 999, 1000, 1001, 1200])
    kind = rng.choice(["fixed", "ranged", "default", "enum"])
    fields = [{"name": "a", "enum": None, "title": None}, {"name": "b", "enum": None, "title": None}]
    cols = [{"f": "a", "mod": None, "brk": False, "w": None}, {"f": "b", "mod": None, "brk": False, "w": [2, 2]}]
    def text(n):
        return "".join(rng.choice("abcxyz|+-. ") for _ in range(max(0, n - 1))) + "q" if n > 0 else ""
    lens = [W, W, W - 1, W + 1, rng.randint(1, 10)]
    if kind == "fixed":
        cols[0]["w"] = [W, W]
    elif kind == "ranged":
        cols[0]["w"] = [rng.choice([0, 3, 256]), W]
    elif kind == "enum":
        fields[0]["enum"] = {"keys": [[1, text(W - 2)], [2, "two"]], "missing": None}
        cols[0]["mod"] = rng.choice(["full", "name"])
    records = [[(text(n) if kind != "enum" else rng.choice([1, 2, 7])), i] for i, n in enumerate(rng.sample(lens, rng.randint(1, 4)))]
    desc = {"valid": True, "fields": fields, "records": records, "cols": cols, "fmt_limits": None, "limits": None,
            "skip": None, "same": None, "header": None, "footer": None}
    # header exactly as wide as the space between the outer separators, footer exactly as wide as the table
    # (computed for the width the first column will get, where that is certain)
    w0 = W if kind in ("fixed",) else None
    if w0 is not None:
        tw = w0 + 2 + 3
        desc["header"] = rng.choice([text(tw - 2), text(tw - 1), text(tw - 3), None])
        desc["footer"] = rng.choice([text(tw), text(tw + 1), text(tw - 1), None])
    else:
        desc["header"] = rng.choice([None, text(W), text(300)])
        desc["footer"] = rng.choice([None, text(W + 5), text(260)])
    desc["fmt"] = fmt_str(rng, cols, None, plain=True)
    return _case(desc, "wide")


def mk_ilv_case(descs, iters, sched, kind="interleaved"):
    line = "ilv " + " @ ".join(encode(d) for d in descs) + " @ " + " ".join(map(str, iters)) + " @ " + \
        " ".join(map(str, sched))
    return {"lines": [line], "descs": descs, "iters": iters, "sched": sched, "meta": {"kind": kind}}


def gen_ilv_case(rng):
    """2-3 tables (mostly with break-by columns and limits that apply, different widths), 2-4 line iterators over
    them (also two over the same table), advanced in a random interleaving"""
    descs = []
    for _ in range(rng.choice([1, 2, 2, 2, 3])):
        d = gen_desc(rng)
        if rng.random() < 0.8 and d["cols"] is not None:
            a, b = rng.randint(0, 3), rng.randint(0, 3)
            d["fmt_limits"], d["limits"] = [a, b], None
            rng.choice(d["cols"])["brk"] = True
            d["fmt"] = fmt_str(rng, d["cols"], [a, b])
            if len(d["records"]) < 6:
                d["records"] = gen_records_like(rng, d, rng.choice([6, 8, 12]))
                d["same"] = None
        descs.append(d)
    iters = [rng.randrange(len(descs)) for _ in range(rng.choice([2, 2, 3, 4]))]
    if len(descs) > 1 and len(set(iters)) == 1:
        iters[-1] = (iters[0] + 1) % len(descs)
    steps = rng.randint(0, 40)
    sched = [rng.randrange(len(iters)) for _ in range(steps)] if rng.random() < 0.7 else \
        [i for _ in range(20) for i in range(len(iters))]      # zip(...)
    if rng.random() < 0.5:
        # the caller changes what a table shows while its lines are being consumed: new limits on the live format
        # object, records appended to the list; zero-width columns make the widths worth re-checking
        for d in descs:
            if d["cols"] is not None and rng.random() < 0.7:
                rng.choice(d["cols"])["w"] = rng.choice([[0, 0], [0, 0], [0, 3]])
                d["fmt"] = fmt_str(rng, d["cols"], d["fmt_limits"])
        for _ in range(rng.randint(1, 3)):
            ti = rng.randrange(len(descs))
            if rng.random() < 0.5:
                # new limits on the live format object at any point, also while a print of that table is being consumed
                ev = "L%d:%s:%s" % (ti, rng.choice(["n", 0, 1, 2, 5]), rng.choice(["n", 0, 1, 3]))
                sched.insert(rng.randint(0, min(len(sched), 12)), ev)
            else:
                rec = gen_records_like(rng, descs[ti], 1)[0]
                rec = [v if not isinstance(v, str) else v + "wider" * rng.randint(0, 3) for v in rec]
                k = rng.random()
                n0 = len(descs[ti]["records"])     # (appends only make the list longer: the index stays valid)
                if k < 0.4 or n0 == 0:
                    ev = "A%d:%s" % (ti, "+".join(enc_val(v) for v in rec))
                elif k < 0.8:       # the list is edited in place, its length stays: one record replaced ...
                    ev = "S%d:%d:%s" % (ti, rng.randrange(n0), "+".join(enc_val(v) for v in rec))
                else:               # ... or the order reversed
                    ev = "V%d" % ti
                sched.insert(rng.randint(0, min(len(sched), 12)), ev)
    return mk_ilv_case(descs, iters, sched)


def gen_grow_case(rng):
    """limits set, the first print fits (nothing skipped); then the body grows past the limits - records appended
    to the caller's list, or a record replaced so that a break line appears - and the table is printed again:
    the second print has to show exactly the first n and last m lines and announce the rest"""
    f, l = rng.randint(0, 3), rng.randint(0, 3)
    n = rng.randint(max(0, f + l - 1), f + l + 1)          # fits: n <= f + l + 1 lines, no break lines yet
    fields = [{"name": "id", "enum": None, "title": None}, {"name": "grp", "enum": None, "title": None},
              {"name": "name", "enum": None, "title": None}]
    records = [[i, "g", "v%d" % i] for i in range(n)]
    cols = [{"f": "id", "mod": None, "brk": False, "w": gen_width(rng)},
            {"f": "grp", "mod": None, "brk": True, "w": None},
            {"f": "name", "mod": None, "brk": False, "w": rng.choice([None, [0, 0], [2, 6]])}]
    how = rng.choice(["fmt", "kwarg"])
    desc = {"valid": True, "fields": fields, "records": records, "cols": cols, "skip": None, "same": None,
            "fmt_limits": [f, l] if how == "fmt" else None, "limits": [f, l] if how == "kwarg" else None,
            "header": rng.choice([None, "H"]), "footer": rng.choice([None, "", "F"])}
    desc["fmt"] = fmt_str(rng, cols, desc["fmt_limits"], plain=True)
    evs = []
    k = rng.random()
    if k < 0.6 or n == 0:
        for j in range(rng.randint(max(1, f + l + 2 - n), f + l + 4 - min(n, 2))):
            evs.append("A0:" + "+".join(enc_val(v) for v in [100 + j, rng.choice(["g", "g", "h"]), "new%d" % j]))
    else:
        # a changed break-by value adds one or two break lines
        i = rng.randrange(n)
        evs.append("S0:%d:%s" % (i, "+".join(enc_val(v) for v in [i, "other", "v%d" % i])))
        if rng.random() < 0.5:
            evs.append("A0:" + "+".join(enc_val(v) for v in [99, "g", "tail"]))
    first = [0] * rng.choice([1, 3, 40, 40, 40])      # the first print: in progress, or finished
    c = mk_ilv_case([desc], [0, 0], first + evs + [1, 0, 1])
    c["meta"] = {"kind": "grow-past-limits"}
    return c


def mk_obj2_case(rng, donor, pf, via, sa, sb, kind="siblings"):
    a = mk_obj_case(rng, donor, pf, via, sa)["desc2"]
    b = mk_obj_case(rng, donor, pf, via, sb)["desc2"]
    ds = [a, b, a]
    if via == 0:
        ds.append(donor)
    line = "obj2 %d %d %s @ %s @ %s" % (pf, via, encode(donor), enc_rest(sa), enc_rest(sb))
    return {"lines": [line], "descs2": ds, "donor2": donor, "sa": sa, "sb": sb, "pf": pf, "via": via,
            "meta": {"kind": kind}}


def gen_obj2_case(rng):
    """two tables from ONE format object; the second gets its own limits= / skip_columns=; the first is printed
    before and after, the donor table at the end"""
    donor = gen_desc(rng)
    donor["skip"] = None
    via = 1 if rng.random() < 0.4 else 0
    if rng.random() < 0.6:      # the format object itself has no limits: every record of A is to be shown
        donor["fmt_limits"], donor["limits"] = None, None
        donor["fmt"] = fmt_str(rng, donor["cols"], None) if donor["cols"] is not None else None
    if via == 1:
        donor["limits"] = None
    sa = {"records": gen_records_like(rng, donor, rng.choice([5, 6, 8, 9, 12])), "limits": None,
          "header": None, "footer": None, "skip": None}
    names = [f["name"] for f in donor["fields"]]
    vis = [c["f"] for c in (donor["cols"] or [{"f": n, "w": None} for n in names]) if c["w"] != "hidden"]
    sb = {"records": gen_records_like(rng, donor, rng.choice([0, 3, 7, 10])),
          "limits": rng.choice([[rng.randint(0, 2), rng.randint(0, 2)], [rng.randint(0, 2), rng.randint(0, 2)], None]),
          "header": rng.choice([None, "B"]), "footer": None, "skip": None}
    if len(set(vis)) > 1 and rng.random() < 0.4:
        sb["skip"] = [rng.choice(vis)]
    return mk_obj2_case(rng, donor, 1 if rng.random() < 0.5 else 0, via, sa, sb)


def corpus():
    # witness of the fixed defect 0b2b8bb: enum caches keyed by equality made rows with 1 / 1.0 show 'True' and the
    # row with 7 show '7.0'
    enum = {"keys": [[1, "one"], [2, "two"]], "missing": None}
    desc = {"valid": True, "fields": [{"name": "a", "enum": enum, "title": None}, {"name": "b", "enum": None, "title": None}],
            "records": [[True, "x"], [1, "y"], [1.0, "z"], [7.0, "q"], [7, "w"]],
            "cols": [{"f": "a", "mod": "val", "brk": False, "w": None}, {"f": "a", "mod": "full", "brk": False, "w": None},
                     {"f": "a", "mod": "name", "brk": False, "w": None}, {"f": "b", "mod": None, "brk": False, "w": None}],
            "fmt_limits": None, "limits": None, "header": None, "footer": None, "skip": None,
            "fmt": "a/val,a/full,a/name,b"}
    yield _case(desc, "corpus-enum-equal-values")
    # witness of the regression of 1d22ea8 (repaired by df4a139): set_limits while the lines of the table are being
    # consumed made the rest of the print fail with TypeError
    d = {"valid": True, "fields": [{"name": "a", "enum": None, "title": None}, {"name": "b", "enum": None, "title": None}],
         "records": [[i, "x" * (8 if i == 3 else 1)] for i in range(6)],
         "cols": [{"f": "a", "mod": None, "brk": False, "w": None}, {"f": "b", "mod": None, "brk": False, "w": None}],
         "fmt_limits": [5, 5], "limits": None, "header": None, "footer": None, "skip": None, "same": None, "fmt": "a,b;5:5"}
    c = mk_ilv_case([d], [0, 0], [0, 0, 0, "L0:1:0", 0, 1, 0, 1])
    c["meta"] = {"kind": "corpus-set_limits-during-print"}
    yield c


def gen_cases(rng, tier):
    quick = tier == "quick"
    n = 2600 if quick else 60000
    for i in range(n):
        yield _case(gen_desc(rng, big=(not quick) and i % 10 == 0), "table")
    for _ in range(150 if quick else 3000):
        yield _case(gen_fieldless(rng), "fieldless")
    for _ in range(500 if quick else 12000):
        yield _case(gen_malformed(rng), "malformed")
    for _ in range(500 if quick else 10000):
        yield gen_obj_case(rng)
    for _ in range(400 if quick else 8000):
        yield gen_ilv_case(rng)
    for _ in range(500 if quick else 10000):
        yield gen_tset_case(rng)
    for _ in range(400 if quick else 8000):
        yield gen_obj2_case(rng)
    for _ in range(150 if quick else 3000):
        yield gen_wide_case(rng)
    for _ in range(300 if quick else 6000):
        yield gen_grow_case(rng)
    # helpers, directly
    for _ in range(600 if quick else 20000):
        chunks = [gen_text(rng, 6) for _ in range(rng.randint(0, 4))]
        w = rng.choice([0, 1, 2, 3, 4, 5, 8, rng.randint(0, 20)])
        if rng.random() < 0.6:
            line = "fit %d %d %s" % (w, rng.randint(1, 3), " ".join(enc_str(c) for c in chunks))
        else:
            line = "resize %d %s" % (w, " ".join(enc_str(c) for c in chunks))
        yield {"lines": [line.strip()], "meta": {"kind": line.split()[0]}}
    if not quick:
        yield from search_cases(rng, tier)


def search_cases(rng, tier):
    """small exhaustive scopes: one column of every width against every text length and value type;
    every pair of limits against every number of records with and without break lines"""
    for w in range(0, 8):
        for n in range(0, 10):
            for v in ("x" * n, 10 ** n if n else 0, None):
                for wspec in ([w, w], [0, w], [w, w + 2]):
                    desc = {"valid": True, "fields": [{"name": "a", "enum": None, "title": None}], "records": [[v]],
                            "cols": [{"f": "a", "mod": None, "brk": False, "w": wspec}], "fmt_limits": None,
                            "limits": None, "header": None, "footer": None, "skip": None}
                    desc["fmt"] = fmt_str(rng, desc["cols"], None, plain=True)
                    yield _case(desc, "search-width")
    for nf in range(0, 5):
        for nl in range(0, 5):
            for nrec in range(0, 9):
                for pattern in (0, 1, 2):
                    recs = [[i, [0, i // 2, i][pattern]] for i in range(nrec)]
                    desc = {"valid": True, "fields": [{"name": "a", "enum": None, "title": None},
                                                      {"name": "g", "enum": None, "title": None}],
                            "records": recs, "cols": [{"f": "a", "mod": None, "brk": False, "w": None},
                                                      {"f": "g", "mod": None, "brk": True, "w": [2, 2]}],
                            "fmt_limits": [nf, nl], "limits": None, "header": None, "footer": None, "skip": None}
                    desc["fmt"] = fmt_str(rng, desc["cols"], [nf, nl], plain=True)
                    yield _case(desc, "search-limits")
    for w in range(0, 12):
        for al in (1, 2, 3):
            for chunks in (["abc", "defg"], ["", "ab", ""], ["abcdefghij"], [], ["a", "b", "c", "d", "e"]):
                yield {"lines": [("fit %d %d %s" % (w, al, " ".join(enc_str(c) for c in chunks))).strip()],
                       "meta": {"kind": "search-fit"}}


def _shrink_obj(case):
    import copy
    donor, second = case["donor"], case["second"]
    rng = random.Random(0)
    for i in range(len(second["records"])):
        s2 = copy.deepcopy(second)
        del s2["records"][i]
        yield mk_obj_case(rng, donor, case["pf"], case["via"], s2)
    for small in shrink({"lines": ["tbl " + encode(donor)], "desc": donor, "meta": {}}):
        yield mk_obj_case(rng, small["desc"], case["pf"], case["via"], second)
    if case["pf"]:
        yield mk_obj_case(rng, donor, 0, case["via"], second)
    for key in ("header", "footer", "limits"):
        if second.get(key) is not None:
            s2 = copy.deepcopy(second)
            s2[key] = None
            yield mk_obj_case(rng, donor, case["pf"], case["via"], s2)


def _shrink_ilv(case):
    descs, iters, sched = case["descs"], case["iters"], case["sched"]
    if len(sched) > 1:
        yield mk_ilv_case(descs, iters, sched[:len(sched) // 2])
        yield mk_ilv_case(descs, iters, sched[len(sched) // 2:])
    for i in range(len(sched)):
        yield mk_ilv_case(descs, iters, sched[:i] + sched[i + 1:])
    if len(iters) > 1:
        for i in range(len(iters)):
            its = iters[:i] + iters[i + 1:]
            yield mk_ilv_case(descs, its, [x if (isinstance(x, str) or x < i) else x - 1 for x in sched if x != i])
    muts = any(isinstance(x, str) for x in sched)
    for k in range(len(descs)):
        if k not in iters and len(descs) > 1 and not muts:
            yield mk_ilv_case(descs[:k] + descs[k + 1:], [x if x < k else x - 1 for x in iters], sched)
        for small in shrink({"lines": ["tbl " + encode(descs[k])], "desc": descs[k], "meta": {}}):
            yield mk_ilv_case(descs[:k] + [small["desc"]] + descs[k + 1:], iters, sched)


def _shrink_tset(case):
    import copy
    rng = random.Random(0)
    base, cols = case["base"], case["newcols"]
    for i in range(len(base["records"])):
        b = copy.deepcopy(base)
        del b["records"][i]
        yield mk_tset_case(rng, b, case["pf"], cols, case["newlim"])
    if len(cols) > 1:
        for i in range(len(cols)):
            yield mk_tset_case(rng, base, case["pf"], cols[:i] + cols[i + 1:], case["newlim"])
    if case["pf"]:
        yield mk_tset_case(rng, base, 0, cols, case["newlim"])
    if case["newlim"] is not None:
        yield mk_tset_case(rng, base, case["pf"], cols, None)
    for key in ("header", "footer", "limits"):
        if base.get(key) is not None:
            b = copy.deepcopy(base)
            b[key] = None
            yield mk_tset_case(rng, b, case["pf"], cols, case["newlim"])


def _shrink_obj2(case):
    import copy
    rng = random.Random(0)
    for key in ("sa", "sb"):
        sx = case[key]
        for i in range(len(sx["records"])):
            s2 = copy.deepcopy(sx)
            del s2["records"][i]
            yield mk_obj2_case(rng, case["donor2"], case["pf"], case["via"], s2 if key == "sa" else case["sa"],
                               s2 if key == "sb" else case["sb"])
    for small in shrink({"lines": ["tbl " + encode(case["donor2"])], "desc": case["donor2"], "meta": {}}):
        if small["desc"].get("skip") is None:
            yield mk_obj2_case(rng, small["desc"], case["pf"], case["via"], case["sa"], case["sb"])
    if case["pf"]:
        yield mk_obj2_case(rng, case["donor2"], 0, case["via"], case["sa"], case["sb"])


def shrink(case):
    if "donor2" in case:
        yield from _shrink_obj2(case)
        return
    if "newcols" in case:
        yield from _shrink_tset(case)
        return
    if "donor" in case:
        yield from _shrink_obj(case)
        return
    if "descs" in case:
        yield from _shrink_ilv(case)
        return
    desc = case.get("desc")
    if desc is None:
        return
    import copy

    def mk(d):
        if d.get("cols") is not None and d.get("valid"):
            d["fmt"] = fmt_str(random.Random(0), d["cols"], d.get("fmt_limits"), plain=True)
        return {"lines": ["tbl " + encode(d)], "desc": d, "meta": case.get("meta", {})}
    for i in range(len(desc["records"])):
        d = copy.deepcopy(desc)
        del d["records"][i]
        if d.get("same"):
            # keep the sharing among the remaining records
            old = dict(map(tuple, d["same"]))
            groups = {}
            for j in range(len(desc["records"])):
                if j != i:
                    groups.setdefault(old.get(j, j), []).append(j - (j > i))
            d["same"] = [[m, g[0]] for g in groups.values() for m in g[1:]] or None
        yield mk(d)
    if desc.get("cols") and len(desc["cols"]) > 1 and desc.get("valid"):
        for i in range(len(desc["cols"])):
            d = copy.deepcopy(desc)
            del d["cols"][i]
            if any(c["w"] != "hidden" and c["f"] not in (d.get("skip") or []) for c in d["cols"]):
                yield mk(d)
    for key in ("header", "footer", "limits", "skip"):
        if desc.get(key) is not None:
            d = copy.deepcopy(desc)
            d[key] = None
            yield mk(d)
    if desc.get("fields"):
        for i, f in enumerate(desc["fields"]):
            if f.get("title") is not None:
                d = copy.deepcopy(desc)
                d["fields"][i]["title"] = None
                yield mk(d)
    for i, r in enumerate(desc["records"]):
        for j, v in enumerate(r):
            if isinstance(v, str) and len(v) > 1 and not desc.get("same"):
                d = copy.deepcopy(desc)
                d["records"][i][j] = v[:len(v) // 2]
                yield mk(d)
    if desc.get("cols") and desc.get("valid"):
        for i, c in enumerate(desc["cols"]):
            if c.get("brk"):
                d = copy.deepcopy(desc)
                d["cols"][i]["brk"] = False
                yield mk(d)


def nontrivial(case, replies):
    line = case["lines"][0]
    if not line.startswith("tbl "):
        return True
    return replies[0].startswith("err ") or bool(case.get("desc", {}).get("records"))


def tags(case, replies):
    kind = case.get("meta", {}).get("kind", "?")
    yield kind
    rep = replies[0]
    yield "reply:" + (rep.split()[0] + (":" + rep.split()[1] if rep.startswith("err") else ""))
    for d in ([case.get("desc")] if case.get("desc") else []) + list(case.get("descs") or []) + \
            ([case["donor"]] if "donor" in case else []) + ([case["base"]] if "base" in case else []):
        fs = d.get("fields") or []
        if any(f.get("custom") for f in fs):
            yield "feature:custom-field-type"
            if any(f["custom"]["align"] == 2 for f in fs if f.get("custom")):
                yield "feature:centre-aligned-type"
        if any(f.get("pos") is not None for f in fs):
            yield "feature:fields-mix-objects-and-names" if any(f.get("pos") is None for f in fs) else \
                "feature:fields-all-objects"
        if any("/" in (c.get("mod") or "") for c in (d.get("cols") or [])):
            yield "feature:modifier-with-slash"
    if "newcols" in case:
        yield "setter:" + ("printed-table" if case["pf"] else "fresh-table")
        if any(c["w"] not in (None, "hidden") and c["w"][1] == 0 for c in case["newcols"]):
            yield "setter:zero-width-bound"
        if any(c["w"] not in (None, "hidden") and c["w"][0] == c["w"][1] for c in case["newcols"]):
            yield "setter:min=max"
        return
    if "donor" in case:
        yield "fmt_obj:" + ("made-directly" if case["via"] else ("of-printed-table" if case["pf"] else "of-fresh-table"))
        d2 = case["desc2"]
        nf, nl = effective_limits(d2)
        if case["second"].get("limits") is None and nf is not None and nl is not None and nf != nl:
            yield "fmt_obj:asymmetric-limits-inherited"
            try:
                if spec_body(d2, visible_columns(d2))[1] is not None:
                    yield "fmt_obj:asymmetric-limits-apply"
            except Exception:
                pass
        return
    if "donor2" in case:
        yield "siblings:" + ("format-made-directly" if case["via"] else "format-of-a-table")
        if case["sb"].get("limits") is not None:
            yield "siblings:second-has-own-limits"
        if case["sb"].get("skip"):
            yield "siblings:second-skips-a-column"
        return
    if "descs" in case:
        if any(str(x)[0] == "L" for x in case["sched"]):
            yield "interleaved:limits-changed-meanwhile"
        if any(str(x)[0] == "A" for x in case["sched"]):
            yield "interleaved:record-appended-meanwhile"
        if any(str(x)[0] in "SV" for x in case["sched"]):
            yield "interleaved:list-edited-in-place-meanwhile"
        if case.get("meta", {}).get("kind") == "grow-past-limits":
            try:
                snaps = descs_at_start(case["descs"], case["iters"], case["sched"])
                a = spec_body(snaps[0], visible_columns(snaps[0]))[1]
                b = spec_body(snaps[1], visible_columns(snaps[1]))[1]
                if a is None and b is not None:
                    yield "grow:first-print-fits-second-skips"
            except Exception:
                pass
        yield "interleaved:tables=%d" % len(set(case["iters"]))
        if len(set(case["iters"])) < len(case["iters"]):
            yield "interleaved:same-table-twice"
        try:
            n = 0
            for d in case["descs"]:
                body, skipped = spec_body(d, visible_columns(d))
                n += (skipped is not None) or (None in body)
            if n >= 2:
                yield "interleaved:service-lines-in-two-tables"
        except Exception:
            pass
        return
    desc = case.get("desc")
    if desc is None or not rep.startswith("ok "):
        return
    lines = [dec_str(t) for t in rep.split()[2:]]
    yield "records:%s" % min(len(desc["records"]), 13)
    if desc.get("same"):
        yield "feature:one-record-object-at-several-places"
    if desc.get("cols") and any(c["w"] not in (None, "hidden") and c["w"][0] > c["w"][1] for c in desc["cols"]):
        yield "feature:min-greater-than-max"
    yield "columns:%d" % max(0, lines[0].count("+") - 1)
    if desc.get("valid"):
        try:
            body, skipped = spec_body(desc, visible_columns(desc))
            if skipped is not None:
                yield "feature:records-skipped"
            if None in body:
                yield "feature:break-line-shown"
        except Exception:
            pass
    if any("..." in l or l.endswith(".|") for l in lines[1:]):
        yield "feature:truncated-cell"
    if "++" in lines[0]:
        yield "feature:zero-width-column"
    if any(f.get("enum") for f in (desc.get("fields") or [])):
        yield "feature:enum"
    if desc.get("cols") and any(c.get("brk") for c in desc["cols"]):
        yield "feature:break-by"
    if desc.get("header") and len(desc["header"]) > len(lines[0]):
        yield "feature:long-header"


RULE = ("tables: 1-4 fields (one of them an enum in 40%), 0-12 records of mixed types with repeated neighbours, 1-4 "
        "columns with repeats, fixed/ranged/zero/default widths, hidden columns, break-by, all enum modifiers with "
        "known/unknown/None values and values equal to a key or to each other but printed differently (1/True/1.0), "
        "multi-line titles, long headers/footers, limits 0-4 in the format and/or the `limits` argument, decorated "
        "format strings; user-written field types (own bounds, left/centre/right, free-text modifiers incl. '/'); "
        "`fields` mixing names and RecordField objects with own positions; `table.fmt = <format>` on a fresh or "
        "printed table (zero and min=max bounds) then print; field-less tables; malformed formats/fields/records; tables built with fmt_obj= (format "
        "of another fresh/printed table or PPTableFormat.make, mostly asymmetric limits, other records); 2-4 line "
        "iterators over 1-3 tables (also two over one table) advanced in a random or zip-like interleaving, in half "
        "of the cases with set_limits on the live format / records appended, replaced or the list reversed in place "
        "at any point in between (print, edit, print again included) and zero-width columns, each "
        "judged against its own table as it is when the iterator starts; print (nothing skipped), grow the body past the "
        "limits (records appended, or a record replaced so that a break line appears), print again; tables wider than "
        "256 / 999 characters with "
        "values, headers and footers that fit exactly, by one more and by one less; two siblings from one format object, the "
        "second with its own limits=/skip_columns=, the first and the donor printed again afterwards; fit_to_width/resize_chunks_list "
        "called directly (diagnostic lines). non-trivial = a table with at least one record or a rejected one; "
        "distinct by protocol line")
TRUSTED = ["str() of int/float/bool/None (the float text and its exact ratio travel as data)",
           "str.isspace() of the running Python (whitespace set generated into Gen/C12.lean)"]
ASSUMPTIONS = ["no text that goes into a printed line contains a line break: neither the str() of a cell value, nor the "
               "header, the footer, the name an enum gives a value (or its missing-value name), nor the tag a user-written "
               "field type adds; e.g. PPTable(..., header='x\\ny') prints two ragged lines. (Field TITLES may contain "
               "line breaks: they are split into title lines, modelled.) The model counts characters of a List Char, so its "
               "theorems hold there too, but 'line' then no longer means what the property means; such inputs are not "
               "generated. At least one visible column. (Both out of the property's domain.)",
               "whether a value equal to an enum key but of another type (True for key 1) is a known value is not said "
               "by the property: the oracle accepts both names; the model follows the code (dict lookup: known)",
               "widths in format strings use ASCII digits (int() also accepts other Unicode decimal digits)"]

LEVEL_TEXT = ("Kernel-checked on the model; every theorem about a rendering is conditional on `render t = .ok ...` (there "
              "is no totality theorem: that a well-formed table prints at all rests on the tie), and 'line' means what the "
              "property means only when no text that goes into a line (cell value, header, footer, enum value name, type "
              "tag) contains a line break (ASSUMPTIONS). "
              "fit_to_width/resize_chunks_list give exactly the asked width and only pad (left/right/centre) or "
              "cut-and-dot; resize is the resize_chunks_list of the CHText model of C08 (fit_exact, resize_exact, "
              "blanks_are_blanks); every printed line has length sum(widths)+ncols+1 (rectangular); title and record "
              "lines carry '|' under every '+' of the border, framed lines start and end with '|' (separators); the "
              "characters between two separators are the fitted text of that record's own field / of the field's own "
              "title line (cell_content, cell_default, title_content); negotiated widths satisfy w <= max always and "
              "min <= w when min <= max (width_bounds, under the hypothesis that widths already present are inside the "
              "bounds; reach_width_inv proves that hypothesis for every state in Table.Reach - constructor with or without "
              "fields=, column objects, fmt_obj= of a reachable table, then any order of print / table.fmt = s / "
              "re-construction / set_limits / remove_columns - and width_bounds_reachable is the statement without "
              "hypothesis; with contradictory bounds min > max the maximum wins); the skipped-records line is '|' + "
              "'... <n> records skipped' + '|' with n the announced number of `limits`, padded to the table's inner width "
              "or cut-and-dotted when the table is narrower, a break line is '|' blanks '|' (service_lines); on the first printing every column is at least as wide as the negotiation length of "
              "every visible cell and of the title, up to max (full_when_fits) - for the default and user-written "
              "field types that length is the printed text's length (cell_len_exact), so a value that fits max is "
              "never cut; for enum columns the code computes the length separately ('val' = widest key) and a cell "
              "may be cut although max would allow it: nothing is claimed there; every record appears in order, break "
              "lines only directly before a record; for natural-number limits first, last >= 0: exactly first/last "
              "lines plus one skipped line whose number is the count of hidden records (>= 1) and adds up to the total "
              "(limits; negative limits are modelled and tied, not covered); printing has no memory (print_twice), "
              "interleaved line iterators each yield their own table's lines (interleaved, interleaved_run) and a started "
              "iterator keeps the lines of its table as it was at that moment whatever set_limits / append / other "
              "starts follow (snapshot_kept); a table "
              "built with fmt_obj= from another table's format and the same records prints the same, both limits "
              "included, limits=/skip_columns= act as given, and it is the same table whether or not the donor had "
              "been printed (fmt_obj_same, ctor_options, widths_faithful, fmt_obj_ignores_printing); a name at index i "
              "of fields=[...] reads record[i], a RecordField object keeps its own position (field_positions); bounds "
              "written in a format - zero included - are the column's bounds through setter and constructor "
              "(setter_bounds, ctor_bounds). User-written field types are part of the model. Model = code rests on the "
              "differential run (all rendered lines compared exactly, per iterator, for fmt_obj tables and siblings).")
LEVEL_NOTE = ("Trusted: Lean kernel, translator (constants of ak/ppobj.py regenerated on each run: dots, border marks, "
              "default widths, texts; C08's constants for the CHText chunk operations), adapter/wire format in "
              "harness/c12.py, sampled correspondence. Colours are not modelled (all chunks plain: no_color=True; "
              "C08-C10 cover colours). C12.limits assumes natural-number limits; negative limits are modelled (Python "
              "slicing) and tied but not covered. Tie only: enhanced formats (value paths) are not modelled. The generator laziness of gen_ch_lines is "
              "modelled as 'all work at the first next()', which the interleaved tie validates, set_limits and appended "
              "records while a print is being consumed included.")
TECHNIQUE = ("Lean 4 theorems over an executable model of the table printer built on the CHText model + constant "
             "translator + differential run (single tables, fmt_obj tables, interleaved iterators)")
