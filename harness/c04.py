"""C04 — source positions are exact and cover the text (ak/llparser.py: _Tokenizer.tokenize, SrcPos,
TElement span computation in LLParser.parse, TElement.get_orig_text).

Protocol (every line is self-contained; `cfg=`, `g=`, `smart=` are read by the adapter only, the
explicit configuration data by the Lean driver only):

  tok  cfg=<i> <spanKinds> <synonyms> <keywords> <endName> <s|l> <text> <re-table>
        -> ok  sl.sc.el.ec/<get_orig_text>;...   (all tokens, skipped ones and $END$ included)
         | err LexicalError <line> <col>
  tokv (same request)     -> ok <name>:<value>;...          diagnostic only (names/values are not C04)
  got  <s|l> <text> sl sc el ec   -> ok <text> | err AssertionError       (get_orig_text of any span)
  plex cfg=<i> g=<j> smart=<0|1> <spanKinds> <synonyms> <keywords> <endName> <s|l|t> <text> <re-table>
        -> err LexicalError <l> <c> | ok      what `LLParser.parse(text)` does about the characters: a LexicalError
           (wherever the unmatched character is, whatever the grammar says about the tokens before it) or anything
           else (a tree, a ParsingError: "ok")
  gseq <text>|<text>|… <ti.sl.sc.el.ec;…>  -> ok <text>;…   a SEQUENCE of get_orig_text calls on str texts of equal
        length; the adapter builds every text afresh inside the call ("\n".join(lines)) and releases it at once, so
        that consecutive calls see different str objects at (very likely) the same address; the model has no memory
  ptree cfg=<i> g=<j> smart=<0|1> <spanKinds> <synonyms> <keywords> <endName> <s|l|t> <text> <re-table>
       <names> <groups> <skip> <start> <prods>
        -> ok sl.sc.el.ec/<get_orig_text>;... (all nodes of the raw tree, pre-order) | err ParsingError <l> <c>
         | err LexicalError <l> <c>      the model builds the parser from the productions (LL model of C01),
           tokenizes and parses by itself, carrying the positions through every roll-back.  DIAGNOSTIC only:
           tree shape / accept-reject are C01-C03; spans are judged on the real tree (`tree` lines, oracle)
  ctree (same request as tree) -> the same reply, taken from `root.clone()`: a copy of a tree carries the same spans
  tree cfg=<i> g=<j> smart=<0|1> <spanKinds> <synonyms> <keywords> <endName> <skip> <s|l> <text>
       <re-table> <shape>  -> ok sl.sc.el.ec/<get_orig_text>;...   (all nodes of the raw tree, pre-order)

`re-table` is what the library `re` answers for the configuration's patterns at every column of every
line the tokenizer iterates over (computed here with `re` itself, never by the repository's code);
`shape` is the shape of the raw tree (do_cleanup=False) the real parser returned (`(`..`)` inner node — also a
flattened ProdSequence node —, `t` token leaf, `e` node that matched nothing): the model recomputes every span
from the token positions and that shape.
"""
import ast
import os
import re

from harness.core import enc_str

PROPERTY = "C04"
READY = True
THEOREMS = [
    "C04.bases_std", "C04.tok_adjacent", "C04.tok_line_start", "C04.tok_monotone", "C04.tok_orig_text",
    "C04.tok_provenance", "C04.orig_text_exact", "C04.node_span", "C04.lex_error_line", "C04.tok_cover",
    "C04.tok_cover_unique", "C04.end_token", "C04.node_span_unique", "C04.node_orig_text",
    "C04.parse_is_ll_run", "C04.parse_node_span", "C04.parse_node_orig_text", "C04.parse_error_pos",
    "C04.lex_error_first", "C04.lex_error_complete", "C04.lex_error_unique", "C04.unmatched_char_raises",
    "C04.parse_lexical_first", "C04.no_out_of_fuel", "C04.ex_reIn", "C04.ex_tokens",
]
RULE = ("distinct by protocol text; non-trivial = the text has at least two tokens besides $END$, or a lexical "
        "error, or more than one line")
TRUSTED = ["library `re` (its answers enter the model as a table computed by the harness)",
           "str.split('\\n'), str.rstrip (modelled: splitNl, rstrip over the generated isspace class)"]
ASSUMPTIONS = ["token patterns never match the empty string (the real tokenizer does not advance on such a match; "
               "the model reports OUT-OF-FUEL); hypothesis `ReAdv` of C04.no_out_of_fuel only - a result `.ok` already implies "
               "that every match advanced",
               "every match of `re` ends inside its line (hypothesis `ReIn` of tok_orig_text / node_orig_text; checked "
               "by the driver on every request: `tableOk`)",
               "a list (tuple, iterable) of lines is the text split at its newlines: its lines contain no '\\n'. Lines "
               "that KEEP their line end (a file object, readlines()) are outside: get_orig_text(['ab\\n', 'cd\\n']) of "
               "the root is 'ab\\n\\ncd' on the real code (the lines are joined by '\\n'; a '\\n' inside a line is then an "
               "ordinary blank character of that line) - never generated, not covered by the theorems",
               "str input: the theorems about tokens cover the right-stripped lines (what the tokenizer iterates over); "
               "trailing whitespace of a line belongs to no token",
               "node_orig_text / parse_node_orig_text: the input is not the list of zero lines",
               "span matchers have a named group (the code reads match.lastgroup)",
               "texts are sequences of Unicode scalar values (lone surrogates are never generated: the protocol's "
               "Char.ofNat has no value for them)"]


# ------------------------------------------------------------------ configurations and grammars
_ML = r"(?P<END_COMMENT>(\*[^/]|[^*])*)\*/"

CONFIGS = [
    dict(name="plain",
         pat=r"""(?P<SPACE>\s+)|(?P<WORD>[a-z]+)|(?P<NUM>[0-9]+)|(?P<SEMI>;)""",
         W="WORD", N="NUM", S="SEMI",
         lexW=["ab", "a", "cd"], lexN=["12", "7"], lexS=[";"], fill=[], extra=[], bad=["?"], alpha="ab1 ;\n\t?"),
    dict(name="eol-syn-kw",
         pat=r"""(?P<SPACE>\s+)|(?P<COMMENT>//.*)|(?P<WORD>[a-z]+)|(?P<NUM>[0-9]+)|(?P<SEMI>;)|(?P<PLUS>\+)""",
         syn={"PLUS": "+", "SEMI": ";"}, kw={("WORD", "if"): "IF", ("WORD", "a"): "ART"},
         W="WORD", N="NUM", S=";",
         lexW=["ab", "b", "iff"], lexN=["12", "7"], lexS=[";"], fill=["// c\n", "//\n"], extra=["if", "a", "+"],
         bad=["?", "/"], alpha="aif1 ;+/\n?"),
    dict(name="span-comment",
         pat=r"""(?P<SPACE>\s+)|(?P<COMMENT_EOL>//.*)|(?P<COMMENT_ML>/\*)|(?P<WORD>[a-z]+)|(?P<NUM>[0-9]+)
                 |(?P<SEMI>;)|"(?P<DQ_STRING>[^"]*)"|(?P<DIV>/)|(?P<MULT>\*)""",
         spans={"COMMENT_ML": _ML},
         syn={"COMMENT_EOL": "COMMENT", "COMMENT_ML": "COMMENT", "DQ_STRING": "STRING"},
         W="WORD", N="STRING", S="SEMI",
         lexW=["ab", "a"], lexN=['"s t"', '""'], lexS=[";"],
         fill=["/* x */", "/*x\ny*/", "/*\n\n  */", "/**/", "// c\n", "/* a\n b\n c */"],
         extra=["12", "/", "*", "/*", "*/"], bad=["?", '"'], alpha='a1 ;/*"\n?'),
    dict(name="span-token-in-grammar",
         pat=r"""(?P<SPACE>[ ]+)|(?P<WORD>[a-z]+)|(?P<NUM>[0-9]+)|(?P<SEMI>;)|(?P<ML_OPEN><<)""",
         spans={"ML_OPEN": r"(?P<ML_BODY>[^>]*)>>"}, syn={"ML_OPEN": "TEXT"},
         W="WORD", N="TEXT", S="SEMI",
         lexW=["ab", "a"], lexN=["<<x>>", "<< a\nb >>", "<<\n\n>>", "<<>>", "<<a\n  >>"], lexS=[";"], fill=[],
         extra=["12", "<<", ">>"], bad=["\t", ">", "<"], alpha="a1 ;<>\n\t"),
    dict(name="two-spans-kw",
         pat=r"""(?P<SPACE>\s+)|(?P<COMMENT_ML>/\*)|(?P<WORD>[a-z]+)|(?P<NUM>[0-9]+)|(?P<SEMI>;)|(?P<ML_OPEN><<)""",
         spans={"COMMENT_ML": _ML, "ML_OPEN": r"(?P<ML_BODY>[^>]*)>>"},
         kw={("WORD", "if"): "IF"}, skip=["SPACE", "COMMENT_ML"],
         W="WORD", N="ML_OPEN", S="SEMI",
         lexW=["ab", "b"], lexN=["<<x>>", "<<\n>>", "<< /*\n*/ >>"], lexS=[";"],
         fill=["/* */", "/*\n*/", "/* <<\n>> */"], extra=["if", "12", "/*", "*/", "<<", ">>"], bad=["?", "*"],
         alpha="a1 ;/*<>\n"),
    # characters that text-handling code is tempted to normalise are ordinary characters here: BOM, NUL, zero-width
    # space/joiners, soft hyphen, word joiner are blanks of this language (rstrip does NOT remove them), combining
    # marks and astral letters are letters; a column is a count of characters (code points), not a display width
    dict(name="unicode",
         pat=r"""(?P<SPACE>[\s\ufeff\u200b\u200c\u200d\u2060\u00ad\x00]+)
                 |(?P<WORD>[a-z\u00e9\u0301\u0308\U00010400\U0001F600]+)|(?P<NUM>[0-9]+)|(?P<SEMI>;)""",
         W="WORD", N="NUM", S="SEMI",
         lexW=["ab", "e\u0301", "\U00010400b", "a\U0001F600", "\xe9", "a\u0308\u0301"], lexN=["12", "7"], lexS=[";"],
         fill=["\ufeff", "\u200b", "\x00", "\u00ad", "\u2060", "\xa0", "\u3000", "\r", "\t", "\u200d", " \ufeff\n"],
         extra=[], bad=["?", "\u0300", "\u202e", "\U0001F601"],
         alpha="a\u0301 ;\n\t\r\ufeff\u200b\x00\U0001F600?1"),
    # several span kinds, two pairs of them reported under ONE synonym each, closers with a shared prefix (`*/`, `*)`):
    # a span is closed by the matcher of its own opener, whatever name the token is reported under
    dict(name="spans-shared-synonym",
         pat=r"""(?P<SPACE>\s+)|(?P<DQ3>\"\"\")|(?P<SQ3>''')|(?P<C_COMMENT>/\*)|(?P<P_COMMENT>\(\*)
                 |(?P<WORD>[a-z]+)|(?P<NUM>[0-9]+)|(?P<SEMI>;)""",
         spans={"DQ3": r'(?P<END_DQ3>.*?)\"\"\"', "SQ3": r"(?P<END_SQ3>.*?)'''", "C_COMMENT": _ML,
                "P_COMMENT": r"(?P<END_P>.*?)\*\)"},
         syn={"DQ3": "ML_STRING", "SQ3": "ML_STRING", "C_COMMENT": "COMMENT", "P_COMMENT": "COMMENT"},
         W="WORD", N="ML_STRING", S="SEMI",
         lexW=["ab", "a"], lexN=['"""x"""', "'''y'''", '"""a\n\'\'\' b"""', "'''\n\"\"\" \n'''", '""""""',
                                 "''' \"\"\" '''"], lexS=[";"],
         fill=["/* x */", "(* y *)", "/* (* */", "(* /* \n */ *)", "(* a\n*)", "/* *) \n*/"],
         extra=['"""', "'''", "(*", "*)", "*/", "12"], bad=["?", "*", "(", "'", '"'],
         alpha="a1 ;/*()\"'\n"),
    # token patterns that begin (or end) with a context assertion: `^`, `\b`, look-behind, `$` - what matches at a
    # column depends on the characters BEFORE it: `pattern.match(line, col)`, not `pattern.match(line[col:])`
    dict(name="context-assertions",
         pat=r"""(?P<SPACE>\s+)|(?P<DIRECTIVE>^\#[a-z]+)|(?P<LBL>^[a-z]+:)|(?P<ARG>(?<=\()[0-9a-z]+(?=\)))
                 |(?P<NUMBER>\b[0-9]+)|(?P<NEG>(?<![0-9a-z])-[0-9]+)|(?P<LAST>[a-z]+$)|(?P<WORD>[a-z]+)
                 |(?P<COLON>:)|(?P<LP>\()|(?P<RP>\))|(?P<SEMI>;)|(?P<MINUS>-)""",
         W="WORD", N="NUMBER", S="SEMI",
         lexW=["ab", "cd", "a"], lexN=["12", "7"], lexS=[";"], fill=[],
         extra=["#inc", "lab:", "(a1)", "(12)", "f(x)", "n:", ":", "(", ")", "-5", "a-5", "- 5", "ab;", "x(1);"],
         bad=["?", "#", "ab12", "x#y", "1a2"], alpha="a1 ;:()#-\n"),
    # tokenizer string and span matchers written in verbose style (what re.VERBOSE accepts: blanks, comments, several
    # lines inside the pattern strings) - both are compiled with re.VERBOSE
    dict(name="verbose-style",
         pat=r"""
            (?P<SPACE> \s+ )            # blanks
            | (?P<COMMENT_ML> / \* )    # opener of a comment   (closer: see span_matchers)
            | (?P<TEXT_OPEN> \[ \[ )    # opener of a text block
            | (?P<WORD> [a-z]+ ) | (?P<NUM> [0-9]+ )
            | (?P<SEMI> ; )
            | (?P<HASH> \# )            # an escaped hash is a token, an unescaped one starts a comment
            """,
         spans={"COMMENT_ML": r"""
                    (?P<END_COMMENT> ( \* [^/] | [^*] )* )   # body: no star followed by a slash
                    \* /                                     # the closer
                    """,
                "TEXT_OPEN": r"""(?P<TEXT_BODY> [^\]]* )   # anything but a bracket
                                 \] \]"""},
         syn={"COMMENT_ML": "COMMENT", "TEXT_OPEN": "TEXT"},
         W="WORD", N="TEXT", S="SEMI",
         lexW=["ab", "a"], lexN=["[[x]]", "[[ a\nb ]]", "[[]]", "[[ # \n\n]]"], lexS=[";"],
         fill=["/* x */", "/*x\ny*/", "/* # */", "/**/", "/* a\n b */"], extra=["12", "#", "/*", "*/", "[[", "]]"],
         bad=["?", "]", "/", "*"], alpha="a1 ;/*[]#\n"),
    dict(name="suite",
         pat=r"""
            (?P<SPACE>\s+)
            |(?P<COMMENT_EOL>//.*)
            |(?P<COMMENT_ML>/\*)
            |(?P<WORD>[a-zA-Z_][a-zA-Z0-9_]*)
            |"(?P<DQ_STRING>[^"]*)"
            |'(?P<SQ_STRING>[^']*)'
            |(?P<PLUS>\+)
            |(?P<MINUS>-)
            |(?P<MULT>\*)
            |(?P<DIV>/)
            |(?P<BR_OPEN>\()
            |(?P<BR_CLOSE>\))
            """,
         spans={"COMMENT_ML": _ML},
         kw={("WORD", "class"): "CLASS", ("WORD", "import"): "IMPORT"},
         syn={"PLUS": "+", "MINUS": "-", "MULT": "*", "DIV": "/", "BR_OPEN": "(", "BR_CLOSE": ")",
              "DQ_STRING": "STRING", "SQ_STRING": "STRING", "COMMENT_EOL": "COMMENT", "COMMENT_ML": "COMMENT"},
         W="WORD", N="STRING", S="-",
         lexW=["aaa", "x86", "_"], lexN=['"bb"', "'+ -'"], lexS=["-"],
         fill=["/* c */", "// e\n", "/*\n c\n*/"], extra=["class", "+", "*", "/", "(", ")", "/*", "*/"], bad=["1", "'"],
         alpha="ax_ \"'+-*/()\n1"),
    # span matchers whose BODY part restricts what may stand in front of the closer: the matcher has to match AT the
    # current column (anchored), a closer further right on the line with a shorter body is not the end of the span -
    # string literal with escapes (an escaped quote does not close it), here-document whose closer must start the
    # line, the comment matcher for which `**/` (even run of `*`) is not a closer
    dict(name="body-restricting-spans",
         pat=r"""(?P<SPACE>\s+)|(?P<STR>")|(?P<HEREDOC><<EOT)|(?P<COMMENT_ML>/\*)|(?P<WORD>[A-Za-z]+)|(?P<NUM>[0-9]+)
                 |(?P<SEMI>;)|(?P<EQ>=)""",
         spans={"STR": r'''(?P<STR_BODY>(\\.|[^"\\])*)"''', "HEREDOC": r"(?P<DOC>)EOT", "COMMENT_ML": _ML},
         syn={"STR": "TEXT", "HEREDOC": "TEXT", "COMMENT_ML": "COMMENT"},
         W="WORD", N="TEXT", S="SEMI",
         lexW=["ab", "a", "EOT"],
         lexN=['"s t"', '""', '"a \\" b"', '"say \\"hi\\" and\ngo on"', '"a\\\\"', '"x \\\n\\" y"', '"\\"\n\\"\n"',
               "<<EOT\nab\nEOT", "<<EOT\n a EOT b\nEOT", "<<EOT\nEOT", "<<EOT\n EOT\n\nEOT", "<<EOT EOT;\nEOT", "<<EOTEOT"],
         lexS=[";"],
         fill=["/* x */", "/* **/ x */", "/***/\n*/", "/* a\n b **/ c\n*/", "/**/"],
         extra=['"', "EOT", "<<EOT", "=", "12", "*/", "/*", '\\"'], bad=["?", "\\", "<", "*"],
         alpha='a" \\;<EOT*/\n'),
]

# W, N, S are replaced by the configuration's terminals
GRAMMARS = [
    {"E": [("W", "E"), ("N", "E"), ("S", "E"), ()]},
    {"E": [("A", "S")], "A": [("W", "N"), ("W",)]},
    {"E": [("A", "S", "E"), ()], "A": [("W", "OPT")], "OPT": [("N",), ()]},
    {"E": [("P", "Q", "R")], "P": [("W",), ()], "Q": [("N",), ()], "R": [("S",), ()]},
    {"E": [("A", "E"), ()], "A": [("W", "N", "S"), ("W", "N"), ("W", "S")]},
    {"E": [("ST", "E"), ()], "ST": [("W", "ARGS", "S"), ("N", "S")], "ARGS": [("N", "ARGS"), ()]},
    {"E": [("P", "B", "Q")], "P": [("N",), ()], "B": [("W", "P", "B"), ()], "Q": [("S", "Q"), ("S",), ()]},
    # an inner node all of whose children are empty (X), in the middle and at the end
    {"E": [("W", "X", "R")], "X": [("P", "Q")], "P": [("N",), ()], "Q": [("S",), ()], "R": [("W", "X"), ()]},
    # a ProdSequence node (flattened by parse() itself: a leaf whose value is the list of matched elements)
    {"E": [("SEQ", "S", "E"), ()], "SEQ": ("ProdSequence", "W", "A"), "A": [("N", "N"), ("N",)]},
    # --- grammars that really backtrack: an empty alternative / empty first child is reached by ROLL-BACK after
    # another alternative consumed >= 1 token and failed (the parse table has two entries for the look-ahead)
    {"E": [("LABEL", "ST", "E"), ()], "LABEL": [("W", "S"), ()], "ST": [("W", "ARGS", "N"), ("N",)],
     "ARGS": [("W", "ARGS"), ()]},                                         # optional label `w ;` before a statement
    {"E": [("LABEL", "W", "N")], "LABEL": [("W", "S"), ()]},                 # the nullable symbol is the root's first child
    {"E": [("A", "S"), ("B", "N")], "A": [("W", "OPT", "W")], "B": [("W", "OPT")], "OPT": [("N", "S"), ()]},
    {"E": [("P", "Q", "E"), ()], "P": [("W", "W", "S"), ("W", "N"), ()], "Q": [("W", "S"), ("W",), ("N",)]},
    {"E": [("X", "Y")], "X": [("W", "N", "X"), ()], "Y": [("W", "N", "S"), ("W", "S"), ()]},   # fails two tokens late
    # --- the fallback after the roll-back is a NON-EMPTY production all of whose children match nothing (nullable
    # non-terminals), one and two levels deep: the node has children, no token, and a failed attempt behind it
    {"E": [("LABEL", "W", "N")], "LABEL": [("W", "S"), ("OPT",)], "OPT": [("S",), ()]},
    {"E": [("LABEL", "ST", "E"), ()], "LABEL": [("W", "S"), ("M",)], "M": [("OPT", "OPT")], "OPT": [("S",), ()],
     "ST": [("W", "N"), ("N",)]},
    {"E": [("X", "W", "N", "E"), ()], "X": [("W", "N", "S"), ("W", "S"), ("P", "Q")], "P": [("S", "S"), ()],
     "Q": [("R",)], "R": [("S",), ()]},
]
BACKTRACKING = (9, 10, 11, 12, 13, 14, 15, 16)


def _names(cfg):
    rx = _rx(cfg)
    names = set(rx[0].groupindex) | set((cfg.get("syn") or {}).values()) | set((cfg.get("kw") or {}).values())
    names.add("$END$")
    return sorted(names)


_RX = {}


def _rx(cfg):
    """the configuration's patterns compiled by the harness itself (the trusted `re`)"""
    k = cfg["name"]
    if k not in _RX:
        _RX[k] = (re.compile(cfg["pat"], re.VERBOSE),
                  {n: re.compile(p, re.VERBOSE) for n, p in (cfg.get("spans") or {}).items()})
    return _RX[k]


def _nid(cfg):
    return {n: i for i, n in enumerate(_names(cfg))}


def _span_kinds(cfg):
    return sorted((cfg.get("spans") or {}).keys())


# ------------------------------------------------------------------ translator
def translate(repo):
    src = open(os.path.join(repo, "ak", "llparser.py")).read()
    tree = ast.parse(src)

    def cls(name):
        for n in tree.body:
            if isinstance(n, ast.ClassDef) and n.name == name:
                return n
        raise ValueError("class %s not found" % name)

    def fn(c, name):
        for n in c.body:
            if isinstance(n, ast.FunctionDef) and n.name == name:
                return n
        raise ValueError("%s.%s not found" % (c.name, name))

    def const(n):
        if isinstance(n, ast.Constant) and isinstance(n.value, int) and not isinstance(n.value, bool) and n.value >= 0:
            return n.value
        raise ValueError("not a natural number literal: " + ast.dump(n))

    def one(s, what):
        if len(s) != 1:
            raise ValueError("%s: expected one value, found %s" % (what, sorted(s)))
        return next(iter(s))

    tok = fn(cls("_Tokenizer"), "tokenize")
    init, start, end, err, base = set(), set(), set(), set(), set()
    for n in ast.walk(tok):
        if isinstance(n, ast.Call) and isinstance(n.func, ast.Name) and n.func.id == "SrcPos" and len(n.args) == 3:
            a1, a2 = n.args[1], n.args[2]
            if isinstance(a1, ast.Constant):
                init.add((const(a1), const(a2)))
            elif isinstance(a1, ast.Name):
                if isinstance(a2, ast.Name):
                    err.add(0)
                elif isinstance(a2, ast.BinOp) and isinstance(a2.op, ast.Add) and isinstance(a2.left, ast.Name):
                    start.add(const(a2.right))
                elif isinstance(a2, ast.BinOp) and isinstance(a2.op, ast.Add) and isinstance(a2.left, ast.Call) \
                        and isinstance(a2.left.func, ast.Attribute) and a2.left.func.attr == "end" \
                        and not a2.left.args:
                    end.add(const(a2.right))
                else:
                    raise ValueError("unknown column expression " + ast.dump(a2))
            else:
                raise ValueError("unknown line expression " + ast.dump(a1))
        if isinstance(n, ast.Call) and isinstance(n.func, ast.Name) and n.func.id == "enumerate":
            kws = {k.arg: k.value for k in n.keywords}
            base.add(const(kws["start"]) if "start" in kws else 0)
        # the comparison that decides "first token of the line": (line_id, col + k)
        if isinstance(n, ast.Compare) and len(n.comparators) == 1 and isinstance(n.comparators[0], ast.Tuple):
            t = n.comparators[0].elts
            if len(t) == 2 and isinstance(t[1], ast.BinOp) and isinstance(t[1].op, ast.Add) \
                    and isinstance(t[1].left, ast.Name):
                start.add(const(t[1].right))
    got = fn(cls("TElement"), "get_orig_text")
    dec = {}
    for n in ast.walk(got):
        if isinstance(n, ast.AugAssign) and isinstance(n.op, ast.Sub) and isinstance(n.target, ast.Name):
            dec[n.target.id] = const(n.value)
    if set(dec) != {"start_l", "start_c", "end_l", "end_c"}:
        raise ValueError("get_orig_text: decrements of %s" % sorted(dec))
    il, ic = one(init, "initial position")
    vals = dict(initLine=il, initCol=ic, lineBase=one(base, "enumerate start"), startOff=one(start, "col + k"),
                endOff=one(end, "match.end() + k"), errOff=one(err, "LexicalError column"),
                origDec=one(set(dec.values()), "get_orig_text decrement"))
    spaces = [c for c in range(0x110000) if chr(c).isspace()]
    return {"AkVerif/Gen/C04.lean":
            "-- GENERATED by harness/c04.py:translate from /repo/ak/llparser.py -- do not edit\n"
            "import AkVerif.Model.SrcPos\n"
            "namespace Gen.C04\n"
            "def bases : SrcPos.Bases :=\n  { %s }\n"
            "def spaceCps : List Nat := [%s]\n"
            "def isSpace (c : Char) : Bool := spaceCps.contains c.toNat\n"
            "end Gen.C04\n" % (", ".join("%s := %d" % kv for kv in vals.items()), ", ".join(map(str, spaces)))}


# ------------------------------------------------------------------ real code
def _ll():
    from ak import llparser
    return llparser


_TK, _PARSERS = {}, {}


def _tokenizer(ci):
    if ci not in _TK:
        cfg = CONFIGS[ci]
        _TK[ci] = _ll()._Tokenizer(cfg["pat"], span_matchers=cfg.get("spans"), synonyms=cfg.get("syn"),
                                   keywords=cfg.get("kw"))
    return _TK[ci]


def _productions(cfg, gi):
    m = {"W": cfg["W"], "N": cfg["N"], "S": cfg["S"]}
    out = {}
    for k, prods in GRAMMARS[gi].items():
        if isinstance(prods, tuple):          # a template: built afresh for every parser
            out[k] = getattr(_ll(), prods[0])(*[m.get(s, s) for s in prods[1:]])
        else:
            out[k] = [tuple(m.get(s, s) for s in p) for p in prods]
    return out


def _parser(ci, gi, smart):
    k = (ci, gi, smart)
    if k not in _PARSERS:
        cfg = CONFIGS[ci]
        _PARSERS[k] = _ll().LLParser(cfg["pat"], productions=_productions(cfg, gi), span_matchers=cfg.get("spans"),
                                     synonyms=cfg.get("syn"), keywords=cfg.get("kw"), skip_tokens=cfg.get("skip"),
                                     smart_factorization=bool(smart))
    return _PARSERS[k]


def _orig(elem_or_tok, text):
    ll = _ll()
    e = elem_or_tok
    if not isinstance(e, ll.TElement):
        e = ll.TElement(e.name, e.value, start_pos=e.start_pos, end_pos=e.end_pos)   # what parse() does for a terminal
    try:
        return enc_str(e.get_orig_text(text))
    except Exception as x:
        return "!" + type(x).__name__


def _show(e, text):
    (sl, sc), (el, ec) = e.start_pos.coords, e.end_pos.coords
    return "%d.%d.%d.%d/%s" % (sl, sc, el, ec, _orig(e, text))


def _err(e):
    if isinstance(e, _ll().LexicalError):
        return "err LexicalError %d %d" % e.src_pos.coords
    if isinstance(e, _ll().ParsingError):
        return "err ParsingError %d %d" % e.src_pos.coords
    return "err " + type(e).__name__


def _kids(e):
    """children of a node of a raw (do_cleanup=False) tree; None for a token leaf, [] for a node that matched
    nothing. A ProdSequence node is flattened by parse(): a 'leaf' whose value is the list of its elements."""
    if e.is_leaf():
        if e.value is None:
            return []
        if isinstance(e.value, list):
            return list(e.value)
        return None
    return list(e.value)


def _walk(e):
    """pre-order nodes of a raw tree"""
    yield e
    for c in _kids(e) or ():
        yield from _walk(c)


def _walk_clean(e, ll):
    """pre-order TElements of a cleaned tree (values may be lists / dicts of TElements and plain values)"""
    yield e
    v = e.value
    items = v if isinstance(v, list) else (list(v.keys()) + list(v.values())) if isinstance(v, dict) else []
    for x in items:
        if isinstance(x, ll.TElement):
            yield from _walk_clean(x, ll)


def _shape(e):
    k = _kids(e)
    if k is None:
        return "t"
    if not k:
        return "e"
    return "(" + "".join(_shape(c) for c in k) + ")"


def _dec_input(kind, data):
    def d(t):
        return "" if t == "-" else "".join(chr(int(x)) for x in t.split(","))
    if kind == "s":
        return d(data)
    lines = [] if data == "!" else [d(x) for x in data.split(";")]
    return tuple(lines) if kind == "t" else lines       # 't': an Iterable that is not a list


def impl(case):
    ll = _ll()
    out = []
    for line in case["lines"]:
        f = line.split()
        try:
            if f[0] in ("tok", "tokv"):
                ci = int(f[1].split("=")[1])
                text = _dec_input(f[6], f[7])
                toks = list(_tokenizer(ci).tokenize(text, "t"))
                if f[0] == "tok":
                    out.append("ok " + ";".join(_show(t, text) for t in toks))
                else:
                    nid = _nid(CONFIGS[ci])
                    out.append("ok " + ";".join("%d:%s" % (nid[t.name], "~" if t.value is None else enc_str(t.value))
                                                for t in toks))
            elif f[0] == "got":
                text = _dec_input(f[1], f[2])
                sl, sc, el, ec = map(int, f[3:7])
                e = ll.TElement("X", "v", start_pos=ll.SrcPos("t", sl, sc), end_pos=ll.SrcPos("t", el, ec))
                out.append("ok " + enc_str(e.get_orig_text(text)))
            elif f[0] == "plex":
                ci, gi, smart = (int(x.split("=")[1]) for x in f[1:4])
                text = _dec_input(f[8], f[9])
                try:
                    _parser(ci, gi, smart).parse(text, do_cleanup=False, src_name="t")
                    out.append("ok")
                except ll.LexicalError as e:
                    out.append(_err(e))
                except ll.ParsingError:
                    out.append("ok")
            elif f[0] == "gseq":
                parts = [_dec_input("s", t).split("\n") for t in f[1].split("|")]
                rs = []
                for c in f[2].split(";"):
                    ti, sl, sc, el, ec = map(int, c.split("."))
                    e = ll.TElement("X", "v", start_pos=ll.SrcPos("t", sl, sc), end_pos=ll.SrcPos("t", el, ec))
                    try:       # the text exists only during the call
                        rs.append(enc_str(e.get_orig_text("\n".join(parts[ti]))))
                    except Exception as x:
                        rs.append("!" + type(x).__name__)
                out.append("ok " + ";".join(rs))
            elif f[0] in ("tree", "ptree", "ctree"):
                ci, gi, smart = (int(x.split("=")[1]) for x in f[1:4])
                text = _dec_input(f[9], f[10]) if f[0] != "ptree" else _dec_input(f[8], f[9])
                root = _parser(ci, gi, smart).parse(text, do_cleanup=False, src_name="t")
                if f[0] == "ctree":
                    root = root.clone()
                out.append("ok " + ";".join(_show(e, text) for e in _walk(root)))
            else:
                out.append("bad-op")
        except Exception as e:
            out.append(_err(e))
    return out


def observable(i, line):
    """names/values of tokens are not C04; the model's own parse (`ptree`) is not C04; get_orig_text is observed on spans that lie inside the text (the
    spans tokens and nodes carry) — its assertions on other spans are compared as diagnostics only"""
    if line.startswith("tokv "):
        return False
    if line.startswith("ptree "):
        # the model parses by itself here (LL model of C01-C03): a different tree shape or outcome is a matter of
        # those properties, not of C04 - compared as a diagnostic only.  Spans are judged on the REAL tree: by the
        # oracle and by the `tree` lines, which carry the real shape as data and ask the model for the spans.
        return False
    if line.startswith("got "):
        f = line.split()
        text = _dec_input(f[1], f[2])
        lines = text.split("\n") if f[1] == "s" else list(text)
        sl, sc, el, ec = map(int, f[3:7])
        return (1 <= sl <= el <= len(lines) and 1 <= sc <= len(lines[sl - 1]) + 1
                and 1 <= ec <= len(lines[el - 1]) + 1 and (sl, sc) <= (el, ec))
    return True


# ------------------------------------------------------------------ building a case from its parameters
def _vis_lines(kind, text):
    """the lines the tokenizer iterates over (documented behaviour: a str is split and right-stripped)"""
    if kind == "s":
        return [t.rstrip() for t in text.split("\n")]
    return list(text)


def _enc_input(kind, text):
    if kind == "s":
        return "s " + enc_str(text)
    return kind + " " + (";".join(enc_str(t) for t in text) if text else "!")


def _re_table(cfg, lines):
    rx, bodies = _rx(cfg)
    nid = _nid(cfg)
    kinds = _span_kinds(cfg)

    def entry(m, named):
        if m is None:
            return "x"
        g = m.lastgroup
        return "%d,%d,%d,%d" % (m.end(), nid[g] if named else 0, m.start(g), m.end(g))

    def row(matcher, line, named):
        return ":".join(entry(matcher.match(line, c), named) for c in range(len(line))) if line else "-"
    if not lines:
        return "!"
    return ";".join("|".join([row(rx, l, True)] + [row(bodies[k], l, False) for k in kinds]) for l in lines)


def _cfg_fields(cfg):
    nid = _nid(cfg)
    kinds = _span_kinds(cfg)
    syn = cfg.get("syn") or {}
    kw = cfg.get("kw") or {}
    return " ".join([
        ",".join(str(nid[k]) for k in kinds) or "-",
        ";".join("%d:%d" % (nid[a], nid[b]) for a, b in sorted(syn.items())) or "-",
        ";".join("%d:%s:%d" % (nid[a], enc_str(v), nid[b]) for (a, v), b in sorted(kw.items())) or "-",
        str(nid["$END$"])])


def _skip_ids(ci, gi):
    p = _parser(ci, gi, 1)
    nid = _nid(CONFIGS[ci])
    return ",".join(str(nid[n]) for n in sorted(p.skip_tokens)) or "-"


def _grammar_fields(cfg, gi):
    """<names> <groups> <skip> <start> <prods> of a `ptree` line: token names first (ids of `_nid`), then the
    non-terminals"""
    names = _names(cfg)
    prods = _productions(cfg, gi)
    for k, alts in prods.items():
        for s in (k,) + tuple(x for a in alts for x in a):
            if s not in names:
                names.append(s)
    nid = {n: i for i, n in enumerate(names)}
    rx = _rx(cfg)[0]
    groups = ",".join(str(nid[g]) for g in rx.groupindex)
    skip = cfg.get("skip")
    skipf = "-" if skip is None else (",".join(str(nid[x]) for x in skip) or "()")
    pf = ";".join("%d=%s" % (nid[k], "|".join(".".join(str(nid[x]) for x in a) or "~" for a in alts))
                  for k, alts in prods.items())
    return "%s %s %s %d %s" % ("|".join(enc_str(n) for n in names), groups, skipf, nid["E"], pf)


def make_case(params, meta=None):
    """params: cfg (index), kind ('s'|'l'), text (str | list of str), g (grammar index | None),
    gots (list of [sl, sc, el, ec])"""
    ci, kind, text, gi = params["cfg"], params["kind"], params["text"], params.get("g")
    if kind == "t":
        text = tuple(text)
    cfg = CONFIGS[ci]
    inp = _enc_input(kind, text)
    tbl = _re_table(cfg, _vis_lines(kind, text))
    cf = _cfg_fields(cfg)
    lines = ["tok cfg=%d %s %s %s" % (ci, cf, inp, tbl), "tokv cfg=%d %s %s %s" % (ci, cf, inp, tbl)]
    for sp in params.get("gots", []):
        lines.append("got %s %d %d %d %d" % ((inp,) + tuple(sp)))
    gs = params.get("gseq")
    if gs:
        lines.append("gseq %s %s" % ("|".join(enc_str(t) for t in gs["texts"]),
                                     ";".join(".".join(map(str, c)) for c in gs["calls"])))
    if gi is not None:
        for smart in (1, 0):
            lines.append("plex cfg=%d g=%d smart=%d %s %s %s" % (ci, gi, smart, cf, inp, tbl))
    m = dict(meta or {})
    if gi is not None and not any(isinstance(v, tuple) for v in GRAMMARS[gi].values()):
        # the model builds the parser from the productions and parses by itself (LL model of C01 + positions)
        gf = _grammar_fields(cfg, gi)
        for smart in (1, 0):
            lines.append("ptree cfg=%d g=%d smart=%d %s %s %s %s" % (ci, gi, smart, cf, inp, tbl, gf))
    if gi is not None:
        for smart in (1, 0):
            try:
                root = _parser(ci, gi, smart).parse(text, do_cleanup=False, src_name="t")
            except Exception as e:          # no tree: nothing to recompute (the oracle looks at the error)
                m["tree%d" % smart] = type(e).__name__
                continue
            m["tree%d" % smart] = "ok"
            lines.append("tree cfg=%d g=%d smart=%d %s %s %s %s %s" % (
                ci, gi, smart, cf, _skip_ids(ci, gi), inp, tbl, _shape(root)))
            if smart == 1:
                lines.append("c" + lines[-1])
    return {"lines": lines, "params": params, "meta": m}


# ------------------------------------------------------------------ oracle: the property itself
def _offsets(lines):
    """offset of the first character of each line in '\\n'.join(lines)"""
    off, o = [], 0
    for l in lines:
        off.append(o)
        o += len(l) + 1
    return off


def _ref_first_gap(cfg, lines):
    """independent scan with `re` only: ('lex', line_no, col0) for the first character no pattern matches,
    ('unclosed',) / ('ok',) otherwise"""
    rx, bodies = _rx(cfg)
    inside = None
    for i, l in enumerate(lines):
        c = 0
        while c < len(l):
            if inside is not None:
                m = bodies[inside].match(l, c)
                if m is None:
                    break
                inside, c = None, m.end()
            else:
                m = rx.match(l, c)
                if m is None:
                    return ("lex", i + 1, c)
                if m.lastgroup in bodies:
                    inside = m.lastgroup
                c = m.end()
    return ("unclosed",) if inside is not None else ("ok",)


def _lexeme_problem(rx, bodies, olines, strip, t, s, e, region):
    """is the text between s and e what `re` matches there (single-line token: the whole match; span token:
    from the opener to the end of a closer)?"""
    def ln(i):
        return olines[i].rstrip() if strip else olines[i]
    line = ln(s[0] - 1)
    m = rx.match(line, s[1] - 1)
    if m is None:
        return "tok-orig-text: no token pattern matches where %s starts" % t
    if m.lastgroup in bodies:
        if e[0] == s[0] and e[1] - 1 < m.end():
            return "tok-orig-text: span token %s ends inside its opener" % t
        # "the whole region from opener to closer": the closer is where the span matcher of the opener's group matches
        # AT the position the scan has reached (behind the opener on its line, column 0 on every later line; a line
        # with nothing left to scan is stepped over) - not a closer met earlier or later
        c = m.end()
        for i in range(s[0] - 1, len(olines)):
            l = ln(i)
            if c < len(l):
                b = bodies[m.lastgroup].match(l, c)
                if b is not None:
                    if (i + 1, b.end() + 1) == e:
                        return None
                    return ("tok-orig-text: span token %s does not run from its opener to the closer: the matcher of %s "
                            "matches at %s and ends at %s" % (t, m.lastgroup, (i + 1, c + 1), (i + 1, b.end() + 1)))
            c = 0
        return "tok-orig-text: span token %s does not end at a closer" % t
    if s[0] != e[0] or m.end() != e[1] - 1:
        return "tok-orig-text: %s: get_orig_text %r is not the lexeme %r" % (t, region, m.group(0))
    if t.value != m.group(m.lastgroup):
        return "tok-orig-text: value of %s is not the matched group %r" % (t, m.group(m.lastgroup))
    return None


def oracle(case, replies):
    ll = _ll()
    p = case["params"]
    cfg, kind, text = CONFIGS[p["cfg"]], p["kind"], p["text"]
    if kind == "t":
        text = tuple(text)
    rx, bodies = _rx(cfg)
    olines = text.split("\n") if kind == "s" else list(text)      # the text as the user sees it
    full = "\n".join(olines)
    off = _offsets(olines)

    def o(pos):
        return off[pos[0] - 1] + pos[1] - 1

    def valid(pos):
        return 1 <= pos[0] <= len(olines) and 1 <= pos[1] <= len(olines[pos[0] - 1]) + 1

    # ---- sequences of get_orig_text calls with freshly built texts: every answer comes from the call's own text
    for l, rep in zip(case["lines"], replies):
        if l.startswith("gseq "):
            f = l.split()
            txts = [_dec_input("s", t) for t in f[1].split("|")]
            answers = rep[3:].split(";") if rep.startswith("ok ") else []
            calls = f[2].split(";")
            if len(answers) != len(calls):
                return "orig-text-sequence: %s" % rep[:60]
            for c, a in zip(calls, answers):
                ti, sl, sc, el, ec = map(int, c.split("."))
                tl = txts[ti].split("\n")
                if not (1 <= sl <= el <= len(tl) and 1 <= sc <= len(tl[sl - 1]) + 1 and 1 <= ec <= len(tl[el - 1]) + 1
                        and (sl, sc) <= (el, ec)):
                    continue
                of = _offsets(tl)
                if a != enc_str(txts[ti][of[sl - 1] + sc - 1:of[el - 1] + ec - 1]):
                    return ("orig-text-sequence: get_orig_text(%r) of span %s returned %s, not the text between the "
                            "positions (a text of an earlier call?)" % (txts[ti], ((sl, sc), (el, ec)), a))
    # ---- lexical errors
    try:
        toks, err = list(_tokenizer(p["cfg"]).tokenize(text, "t")), None
    except ll.LexicalError as e:
        toks, err = None, e
    # the same text as a str and as the list of its (right-stripped) lines is the same text: same outcome, same spans
    if kind == "s":
        try:
            toks_l, err_l = list(_tokenizer(p["cfg"]).tokenize(_vis_lines(kind, text), "t")), None
        except ll.LexicalError as e:
            toks_l, err_l = None, e
        if (err is None) != (err_l is None):
            return "str-vs-lines: as a str the text gives %s, as the list of its lines %s" % (
                "LexicalError" if err else "tokens", "LexicalError" if err_l else "tokens")
        if err is not None and err.src_pos.coords != err_l.src_pos.coords:
            return "str-vs-lines: LexicalError at %s for the str, at %s for the list of its lines" % (
                err.src_pos.coords, err_l.src_pos.coords)
        if err is None and [(t.name, t.span) for t in toks] != [(t.name, t.span) for t in toks_l]:
            return "str-vs-lines: the str and the list of its lines give different token spans"
    ref = _ref_first_gap(cfg, _vis_lines(kind, text))
    if ref[0] == "lex" and p.get("g") is not None:
        # ... and the same through parse(), whatever the grammar thinks of the tokens in front of the character
        for smart in (1, 0):
            try:
                _parser(p["cfg"], p["g"], smart).parse(text, src_name="t")
                got = "a tree"
            except ll.LexicalError as e:
                got = e
            except ll.ParsingError as e:
                got = "ParsingError at %s" % (e.src_pos.coords,)
            if isinstance(got, str):
                return ("parse-lex-missed: character %r at line %d is matched by no pattern, parse() gives %s and no "
                        "LexicalError" % (_vis_lines(kind, text)[ref[1] - 1][ref[2]], ref[1], got))
            if got.src_pos.line != ref[1]:
                return "parse-lex-line: unmatched character on line %d, parse() raises LexicalError for line %d" % (
                    ref[1], got.src_pos.line)
    if ref[0] == "lex":
        if err is None:
            return "lex-missed: character %r at line %d is matched by no pattern, no LexicalError" % (
                _vis_lines(kind, text)[ref[1] - 1][ref[2]], ref[1])
        if err.src_pos.line != ref[1]:
            return "lex-line: unmatched character on line %d, LexicalError names line %d" % (ref[1], err.src_pos.line)
        if err.src_pos.col not in (ref[2], ref[2] + 1):
            return "lex-col: unmatched character at column %d (0-based), LexicalError names %d" % (ref[2], err.src_pos.col)
        return None
    if ref[0] == "unclosed":
        return None                       # the statement says nothing about a span that never closes
    if err is not None:
        ref2 = _ref_first_gap(cfg, olines)        # trailing blanks of a str: both readings are accepted
        if ref2[0] == "lex" and err.src_pos.line == ref2[1]:
            return None
        return "lex-spurious: every character is matched, LexicalError at %s" % (err.src_pos.coords,)

    # ---- tokens
    body, end = toks[:-1], toks[-1]
    prev_end = None
    for k, t in enumerate(body):
        s, e = t.start_pos.coords, t.end_pos.coords
        if not (valid(s) and valid(e)):
            return "tok-range: token %s lies outside the text" % t
        if not s < e:
            return "tok-monotone: token %s does not end after its start" % t
        got = _orig(t, text)
        if got != enc_str(full[o(s):o(e)]):
            return "tok-orig-text: get_orig_text of %s is not the text between its positions" % t
        line = olines[s[0] - 1]
        # spans index the caller's own text: text_lines[line-1][col-1 : end_col-1] is what get_orig_text returns
        if s[0] == e[0] and got != enc_str(line[s[1] - 1:e[1] - 1]):
            return "tok-orig-text: get_orig_text of %s is not text_lines[%d][%d:%d] of the caller's text" % (
                t, s[0] - 1, s[1] - 1, e[1] - 1)
        msg = None
        # a str is documented to be right-stripped line by line: the lexeme may be read on either form
        for strip in ((False, True) if kind == "s" else (False,)):
            msg = _lexeme_problem(rx, bodies, olines, strip, t, s, e, full[o(s):o(e)])
            if msg is None:
                break
        if msg is not None:
            return msg
        if prev_end is None:
            if full[:o(s)].strip() != "":
                return "tok-cover: text before the first token %s is not blank" % t
        else:
            if prev_end > s:
                return "tok-monotone: %s starts before the previous token ends" % t
            if prev_end[0] == s[0]:
                if prev_end != s:
                    return "tok-adjacent: %s does not start where the previous token ends %s" % (t, prev_end)
            else:
                gap = full[o(prev_end):o(s)]
                if gap.strip() != "":
                    return "tok-line-start: first token %s of its line does not start at its first character" % t
                if s[1] != 1:
                    return "tok-line-start: first token %s of its line leaves %r uncovered" % (t, line[:s[1] - 1])
        prev_end = e
    s, e = end.start_pos.coords, end.end_pos.coords
    if s != e or (olines and not valid(s)):
        return "end-token: $END$ has span %s" % ((s, e),)
    if prev_end is not None and prev_end > s:
        return "tok-monotone: $END$ lies before the last token"
    if full[o(prev_end) if prev_end else 0:].strip() != "":      # (nothing to cover in an empty list)
        return "tok-cover: text after the last token is not blank"

    # ---- trees
    gi = p.get("g")
    if gi is None:
        return None
    res = {}
    for smart in (1, 0):
        parser = _parser(p["cfg"], gi, smart)
        ns = [t for t in toks if t.name not in parser.skip_tokens]
        try:
            root = parser.parse(text, do_cleanup=False, src_name="t")
        except ll.ParsingError as x:
            # judged on the real token list only: the error names the start of one of the tokens handed to the parser
            if x.src_pos.coords not in {t.start_pos.coords for t in ns}:
                return "parsing-error-pos: ParsingError.src_pos %s is not the start of a (non-skipped) token" % (
                    x.src_pos.coords,)
            continue
        k = 0
        spans = []
        stack = [(root, False)]
        lo_of = {}
        while stack:                                   # iterative pre/post-order walk
            e, done = stack.pop()
            if not done:
                lo_of[id(e)] = k
                kids = _kids(e)
                if not kids:
                    if kids is not None:
                        want = (ns[k].start_pos.coords,) * 2
                        what = ("node-empty: empty node %s is not an empty span at the token that follows it (the first "
                                "token not consumed by the nodes before it)" % e.name)
                    else:
                        if k >= len(ns) - 1 or ns[k].name != e.name:
                            return "node-leaf: leaf %s is not the next token" % e.name
                        want = ns[k].span
                        what = "node-leaf: leaf %s does not carry the span of its token" % e.name
                        k += 1
                    if e.span != want:
                        return "%s: %s instead of %s (smart_factorization=%s)" % (what, e.span, want, bool(smart))
                    spans.append(e.span)
                else:
                    spans.append(None)
                    idx = len(spans) - 1
                    stack.append(((e, idx), True))
                    for c in reversed(kids):
                        stack.append((c, False))
            else:
                e, idx = e
                lo = lo_of[id(e)]
                if k > lo:
                    want = (ns[lo].start_pos.coords, ns[k - 1].end_pos.coords)
                else:
                    want = (ns[lo].start_pos.coords,) * 2
                if e.span != want:
                    return "node-span: node %s spans %s, its tokens span %s (smart_factorization=%s)" % (
                        e.name, e.span, want, bool(smart))
                spans[idx] = e.span
        if k != len(ns) - 1:
            return "node-leaf: the tree has %d token leaves, the text %d tokens" % (k, len(ns) - 1)
        for e in _walk(root) if olines else ():      # a list of zero lines has no text to return ("one or many lines")
            (a, b) = e.span
            if _orig(e, text) != enc_str(full[o(a):o(b)]):
                return "node-orig-text: get_orig_text of node %s is not the text between its positions" % e.name
        res[smart] = (_shape(root), spans)
        # a copy of a tree (or of any sub-element) is a tree whose nodes carry the same spans and the same text
        for e in _walk(root):
            c = e.clone()
            if _shape(c) != _shape(e) or [x.span for x in _walk(c)] != [x.span for x in _walk(e)]:
                return "clone: clone() of node %s carries spans %s, the node itself %s" % (
                    e.name, [x.span for x in _walk(c)][:3], [x.span for x in _walk(e)][:3])
            if olines and _orig(c, text) != _orig(e, text):
                return "clone: get_orig_text of the clone of node %s differs from the node's" % e.name
        if kind == "s" and smart == 1 and p.get("gseq") and len(p["gseq"]["texts"]) > 1:
            # elements of two different parses, each asked with a freshly built copy of its own text, alternately
            alt = p["gseq"]["texts"][1]
            try:
                root2 = parser.parse(alt, do_cleanup=False, src_name="t")
            except ll.Error:
                root2 = None
            if root2 is not None:
                al = alt.split("\n")
                aoff = _offsets(al)
                for a, b in zip(_walk(root), _walk(root2)):
                    (s1, e1), (s2, e2) = a.span, b.span
                    if a.get_orig_text("\n".join(olines)) != full[o(s1):o(e1)]:
                        return "orig-text-sequence: node %s of the first parse got the text of another call" % a.name
                    if b.get_orig_text("\n".join(al)) != alt[aoff[s2[0] - 1] + s2[1] - 1:aoff[e2[0] - 1] + e2[1] - 1]:
                        return "orig-text-sequence: node %s of the second parse got the text of another call" % b.name
        if kind == "s" and smart == 1:
            try:
                root_l = parser.parse(_vis_lines(kind, text), do_cleanup=False, src_name="t")
            except ll.Error as x:
                return "str-vs-lines: the str is parsed, the list of its lines raises %s" % type(x).__name__
            if [x.span for x in _walk(root_l)] != [x.span for x in _walk(root)]:
                return "str-vs-lines: the str and the list of its lines give different node spans"
    if len(res) == 2 and res[0][0] == res[1][0] and res[0][1] != res[1][1]:
        return "node-smart: spans depend on smart_factorization"
    # the default mode (do_cleanup=True) renames / squashes nodes but every node it keeps is a node of the raw
    # tree: its span must be one of the raw spans, the root's span the raw root's span
    if 1 in res:
        try:
            root = _parser(p["cfg"], gi, 1).parse(text, src_name="t")
        except ll.ParsingError:
            return "node-cleanup: parse fails with do_cleanup=True only"
        raw = set(res[1][1])
        if root.span != res[1][1][0]:
            return "node-cleanup: the cleaned root spans %s, the raw root %s" % (root.span, res[1][1][0])
        if [x.span for x in _walk_clean(root.clone(), ll)] != [x.span for x in _walk_clean(root, ll)]:
            return "clone: clone() of the cleaned tree carries other spans than the tree"
        todo = [root]
        while todo:
            e = todo.pop()
            if e.span not in raw:
                return "node-cleanup: cleaned node %s carries span %s that no node of the raw tree has" % (e.name, e.span)
            if not e.is_leaf() or isinstance(e.value, list):
                todo.extend(x for x in e.value if isinstance(x, ll.TElement))
    return None


# ------------------------------------------------------------------ generators
_SEPS = ["", " ", " ", " ", "  ", "\n", "\n", "\n\n", " \n", "\n  ", "  \n\n ", "\t", "\n\n\n"]


def _sentence(rng, gi, depth=0):
    """random sentence (list of 'W'/'N'/'S') of grammar gi"""
    out, todo, budget = [], ["E"], 40
    while todo:
        s = todo.pop(0)
        if s in ("W", "N", "S"):
            out.append(s)
            continue
        prods = GRAMMARS[gi][s]
        if isinstance(prods, tuple):          # ProdSequence(a, b, ...): any of the symbols, any number of times
            prods = [(x, s) for x in prods[1:]] + [()]
        budget -= 1
        if budget < 0 or len(out) > 8:
            prods = [min(prods, key=len)]
        todo[:0] = rng.choice(prods)
    return out


def _gen_text(rng, cfg, gi, tier):
    """text as one string (lines separated by '\n'), and the name of the mode"""
    big = tier != "quick"
    r = rng.random()
    if r < 0.15:                   # raw characters, weighted toward line structure
        alpha = cfg["alpha"]
        n = rng.randrange(0, 14 if not big else 30)
        w = [4 if c == "\n" else 3 if c == " " else 1 for c in alpha]
        return "".join(rng.choices(alpha, w, k=n)), "raw"
    seps = _SEPS + cfg["fill"] * 2 if cfg["fill"] and rng.random() < 0.6 else _SEPS
    if rng.random() < 0.06:           # other blanks: NBSP, EM SPACE, CR, FF, FS (all `isspace`, all stripped by rstrip)
        seps = seps + ["\xa0", "\u2003", "\r", "\x0c", "\x1c", " \r\n", "\u2003\n"] * 2
    if gi is not None and r < 0.65:
        toks = [rng.choice(cfg["lex" + k]) for k in _sentence(rng, gi)]
        if rng.random() < 0.12 and toks:
            toks.insert(rng.randrange(len(toks) + 1), rng.choice(cfg["lexW"] + cfg["lexN"] + cfg["lexS"] + cfg["extra"]))
        mode = "sentence"
    else:
        pool = cfg["lexW"] + cfg["lexN"] + cfg["lexS"] + cfg["lexW"] + cfg["lexN"] + cfg["lexS"] + cfg["extra"]
        toks = [rng.choice(pool) for _ in range(rng.randrange(0, 7 if not big else 14))]
        mode = "soup"
    if gi is not None and rng.random() < 0.08:
        # a place the grammar rejects AND a character no pattern matches, in both orders, on the same or another line
        breaker = rng.choice(cfg["lexS"] + cfg["lexW"] + cfg["lexN"])
        k = rng.randrange(len(toks) + 1)
        toks[k:k] = [breaker, breaker, rng.choice(cfg["lexS"])]
        bad = rng.choice(cfg["bad"])
        if rng.random() < 0.7:
            toks.append(rng.choice(["\n", "\n\n", " "]) + bad)
            mode += "+syntax-then-bad"
        else:
            toks.insert(0, bad + rng.choice(["\n", " "]))
            mode += "+bad-then-syntax"
    elif rng.random() < 0.12:
        toks.insert(rng.randrange(len(toks) + 1), rng.choice(cfg["bad"] + ["\xe9", "\U0001F600"]))
        mode += "+bad"
    parts = [rng.choice(["", "", "", " ", "  ", "\n", "\t", "\n\n "])]
    for i, t in enumerate(toks):
        parts.append(t)
        if i + 1 < len(toks):
            sep = rng.choice(seps)
            if sep == "" and t[-1:].isalnum() and toks[i + 1][:1].isalnum() and rng.random() < 0.8:
                sep = " "
            parts.append(sep)
    parts.append(rng.choice(["", "", "", " ", "  ", "\n", "\t", " \n\n", "\n  "]))
    return "".join(parts), mode


# characters that code handling text is tempted to drop, fold or count differently
TEMPTING = ["\ufeff", "\ufeff", "\x00", "\u200b", "\u200d", "\u200c", "\xa0", "\u2003", "\u3000", "\u00ad", "\u2060",
            "\u0301", "\u0308", "\U0001F600", "\U00010400", "\r", "\t", "\x0c", "\x85", "\u2028"]


def _tempt(rng, s):
    """put such characters at the start of the text, at the start / end of a line, inside a token, or turn line ends
    into '\r\n'; returns the new text and the places used"""
    places = set()
    for _ in range(rng.choice([1, 1, 1, 2, 3])):
        c = rng.choice(TEMPTING)
        where = rng.choice(["text-start", "text-start", "line-start", "line-end", "inside", "crlf"])
        lines = s.split("\n")
        if where == "text-start":
            s = c + s
        elif where == "crlf":
            s = s.replace("\n", "\r\n") if rng.random() < 0.5 else s.replace("\n", "\r\n", 1)
        else:
            i = rng.randrange(len(lines))
            l = lines[i]
            if where == "line-start":
                l = c + l
            elif where == "line-end":
                l = l + c
            else:
                letters = [j for j in range(1, len(l)) if l[j - 1].isalnum() and l[j].isalnum()]
                j = rng.choice(letters) if letters else rng.randrange(len(l) + 1)
                l = l[:j] + c + l[j:]
            lines[i] = l
            s = "\n".join(lines)
        places.add(where)
    return s, places


_WRAPS = {}


def _wraps(cfg):
    """(opener, closer) of every span kind of the configuration, found with the harness's own `re`"""
    if cfg["name"] in _WRAPS:
        return _WRAPS[cfg["name"]]
    rx, bodies = _rx(cfg)
    cands = cfg["fill"] + cfg["lexN"] + cfg["extra"]
    out = _WRAPS.setdefault(cfg["name"], [])
    for k in sorted(bodies):
        for t in cands:
            m = rx.match(t)
            if m is None or m.lastgroup != k:
                continue
            op = m.group(0)
            for t2 in cands:
                l = t2.split("\n")[-1]
                for d in range(len(l)):
                    b = bodies[k].match(l, d)
                    if b is not None and b.end() == len(l) and b.end(b.lastgroup) < len(l):
                        out.append((op, l[b.end(b.lastgroup):]))
                        break
                else:
                    continue
                break
            break
    return out


def _repeat(rng, cfg, s):
    """texts with IDENTICAL lines in different roles: a line copied to another place (ordinary / inside a span token
    that happens to cover the place), or a block of lines copied and wrapped into a span token (commented-out code, a
    statement quoted in a multi-line literal), before or after the original"""
    lines = s.split("\n")
    wraps = _wraps(cfg)
    n = len(lines)
    if wraps and rng.random() < 0.7:
        i = rng.randrange(n)
        j = min(n, i + rng.choice([1, 1, 2, 3]))
        op, cl = rng.choice(wraps)
        k = rng.randrange(j, n + 1) if rng.random() < 0.7 else rng.randrange(0, i + 1)
        block = [rng.choice(["", "", " "]) + op + rng.choice(["", "", " x"])] + lines[i:j] + \
                [rng.choice(["", "", "y ", "  "]) + cl + rng.choice(["", "", " "])]
        if rng.random() < 0.3 and k > 0:                 # the opener stands behind the tokens of a line
            block[0] = lines[k - 1] + " " + block[0].strip()
            lines[k - 1:k] = block
        else:
            lines[k:k] = block
        return "\n".join(lines), "span-wrapped-copy"
    for _ in range(rng.choice([1, 1, 2])):
        lines.insert(rng.randrange(len(lines) + 1), lines[rng.randrange(len(lines))])
    return "\n".join(lines), "line-copy"


def _gen_gots(rng, lines, n):
    out = []
    nl = len(lines)

    def ln(l):
        return len(lines[l - 1]) if 1 <= l <= nl else 0
    for _ in range(n):
        if rng.random() < 0.7 and nl:            # a well-formed span
            sl = rng.randrange(1, nl + 1)
            el = min(nl, sl + rng.choice([0, 0, 0, 1, 1, 2, 3]))
            sc = rng.randrange(1, ln(sl) + 2)
            ec = rng.randrange(sc if el == sl else 1, ln(el) + 2)
            out.append([sl, sc, el, ec])
            continue
        sl = rng.randrange(0, nl + 2)
        el = min(nl + 1, sl + rng.choice([0, 0, 0, 1, 1, 2]))
        if rng.random() < 0.15:
            sl, el = el, sl

        def col(l):
            return rng.choice([0, 1, 1, ln(l), ln(l) + 1, ln(l) + 2, rng.randrange(0, ln(l) + 3)])
        out.append([sl, col(sl), el, col(el)])
    return out


_ROT = {**{chr(97 + i): chr(97 + (i + 1) % 26) for i in range(26)}, **{str(i): str((i + 1) % 10) for i in range(10)}}


def _gen_gseq(rng, text):
    """texts of the same length as `text` (letters/digits rotated; lines in reverse order) and a sequence of calls
    with well-formed spans that alternates between them"""
    texts = [text, "".join(_ROT.get(c, c) for c in text)]
    ls = text.split("\n")
    if len(ls) > 1 and ls[::-1] != ls:
        texts.append("\n".join(ls[::-1]))
    calls = []
    for k in range(rng.choice([4, 6, 8, 10])):
        ti = k % len(texts) if rng.random() < 0.8 else rng.randrange(len(texts))
        tl = texts[ti].split("\n")
        sl = rng.randrange(1, len(tl) + 1)
        el = min(len(tl), sl + rng.choice([0, 0, 1, 1, 2, 3]))
        sc = rng.randrange(1, len(tl[sl - 1]) + 2)
        ec = rng.randrange(sc if el == sl else 1, len(tl[el - 1]) + 2)
        calls.append([ti, sl, sc, el, ec])
    return {"texts": texts, "calls": calls}


def gen_cases(rng, tier):
    n = 12000 if tier == "quick" else 250000
    if tier != "quick":
        yield from search_cases(rng, tier)          # exhaustive small scopes
    for _ in range(n):
        ci = rng.randrange(len(CONFIGS))
        cfg = CONFIGS[ci]
        gi = rng.randrange(len(GRAMMARS)) if rng.random() < 0.7 else None
        if gi is not None and rng.random() < 0.25:
            gi = rng.choice(BACKTRACKING)
        s, mode = _gen_text(rng, cfg, gi, tier)
        meta = {"gen": mode}
        if rng.random() < 0.22:
            s, places = _tempt(rng, s)
            meta["tempt"] = sorted(places)
        if rng.random() < 0.12:
            s, meta["rep"] = _repeat(rng, cfg, s)
        kind = rng.choice("sssslllt")
        text = s if kind == "s" else s.split("\n")
        olines = text.split("\n") if kind == "s" else text
        params = {"cfg": ci, "kind": kind, "text": text, "g": gi,
                  "gots": _gen_gots(rng, olines, rng.choice([0, 1, 2]))}
        if kind == "s" and len(text) >= 3 and rng.random() < 0.3:
            params["gseq"] = _gen_gseq(rng, text)
        yield make_case(params, meta)


def corpus():
    out = []
    for kind in "sl":
        def tx(s):
            return s if kind == "s" else s.split("\n")
        # C04a (7fe0f63): first token of an un-indented line; C04b (df1c682): node ending in an empty child
        out.append(make_case({"cfg": 0, "kind": kind, "text": tx("ab 12\ncd\n\n  ef"), "g": 0, "gots": []},
                             {"gen": "witness-C04a"}))
        out.append(make_case({"cfg": 0, "kind": kind, "text": tx("ab    ;"), "g": 1, "gots": []},
                             {"gen": "witness-C04b"}))
        out.append(make_case({"cfg": 0, "kind": kind, "text": tx("ab  \n\n  ;"), "g": 2, "gots": []},
                             {"gen": "witness-C04b"}))
        out.append(make_case({"cfg": 2, "kind": kind, "text": tx('a /* x\n\n y */ "s"\n/*\n*/b ;'), "g": 0,
                              "gots": [[1, 3, 3, 6]]}, {"gen": "span"}))
        out.append(make_case({"cfg": 0, "kind": kind, "text": tx("ab\n c ?d"), "g": None, "gots": []},
                             {"gen": "lexerr"}))
    return out


def search_cases(rng, tier):
    """small exhaustive scopes: every text up to length 5 (6 in thorough) over a few characters"""
    import itertools
    scopes = [(0, "a ;\n1", [1, 2, 3]), (2, "a/*\n ", [0]), (3, "a<>\n ", [0]), (0, "a?\n ", [None])]
    for ci, alpha, gs in scopes:
        for n in range(0, 6 if tier == "quick" else 7):
            for t in itertools.product(alpha, repeat=n):
                s = "".join(t)
                for kind in "sl":
                    yield make_case({"cfg": ci, "kind": kind, "text": s if kind == "s" else s.split("\n"),
                                     "g": gs[(n + len(s.split("\n"))) % len(gs)], "gots": []}, {"gen": "search"})


def shrink(case):
    p = case["params"]
    kind, text = p["kind"], p["text"]
    lines = text.split("\n") if kind == "s" else list(text)

    def mk(ls, **kw):
        q = dict(p)
        q["text"] = "\n".join(ls) if kind == "s" else ls
        q["gots"] = []
        if q["text"] != p["text"]:
            q.pop("gseq", None)
        q.update(kw)
        return make_case(q, case.get("meta"))
    if p.get("gots"):
        yield mk(lines)
    if p.get("gseq"):
        yield mk(lines, gseq=None)
        g = p["gseq"]
        for i in range(len(g["calls"])):
            if len(g["calls"]) > 2:
                yield mk(lines, g=None, gseq={"texts": g["texts"], "calls": g["calls"][:i] + g["calls"][i + 1:]})
    if p.get("g") is not None:
        yield mk(lines, g=None)
    for i in range(len(lines)):
        if len(lines) > 1:
            yield mk(lines[:i] + lines[i + 1:])
    for i, l in enumerate(lines):
        for j in range(len(l)):
            yield mk(lines[:i] + [l[:j] + l[j + 1:]] + lines[i + 1:])


def nontrivial(case, replies):
    r = replies[0]
    return r.startswith("err") or r.count(";") >= 2 or len(case["lines"][0].split()[8].split(";")) > 1


def tags(case, replies):
    p = case["params"]
    m = case.get("meta", {})
    yield "gen:" + m.get("gen", "?")
    yield "cfg:" + CONFIGS[p["cfg"]]["name"]
    yield "input:" + {"s": "str", "l": "list", "t": "tuple"}[p["kind"]]
    lines = p["text"].split("\n") if p["kind"] == "s" else p["text"]
    if any(ord(c) > 127 for l in lines for c in l):
        yield "has:non-ascii"
    for w in m.get("tempt", ()):
        yield "tempt:" + w
    if "rep" in m:
        yield "rep:" + m["rep"]
    flat = "\n".join(lines)
    if flat[:1] == "\ufeff":
        yield "has:bom-at-start"
    for name, chars in (("bom", "\ufeff"), ("nul", "\x00"), ("zero-width", "\u200b\u200c\u200d\u2060\u00ad"),
                        ("combining", "\u0301\u0308\u0300"), ("astral", "\U0001F600\U00010400\U0001F601"),
                        ("cr", "\r"), ("tab", "\t"), ("unicode-space", "\xa0\u2003\u3000\x85\u2028")):
        if any(c in flat for c in chars):
            yield "char:" + name
    yield "lines:%d" % min(len(lines), 6)
    if any(l.strip() == "" for l in lines[:-1]):
        yield "has:blank-line"
    if any(l[:1].strip() != "" for l in lines[1:]):
        yield "has:unindented-later-line"
    if any(l != l.rstrip() for l in lines):
        yield "has:trailing-blank"
    r = replies[0]
    yield "tok:" + " ".join(r.split()[:2]) if r.startswith("err") else "tok:ok"
    if r.startswith("ok"):
        sp = [x.split("/")[0].split(".") for x in r[3:].split(";")]
        if any(a[0] != a[2] for a in sp):
            yield "has:multi-line-span-token"
            vis = _vis_lines(p["kind"], p["text"])
            inner = set()
            for a in sp:
                if a[0] != a[2]:
                    inner.update(i for i in range(int(a[0]) + 1, int(a[2]) + 1) if 1 <= i <= len(vis))   # continuation lines
            rest = {vis[i - 1] for i in range(1, len(vis) + 1) if i not in inner and vis[i - 1].strip()}
            if any(vis[i - 1] in rest for i in inner):
                yield "has:span-continuation-line-equal-to-an-ordinary-line"
        rx, bodies = _rx(CONFIGS[p["cfg"]])
        vis = _vis_lines(p["kind"], p["text"])
        for a in sp:
            # a span token whose matcher finds a closer (with a shorter body) to the right of a position where the
            # anchored match fails: the body part of the matcher decides
            sl, sc, el = int(a[0]), int(a[1]), int(a[2])
            m0 = rx.match(vis[sl - 1], sc - 1) if 1 <= sl <= len(vis) and 1 <= sc <= len(vis[sl - 1]) else None
            if m0 is None or m0.lastgroup not in bodies:
                continue
            bm, c, hit = bodies[m0.lastgroup], m0.end(), False
            for i in range(sl - 1, min(el, len(vis))):
                l = vis[i]
                if c < len(l):
                    if bm.match(l, c) is not None:
                        break
                    if bm.search(l, c) is not None:
                        hit = True
                c = 0
            if hit:
                yield "has:span-body-steps-over-a-closer"
                break
    for k in ("tree1", "tree0"):
        if k in m:
            yield "%s:%s" % (k, m[k])
    if p.get("g") is not None and "tree1" in m:
        yield "grammar:%d:%s" % (p["g"], m["tree1"])
    for l, rep in zip(case["lines"], replies):
        if l.startswith("got "):
            yield "got:" + rep.split()[0] + ("" if rep.startswith("ok") else ":" + rep.split()[1])
        if l.startswith("plex "):
            yield "plex:" + " ".join(rep.split()[:2])
        if l.startswith("gseq "):
            yield "gseq:texts=%d" % (l.split()[1].count("|") + 1)
            yield "gseq:calls=%d" % (l.split()[2].count(";") + 1)
        if l.startswith("ptree "):
            yield "ptree:" + (" ".join(rep.split()[:2]) if rep.startswith("err") else "ok")
            if rep.startswith("err ParsingError") and r.startswith("ok") and rep.split()[2:] != r[3:].split(";")[0].split("/")[0].split(".")[:2]:
                yield "ptree:ParsingError-not-at-first-token"
        if l.startswith("ctree "):
            yield "ctree:" + rep.split()[0]
        if l.startswith("tree ") and "e" in l.split()[-1]:
            yield "has:empty-node"
            if p.get("g") in BACKTRACKING:
                yield "has:empty-node-in-backtracking-grammar"
                if l.split()[-1].startswith("(e"):
                    yield "has:empty-first-child-of-root-in-backtracking-grammar"


LEVEL_TEXT = (
    "Proved in Lean 4 for all texts, all answers of `re`, all tokenizer configurations and all grammars, on an "
    "executable model of _Tokenizer.tokenize / TElement.get_orig_text / LLParser.parse (the LL stack machine of the "
    "C01 model with the positions the code attaches while parsing) whose position offsets are regenerated from "
    "ak/llparser.py on every run: adjacency within a line, column 1 / later line for the first token of a line, "
    "monotone non-empty spans, get_orig_text = lexeme (span token: region opener..closer) = slice of the whole text by "
    "character offsets (str with rstrip, and list-of-lines input whose lines contain no newline character: a list of "
    "lines means the text split at its newlines; lines that KEEP their '\\n' - a file object, readlines() - are "
    "EXCLUDED, not generated and not covered: on the real code get_orig_text(['ab\\n', 'cd\\n']) of the root gives "
    "'ab\\n\\ncd', the lines being joined by '\\n'), the tokens cover every character exactly once, "
    "node span = (start of first token, end of last token) or empty at the first token not consumed before it, for "
    "every node of every tree the parse can return through any roll-backs (parse_node_span) and for every tree "
    "shape (node_span), get_orig_text of nodes, LexicalError at the first and only reachable unmatched character "
    "(line 1-based, column 0-based) and its converse, ParsingError.src_pos = start of a token, totality (fuel) of the "
    "tokenizer model. Model = code is established by a differential run of the compiled model against the real "
    "tokenizer, get_orig_text and parser (11 configurations incl. one written in verbose style, one whose span matchers restrict the BODY in front of the closer - string literal with escapes, here-document whose closer must start the line, comment for which `**/` is no closer: the matcher must match AT the scan position, tag has:span-body-steps-over-a-closer -, texts with identical lines in different roles - a line or block copied to another place or wrapped into a span token (commented-out code, a statement quoted in a multi-line literal), tags rep:* and has:span-continuation-line-equal-to-an-ordinary-line -, several span kinds under one synonym and token patterns with context assertions (^, \\b, look-behind, $), one where BOM / NUL / zero-width characters are blanks and combining marks / astral characters are letters, texts with such characters at the start of the text, of a line, inside tokens, '\\r' and '\\r\\n' line ends; 17 grammars incl. 8 that roll back into empty / all-nullable "
    "alternatives and a ProdSequence, both smart_factorization values, str / list / tuple input); the oracle restates "
    "the property on the real objects (a span token ends at the FIRST position where the matcher of its opener's group "
    "matches anchored at the scan position: behind the opener, then column 0 of each later line). Caveats: for a `str` the token theorems speak about the right-stripped lines "
    "the tokenizer iterates over (trailing blanks of a line are in no token); the orig-text theorems of nodes assume "
    "the input is not the list of zero lines; non-emptiness of every token is proved from the model, not assumed.")
LEVEL_NOTE = (
    "Caveats of the span theorems. (1) For a `str` the tokenizer iterates over the RIGHT-STRIPPED lines (`tokLines`): "
    "tok_cover / tok_cover_unique / lex_error_* speak about the characters of those lines - trailing `str.isspace` "
    "characters of a line lie in no token and never raise a LexicalError; get_orig_text theorems slice the caller's "
    "unstripped text (`origLines`), a multi-line region therefore contains the trailing blanks of its inner lines. "
    "(2) node_orig_text / parse_node_orig_text assume `inp != lines []` (a list of zero lines has no line to slice; a "
    "`str` always has one - discharged by tokLines_ne_nil) and ReIn. (3) That every token of the text is non-empty "
    "(start < end; only $END$ is empty) is NOT assumed: it is proved from the tokenizer model (tok_monotone) - a "
    "zero-width match makes the model stop with OUT-OF-FUEL, as the real loop never ends. (4) node_span assumes the "
    "tree does not swallow $END$ (hk), which parse_node_span proves for every tree the parse returns. Each "
    "conditional theorem has an `example` in Props/C04.lean on which all its hypotheses hold. "
    "Kernel-checked theorems (C04.*): tok_adjacent, tok_line_start, tok_monotone, tok_provenance (every token is one match at its own (line, column); a span is closed by the "
    "body matcher of its opener's own group), tok_orig_text, orig_text_exact, "
    "tok_cover, tok_cover_unique, end_token, node_span, node_span_unique, node_orig_text, parse_is_ll_run (forgetting "
    "positions gives the run of the LL model of C01), parse_node_span, parse_node_orig_text, parse_error_pos, "
    "lex_error_line, lex_error_first, lex_error_complete, lex_error_unique, unmatched_char_raises (a reachable "
    "unmatched character IS the LexicalError), parse_lexical_first (also through parse, for every grammar: the whole "
    "text is tokenized before parsing), no_out_of_fuel, bases_std (generated "
    "offsets). Hypotheses discharged at run time by the driver on every request: ReIn (every match ends inside its "
    "line: tableOk), parserOk (suffix symbols are not terminals, $END$ is). Rest on the sampled correspondence only: "
    "that the model's control flow is the code's (rstrip/split of str input, synonyms/keywords), the model's own "
    "parse (`ptree` lines: LL.construct + runP, compared as a diagnostic only - shape and accept/reject are "
    "C01-C03's subject; the verdict uses the `tree` lines, which take the real shape as data), that `re` behaves as a function of (line, column), the flattening of "
    "ProdSequence nodes (tree lines take the shape from the real parser there), clone() of a tree / sub-element "
    "carrying the same spans (`ctree` lines + oracle; the model's copy is the tree itself); list/map templates are C05; spans "
    "after cleanup are checked by the oracle only.")
TECHNIQUE = ("Lean 4 theorems (relational run of the scanner; invariant of the positioned LL stack machine, simulation "
             "to the LL model of C01; induction over tree shapes) over a segmentation supplied by `re` + translator for "
             "the position offsets + correspondence check + property oracle")
