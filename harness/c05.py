"""C05 — list, map and sequence templates return exactly the denoted items (ak/llparser.py).

A case is one grammar (a JSON spec from which the real `LLParser` is rebuilt) plus several texts.
Protocol lines of a case (the Lean driver is stateful, `reset` precedes every case):

  g keep [..] start S suffix [..] prods (..)… tpl L…|M…   install the cleanuper: keep symbols, start symbol, the
                                                        *real* factorised prods_map and suffix symbols (data), the
                                                        constructor arguments of every template (the model runs the
                                                        constructors, complete_init and _make_squash_data itself)
                                                        -> ok squash [..] choice [..]
  cl <raw tree>      raw tree = real parse(text, do_cleanup=False); model: cleanup of that tree;
                     real: parse(text) with the default cleanup             -> ok <tree> | err X   (observable)
  cf                 does the last raw tree conform to the productions the *model* generates for the templates
                     (hypothesis of the theorems, evaluated on every real tree)      -> ok 1
  G smart start keep [..] groups [..] syn [..] T [..] E <entries>   the whole constructor inside the model: token groups,
                     synonyms, the user's dictionary with its templates / AnyTokenExcept items (`constructT` on top of the
                     LL parser model: factorisation, nullables, FIRST/FOLLOW, table, recursion check, cleanuper)
                                                                              -> ok squash [..] choice [..] | err X
  tp <lexemes>       model: tokens -> LL parse loop -> raw tree (sequences flattened); real: parse(text, do_cleanup=False)
  tc                 the same lexemes, model parse + model clean-up; real: parse(text)   -> ok <tree> | err X (observable,
                     includes rejection of texts the grammar cannot read)
  lp/mp/sp/pr …      ListProds / MapProds / ProdSequence / production lists (AnyTokenExcept anywhere): generated
                     productions and signature tables
  sq <tree>          LLParser._process_seq_telement applied innermost-first to an un-flattened sequence

The oracle never looks at the model: it renders nested data to text (random blanks / newlines / comments),
parses it with the real parser and demands `denote(parse(text)) == data` (order of items, order of keys,
last value for a repeated key, [] / {} for an empty bracket pair, None for an absent optional container,
a final delimiter adds nothing and is rejected where the grammar cannot read it).
"""
import ast
import functools
import json
import os

from harness.core import enc_str, dec_str

PROPERTY = "C05"
READY = True
STATEFUL = True
THEOREMS = [
    "C05.wf_of_list_constructor", "C05.wf_of_map_constructor", "C05.list_derivations", "C05.list_items",
    "C05.map_derivations", "C05.map_items", "C05.map_string_keys", "C05.dict_key_order",
    "C05.dict_last_value", "C05.seq_items", "C05.empty_and_absent", "C05.final_delim", "C05.final_delim_map",
    "C05.nesting", "C05.nesting_every_derivation", "C05.end_to_end_json_partial",
    "C05.lines_cut_at_newline_only", "C05.seq_items_executed", "C05.constructor_is_ll_constructor",
    "C05.choice_elements_squashed", "C05.squash_around_items", "C05.no_exceptions", "C05.any_token_except",
    "C05.squash_data", "C05.one_entry_per_item", "C05.any_length", "C05.absent_container_first",
    "C05.written_production_first",
]

RULE = ("one case = one grammar (real LLParser rebuilt from a JSON spec) + 8-14 rendered values (2-6 for the long / deep "
        "family: containers of 990-1100 or 5000 entries, nesting 20-60 levels), or 20 template "
        "constructor calls, or one un-flattened sequence; distinct by protocol text; non-trivial = at least one text whose "
        "value holds a container with >= 2 entries or nesting depth >= 2 (template / sequence cases always; a statement of the "
        "statement-language family counts as a node with >= 2 entries)")
TRUSTED = ["constructT (C05) and LL.constructG (C01-C03) are linked by C05.constructor_is_ll_constructor (success of constructT "
           "implies the same parser from constructG on the expanded productions); error outcomes of the two constructors are "
           "tied to the code separately, each by its own correspondence",
           "a parser object has no memory between calls: true by construction in the functional model, tied to the real "
           "object only by the call sequences (failing calls before valid texts) of the correspondence",
           "the tokenizer's regular expression (lexemes are data; renaming and skipping are modelled by the LL model)",
           "for the cl/g lines only: the real raw tree and the real factorised prods_map enter as data (the tp/tc/G lines "
           "compute both inside the model)"]
ASSUMPTIONS = ["item symbol differs from the bracket and delimiter symbols of its ListProds (hypothesis WF of the "
               "theorems; ListProds('[','WORD','WORD',']') is outside the property: _find_index then picks the delimiter)",
               "raw trees returned by the parser conform to the generated productions and are well-typed (C01's claim; "
               "evaluated by the compiled model on every generated tree: `cf` lines)",
               "keep_symbols is not a template option: with the item symbol kept and the item nullable only through an "
               "optional list used as its own item, the 'absent list' read after a final delimiter is a kept element, not "
               "None, and stays in the list (observed, not generated); a kept key symbol makes keys TElements (identity)",
               "nesting depth: the real clean-up (StdCleanuper._cleanup -> transform_t_elem -> _cleanup ...) and the reference "
               "reader of the oracle recurse once per nesting level, CPython's recursion limit (1000 frames) ends both near "
               "200 levels (RecursionError); texts nested up to 61 levels are generated, 'any depth' of the property is tied "
               "to the real code up to that bound only (the theorems hold for every depth). Length is not bounded that way "
               "since 2cdb1cb (tail chains are walked in a loop); containers of up to 5000 entries are generated",
               "very long containers holding many non-empty containers make the real parse loop copy its stack at every "
               "roll-back (`longest_stack`, quadratic time, not a wrong result): the long containers generated hold about "
               "twenty nested containers each"]


# ------------------------------------------------------------------ translator
def translate(repo):
    src = open(os.path.join(repo, "ak", "llparser.py")).read()
    tree = ast.parse(src)
    want = {("ListProds", "list_tail_symbol"): "tailSuffix", ("MapProds", "kv_pair_symbol"): "kvPairSuffix",
            ("MapProds", "kv_tail_symbol"): "kvTailSuffix", ("ProdSequence", "element_symbol_name"): "seqElemSuffix"}
    found = {}
    map_afd_default = None
    for cls in tree.body:
        if not isinstance(cls, ast.ClassDef):
            continue
        for fn in cls.body:
            if not isinstance(fn, ast.FunctionDef):
                continue
            if cls.name == "MapProds" and fn.name == "__init__":
                for a, d in zip(fn.args.kwonlyargs, fn.args.kw_defaults):
                    if a.arg == "allow_final_delimiter":
                        map_afd_default = ast.literal_eval(d)
            if cls.name == "ListProds" and fn.name == "__init__":
                for a, d in zip(fn.args.kwonlyargs, fn.args.kw_defaults):
                    if ast.literal_eval(d) is not None:
                        raise ValueError("ListProds.__init__: keyword default of %s is not None" % a.arg)
            if fn.name != "complete_init":
                continue
            for st in ast.walk(fn):
                if not (isinstance(st, ast.Assign) and len(st.targets) == 1 and isinstance(st.targets[0], ast.Attribute)):
                    continue
                key = (cls.name, st.targets[0].attr)
                if key not in want or not isinstance(st.value, ast.JoinedStr):
                    continue
                vals = st.value.values
                if not (len(vals) == 2 and isinstance(vals[0], ast.FormattedValue)
                        and isinstance(vals[0].value, ast.Attribute) and vals[0].value.attr == "result_symbol"
                        and isinstance(vals[1], ast.Constant) and isinstance(vals[1].value, str)):
                    raise ValueError("%s.%s is not f\"{self.result_symbol}<suffix>\"" % key)
                suf = vals[1].value
                if not all(32 < ord(c) < 127 and c not in '"\\' for c in suf):
                    raise ValueError("suffix %r is not printable ASCII" % suf)
                found[want[key]] = suf
    line_sep = None
    for cls in tree.body:
        if isinstance(cls, ast.ClassDef) and cls.name == "_Tokenizer":
            for fn in cls.body:
                if isinstance(fn, ast.FunctionDef) and fn.name == "tokenize":
                    for g in ast.walk(fn):
                        if not isinstance(g, ast.GeneratorExp) or len(g.generators) != 1:
                            continue
                        it, elt = g.generators[0].iter, g.elt
                        ok_elt = (isinstance(elt, ast.Call) and isinstance(elt.func, ast.Attribute) and elt.func.attr == "rstrip"
                                  and not elt.args and not elt.keywords)
                        if (ok_elt and isinstance(it, ast.Call) and isinstance(it.func, ast.Attribute) and it.func.attr == "split"
                                and len(it.args) == 1 and isinstance(it.args[0], ast.Constant)
                                and isinstance(it.args[0].value, str) and len(it.args[0].value) == 1 and not it.keywords):
                            line_sep = it.args[0].value
    if line_sep is None:
        raise ValueError("_Tokenizer.tokenize: a str is no longer cut into lines by (t.rstrip() for t in text.split(<one char>))")
    missing = sorted(set(want.values()) - set(found))
    if missing:
        raise ValueError("generated symbol names not found in complete_init: %s" % missing)
    if not isinstance(map_afd_default, bool):
        raise ValueError("MapProds.__init__: allow_final_delimiter default is not a bool literal")
    body = "".join("def %s : List Char := \"%s\".toList\n" % (k, found[k]) for k in sorted(found))
    return {"AkVerif/Gen/C05.lean":
            "-- GENERATED by harness/c05.py:translate from /repo/ak/llparser.py -- do not edit\n"
            "namespace Gen.C05\n" + body +
            "def mapAfdDefault : Bool := %s\n" % ("true" if map_afd_default else "false") +
            "def lineSep : Char := Char.ofNat %d\n" % ord(line_sep) +
            "end Gen.C05\n"}


# ------------------------------------------------------------------ real code access
def _ll():
    from ak import llparser
    return llparser


TK = (r"(?P<SPACE>\s+)|(?P<COMMENT_EOL>//.*)|(?P<COMMENT_ML>/\*)|(?P<WORD>[a-zA-Z_][a-zA-Z0-9_]*)|(?P<NUMBER>[0-9]+)|(?P<COMMA>,)"
      r"|(?P<BR_OPEN>\[)|(?P<BR_CLOSE>\])|(?P<BR_OPEN_CURL>\{)|(?P<BR_CLOSE_CURL>\})|(?P<COLON>:)|(?P<SEMI>;)"
      r"|(?P<LT><)|(?P<GT>>)|(?P<PO>\()|(?P<PC>\))|(?P<BAR>\|)|(?P<AT>@)|(?P<HASH>\#)|(?P<EQ>=)")
SYN = {'COMMA': ',', 'BR_OPEN': '[', 'BR_CLOSE': ']', 'BR_OPEN_CURL': '{', 'BR_CLOSE_CURL': '}', 'COLON': ':',
       'SEMI': ';', 'LT': '<', 'GT': '>', 'PO': '(', 'PC': ')', 'BAR': '|', 'AT': '@', 'HASH': '#', 'EQ': '=', 'COMMENT_ML': 'COMMENT', 'COMMENT_EOL': 'COMMENT'}


SPANS = {'COMMENT_ML': r"(?P<END_COMMENT>(\*[^/]|[^*])*)\*/"}


def _mk_template(kind, a):
    ll = _ll()
    if kind == "list":
        return ll.ListProds(a[0], a[1], a[2], a[3], allow_final_delimiter=a[4], optional=a[5])
    if kind == "map":
        kw = {}
        if a[7] is not None:
            kw["allow_final_delimiter"] = a[7]
        return ll.MapProds(a[0], a[1], a[2], a[3], a[4], a[5], optional=a[6], **kw)
    if kind == "seq":
        return ll.ProdSequence(*[ll.AnyTokenExcept(*x["x"]) if isinstance(x, dict) else x for x in a])
    raise ValueError(kind)


def all_terminals():
    """names of all tokens of the test tokenizer (after synonyms), sorted"""
    return sorted(_ll()._Tokenizer(TK, synonyms=SYN, span_matchers=SPANS).get_all_token_names())


@functools.lru_cache(maxsize=256)
def _parser_cached(spec_json):
    spec = json.loads(spec_json)
    ll = _ll()
    prods = {}
    for sym, kind, data in spec["prods"]:
        if kind == "plain":
            prods[sym] = [None if p is None else (ll.AnyTokenExcept(*p["x"]) if isinstance(p, dict) else tuple(p))
                          for p in data]
        else:
            prods[sym] = _mk_template(kind, data)
    keep = set(spec["keep"]) if spec.get("keep") is not None else None
    return ll.LLParser(TK, synonyms=SYN, span_matchers=SPANS, productions=prods, keep_symbols=keep,
                       smart_factorization=spec.get("smart", True), start_symbol_name=spec.get("start", "E"))


def parser_of(spec):
    return _parser_cached(json.dumps(spec, sort_keys=True))


def _err(e):
    return "err " + type(e).__name__


_enc = functools.lru_cache(maxsize=8192)(enc_str)        # symbol names and short words repeat: long trees are mostly these


# ------------------------------------------------------------------ protocol text (must equal Drv/C05.lean)
def _optname(s):
    return "~" if s is None else enc_str(s)


def _names(l):
    return "[ " + "".join(enc_str(x) + " " for x in l) + "]"


def _optnat(n):
    return "~" if n is None else str(n)


def _optbool(b):
    return "n" if b is None else ("1" if b else "0")


def show_prods(p):
    return "".join("( " + enc_str(sym) + " " + "".join(_names(r) + " " for r in rules) + ") " for sym, rules in p)


def show_sigs(d):
    return "".join("< %s %s %s %s > " % (enc_str(s.name), _names(s.child_names), _optnat(a), _optnat(b))
                   for s, (a, b) in d.items())


def show_val(x):
    """prefix form of a (raw or cleaned) tree; iterative: the raw tree of a list is as deep as the list is long"""
    ll = _ll()
    out = []
    stack = [x]
    while stack:
        x = stack.pop()
        if x is None:
            out.append("N")
        elif isinstance(x, str):
            out.append("S " + (_enc(x) if len(x) < 24 else enc_str(x)))
        elif isinstance(x, ll.TElement):
            out.append("E " + _enc(x.name) + (" 1" if x._is_leaf else " 0"))
            stack.append(x.value)
        elif isinstance(x, list):
            out.append("L %d" % len(x))
            stack.extend(reversed(x))
        elif isinstance(x, dict):
            out.append("D %d" % len(x))
            for k, v in reversed(list(x.items())):
                stack.append(v)
                stack.append(k)
        else:
            raise TypeError("value of unexpected type %s" % type(x).__name__)
    return " ".join(out)


def _mk_te(name, leaf, value):
    ll = _ll()
    t = ll.TElement.__new__(ll.TElement)
    t.name, t.value, t._is_leaf, t.start_pos, t.end_pos = name, value, leaf, None, None
    return t


def read_val(toks, pos=0):
    t = toks[pos]
    if t == "N":
        return None, pos + 1
    if t == "S":
        return dec_str(toks[pos + 1]), pos + 2
    if t == "L":
        n, pos, xs = int(toks[pos + 1]), pos + 2, []
        for _ in range(n):
            x, pos = read_val(toks, pos)
            xs.append(x)
        return xs, pos
    if t == "E":
        name, leaf = dec_str(toks[pos + 1]), toks[pos + 2] == "1"
        v, pos = read_val(toks, pos + 3)
        return _mk_te(name, leaf, v), pos
    raise ValueError("bad value token " + t)


def sym_args_text(args):
    return " ".join("X " + _names(a["x"]) if isinstance(a, dict) else enc_str(a) for a in args)


def sp_line(res, terminals, args):
    return ("sp %s T %s %s" % (enc_str(res), _names(terminals), sym_args_text(args))).rstrip()


def pr_line(terminals, prods):
    parts = []
    for p in prods:
        parts.append("N" if p is None else ("X " + _names(p["x"]) if isinstance(p, dict) else _names(p)))
    return ("pr T %s %s" % (_names(terminals), " ".join(parts))).rstrip()


def _read_names(toks, pos):
    assert toks[pos] == "["
    pos += 1
    out = []
    while toks[pos] != "]":
        out.append(dec_str(toks[pos]))
        pos += 1
    return out, pos + 1


def list_args_line(a, res):
    return "%s %s %s %s %s %s %s" % (_optname(a[0]), enc_str(a[1]), _optname(a[2]), _optname(a[3]),
                                     _optbool(a[4]), _optbool(a[5]), enc_str(res))


def map_args_line(a, res):
    return "%s %s %s %s %s %s %s %s %s" % (_optname(a[0]), enc_str(a[1]), _optname(a[2]), enc_str(a[3]), _optname(a[4]),
                                           _optname(a[5]), _optbool(a[6]), _optbool(a[7]), enc_str(res))


def g_line(spec):
    p = parser_of(spec)
    tpl = []
    for sym, kind, data in spec["prods"]:
        if kind == "list":
            tpl.append("L " + list_args_line(data, sym))
        elif kind == "map":
            tpl.append("M " + map_args_line(data, sym))
    prods = [(s, [list(r.production) for r in rr]) for s, rr in p.prods_map.items()]
    return "g keep %s start %s suffix %s prods %stpl %s" % (
        _names(sorted(spec["keep"] or [])), enc_str(spec.get("start", "E")), _names(sorted(p._suffix_symbols)),
        show_prods(prods), " ".join(tpl))


# ------------------------------------------------------------------ impl: the real code answers the lines
def _flatten_real(t, fake):
    ll = _ll()
    if isinstance(t.value, list) and len(t.value) == 2:
        _flatten_real(t.value[1], fake)
    ll.LLParser._process_seq_telement(fake, t)


def _tpl_reply(op, args):
    ll = _ll()
    if op == "lp":
        o, i, d, c, afd, opt, res = args
        t = ll.ListProds(o, i, d, c, allow_final_delimiter=afd, optional=opt)
        t.complete_init(res, set(), None)
        prods = [(s, [list(r) for r in rr]) for s, rr in t.gen_productions()]
        return "ok P " + show_prods(prods) + "LS " + show_sigs(t.list_prods_signatures) + "TS " + show_sigs(
            t.tail_prods_signatures)
    if op == "mp":
        o, k, a, v, d, c, opt, afd, res = args
        kw = {} if afd is None else {"allow_final_delimiter": afd}
        t = ll.MapProds(o, k, a, v, d, c, optional=opt, **kw)
        t.complete_init(res, set(), None)
        prods = [(s, [list(r) for r in rr]) for s, rr in t.gen_productions()]
        return ("ok P " + show_prods(prods) + "MS " + show_sigs(t.map_prods_signatures) + "KS " +
                show_sigs(t.kv_tail_prods_signatures) + "KV " + enc_str(t.kv_prod_signature.name) + " " +
                _names(t.kv_prod_signature.child_names))
    if op == "sp":
        res, terminals, syms = args
        t = ll.ProdSequence(*syms)
        # an ordered stand-in for the terminal set: same operations, iteration order = the order given to the model
        t.complete_init(res, dict.fromkeys(terminals).keys(), ll.ParserSummary())
        prods = [(s, [list(r) for r in rr]) for s, rr in t.gen_productions()]
        return "ok P " + show_prods(prods)
    if op == "pr":
        terminals, prods = args
        import itertools
        rules = ll.LLParser._make_prod_rules_list("X", prods, dict.fromkeys(terminals).keys(), itertools.count(),
                                                  ll.ParserSummary())
        return "ok " + "".join(_names(r.production) + " " for r in rules)
    raise ValueError(op)


def _dec_optname(s):
    return None if s == "~" else dec_str(s)


def _dec_optbool(s):
    return None if s == "n" else s == "1"


def impl(case):
    out = []
    texts = [parse_input(it) for it in case.get("items", []) if it.get("cl")]
    all_texts = [parse_input(it) for it in case.get("items", [])]
    ti, tj = 0, -1
    spec = case.get("spec")
    for line in case["lines"]:
        toks = line.split()
        op = toks[0]
        try:
            if op == "g":
                cl = parser_of(spec).cleanuper
                out.append("ok squash %s choice %s" % (_names(sorted(cl.squash_symbols)), _names(sorted(cl.choice_symbols))))
            elif op == "G":
                cl = parser_of(spec).cleanuper
                out.append("ok squash %s choice %s" % (_names(sorted(cl.squash_symbols)), _names(sorted(cl.choice_symbols))))
            elif op == "ln":
                out.append(real_lines(parser_of(spec), dec_str(toks[1])))
            elif op == "tp":
                tj += 1
                while case["items"][tj].get("tp") is None:
                    try:
                        parser_of(spec).parse(all_texts[tj])      # the failing call of the sequence
                    except Exception:
                        pass
                    tj += 1
                out.append("ok " + show_val(parser_of(spec).parse(all_texts[tj], do_cleanup=False)))
            elif op == "tc":
                out.append("ok " + show_val(parser_of(spec).parse(all_texts[tj])))
            elif op == "cl":
                text = texts[ti]
                ti += 1
                out.append("ok " + show_val(parser_of(spec).parse(text)))
            elif op == "cf":
                out.append("ok 1")
            elif op == "lp":
                a = toks[1:]
                out.append(_tpl_reply("lp", [_dec_optname(a[0]), dec_str(a[1]), _dec_optname(a[2]), _dec_optname(a[3]),
                                             _dec_optbool(a[4]), _dec_optbool(a[5]), dec_str(a[6])]))
            elif op == "mp":
                a = toks[1:]
                out.append(_tpl_reply("mp", [_dec_optname(a[0]), dec_str(a[1]), _dec_optname(a[2]), dec_str(a[3]),
                                             _dec_optname(a[4]), _dec_optname(a[5]), _dec_optbool(a[6]), _dec_optbool(a[7]),
                                             dec_str(a[8])]))
            elif op == "sp":
                ll = _ll()
                res = dec_str(toks[1])
                terminals, pos = _read_names(toks, 3)
                syms = []
                while pos < len(toks):
                    if toks[pos] == "X":
                        ex, pos = _read_names(toks, pos + 1)
                        syms.append(ll.AnyTokenExcept(*ex))
                    else:
                        syms.append(dec_str(toks[pos]))
                        pos += 1
                out.append(_tpl_reply("sp", [res, terminals, syms]))
            elif op == "pr":
                ll = _ll()
                terminals, pos = _read_names(toks, 2)
                prods = []
                while pos < len(toks):
                    if toks[pos] == "N":
                        prods.append(None)
                        pos += 1
                    elif toks[pos] == "X":
                        ex, pos = _read_names(toks, pos + 1)
                        prods.append(ll.AnyTokenExcept(*ex))
                    else:
                        p, pos = _read_names(toks, pos)
                        prods.append(tuple(p))
                out.append(_tpl_reply("pr", [terminals, prods]))
            elif op == "sq":
                t, _ = read_val(toks, 1)

                class Fake:
                    _seq_symbols = {t.name}
                _flatten_real(t, Fake)
                out.append("ok " + show_val(t))
            else:
                out.append("bad-op")
        except Exception as e:
            out.append(_err(e))
    return out


def observable(i, line):
    # cl: model clean-up of the real raw tree; tc: tokens -> model parse -> model clean-up, incl. rejection of the text
    return line.startswith("cl ") or line == "tc"


# ------------------------------------------------------------------ oracle
def _strip(act):
    ll = _ll()
    while isinstance(act, ll.TElement):
        if act.is_leaf():
            act = act.value
        elif isinstance(act.value, list) and len(act.value) == 1:
            act = act.value[0]
        else:
            break
    return act


def _short(x):
    s = repr(x)
    return s if len(s) < 120 else s[:117] + "..."


def match(exp, act, parser, path="value"):
    """None when `act` (real result) denotes the data `exp`, else a message"""
    ll = _ll()
    raw = act
    act = _strip(act)
    if exp is None or isinstance(exp, str):
        if isinstance(act, ll.TElement) or act != exp or type(act) is not type(exp):
            return "%s: expected %s, got %s" % (path, _short(exp), _short(act))
        return None
    if isinstance(exp, list):
        if not isinstance(act, list):
            return "%s: expected a list, got %s" % (path, _short(act))
        if len(act) != len(exp):
            return "%s: list of %d entries, %d items denoted" % (path, len(act), len(exp))
        for i, (e, a) in enumerate(zip(exp, act)):
            m = match(e, a, parser, "%s[%d]" % (path, i))
            if m:
                return m
        return None
    if "map" in exp:
        if not isinstance(act, dict):
            return "%s: expected a dict, got %s" % (path, _short(act))
        if len(act) != len(exp["map"]):
            return "%s: dict with keys %s, denoted keys (in order) %s" % (
                path, _short([_strip(k) for k in act.keys()]), _short([k for k, _ in exp["map"]]))
        for (k, e), (ak, a) in zip(exp["map"], act.items()):
            m = match(k, ak, parser, "%s.key" % path)
            if m:
                return "%s: keys %s, denoted (in order) %s (%s)" % (
                    path, _short([_strip(x) for x in act.keys()]), _short([x for x, _ in exp["map"]]), m)
            m = match(e, a, parser, "%s[%s]" % (path, _short(k)))
            if m:
                return m
        return None
    if "te" in exp:
        # the name of the surviving wrapper is not part of the property (the correspondence compares it)
        if not isinstance(act, ll.TElement) or act.is_leaf():
            return "%s: expected a %s node, got %s" % (path, exp["te"], _short(act))
        if len(act.value) != len(exp["ch"]):
            return "%s: node %s has %d children, %d expected" % (path, act.name, len(act.value), len(exp["ch"]))
        for i, (e, a) in enumerate(zip(exp["ch"], act.value)):
            m = match(e, a, parser, "%s.%s[%d]" % (path, act.name, i))
            if m:
                return m
        return None
    if "seq" in exp:
        if not isinstance(act, list):
            return "%s: expected a sequence (list), got %s" % (path, _short(act))
        if len(act) != len(exp["seq"]):
            return "%s: sequence of %d elements, %d matched" % (path, len(act), len(exp["seq"]))
        for i, (e, a) in enumerate(zip(exp["seq"], act)):
            if not isinstance(a, ll.TElement) or a.name != e["el"]:
                return "%s[%d]: sequence element is not the matched %s element: %s" % (path, i, e["el"], _short(a))
            # the elements stay TElement objects; containers below them are python lists / dicts as anywhere else
            m = match(e["v"], a, parser, "%s[%d]" % (path, i))
            if m:
                return m
        return None
    return "%s: bad expectation %s" % (path, _short(exp))


def oracle(case, replies):
    if "spec" not in case or case.get("meta", {}).get("grammar_rejected_as_documented"):
        return None
    ll = _ll()
    try:
        parser = parser_of(case["spec"])
    except Exception as e:
        return "grammar: the grammar of the case is rejected (%s)" % type(e).__name__
    for it in case["items"]:
        exp = it["exp"]
        shown = it["text"] if len(it["text"]) < 400 else it["text"][:200] + "<... %d characters ...>" % (len(it["text"]) - 300) + it["text"][-100:]
        try:
            root = parser.parse(parse_input(it))
        except ll.LexicalError:
            if exp[0] in ("lexerr", "any"):
                continue
            return "exception: %r raises LexicalError" % (shown,)
        except ll.ParsingError:
            if exp[0] in ("err", "any"):
                continue
            return "rejected: %r is not parsed although it denotes %s" % (shown, _short(exp[1]))
        except Exception as e:
            return "exception: %r raises %s" % (shown, type(e).__name__)
        if exp[0] == "any":
            continue
        if exp[0] in ("err", "lexerr"):
            return "accepted: %r is parsed (%s) although the grammar cannot denote it" % (shown, _short(root.value))
        m = match(exp[1], root, parser)
        if m:
            return "items: %r -> %s" % (shown, m)
    return None


# ------------------------------------------------------------------ rendering helpers
WORDS = ["a", "bb", "c1", "dd_", "k", "k1", "kk", "z", "x_1", "Lst"]


# characters at which str.splitlines() breaks a line but str.split('\n') does not; all of them are \s blanks
ODD_BLANKS = ["\r", "\x0b", "\x0c", "\x1c", "\x1d", "\x1e", "\x85", "\u2028", "\u2029", "\r\n", "\xa0", "\u3000"]


def comment(rng):
    """an end-of-line comment whose body looks like source text and may hold any blank character except \\n"""
    body = "".join(rng.choice([" x", ",", " [", "]", " {", "}", ":", " k", " 7", ";", "//", " ", "\t"] + [c for c in ODD_BLANKS if "\n" not in c])
                   for _ in range(rng.choice([0, 1, 3, 6])))
    return "//" + body + "\n"


def ws(rng, comments=True):
    r = rng.random()
    if r < 0.06:
        return rng.choice(ODD_BLANKS) + rng.choice(["", " ", "\n"])
    if comments and r < 0.14:
        return rng.choice(["", " "]) + comment(rng) + rng.choice(["", " "])
    if comments and r < 0.20:
        return rng.choice(["/**/", "/* c */", " /* a, [\n b ] * / x*/ ", "/*\n\n*/", "/* // */"])
    if comments:
        return rng.choice(["", "", " ", "  ", "\n", "\n  ", " // cmt\n", "\n\n", "\t", " //\n "])
    return rng.choice(["", "", " ", "  ", "\n ", "\t"])


def sep(rng, comments=True):
    """separator that keeps two words apart"""
    r = rng.random()
    if r < 0.06:
        return rng.choice(ODD_BLANKS)
    if comments and r < 0.14:
        return " " + comment(rng)
    return rng.choice([" ", "  ", "\n", " // c\n", "\t "]) if comments else rng.choice([" ", "  ", "\n "])


def input_mode(text):
    """how the text is handed to parse(): a str, a list of lines, a list of lines that keep their newline"""
    import zlib
    return ["str", "str", "lines", "lines-nl"][zlib.crc32(text.encode("utf-8")) % 4]


def parse_input(it):
    text, mode = it["text"], it.get("mode", "str")
    if mode == "lines":
        return text.split("\n")
    if mode == "lines-nl":
        ls = text.split("\n")
        return [l + "\n" for l in ls[:-1]] + [ls[-1]]
    return text


# ---- family 1: every ListProds option combination (port of design_probes/c05_list_all_options.py)
def list_configs():
    for br in (True, False):
        for dl in (True, False):
            for nullable in ((False, True) if dl else (False,)):
                for afd in ((None, True, False) if (br and dl) else (None, False)):
                    for opt in ((None, True, False) if br else (None,)):
                        yield (br, dl, nullable, afd, opt)


def f1_spec(cfg, smart, keep):
    br, dl, nullable, afd, opt = cfg
    item = [["WORD"]] + ([["LIST"]] if br else []) + ([None] if nullable else [])
    return {"prods": [["E", "plain", [["LIST", "NUMBER"]]],
                      ["LIST", "list", ["[" if br else None, "ITEM", "," if dl else None, "]" if br else None, afd, opt]],
                      ["ITEM", "plain", item]],
            "keep": keep, "smart": smart, "start": "E"}


def f1_gen(rng, cfg, depth=0, big=False, nest=True):
    br, dl, nullable, afd, opt = cfg
    n = rng.choice([0, 0, 1, 1, 2, 3, 4, 6] if not big else [0, 1, 2, 3, 5, 8, 13])
    items = []
    for _ in range(n):
        k = rng.random()
        if nullable and k < 0.25:
            items.append(None)
        elif nest and br and depth < (2 if not big else 4) and k < 0.5:
            items.append(f1_gen(rng, cfg, depth + 1, big, nest))
        else:
            items.append(rng.choice(WORDS))
    fin = dl and n > 0 and rng.random() < 0.35
    return ["L", items, fin]


def f1_render(rng, node, cfg):
    br, dl, nullable, afd, opt = cfg
    _, items, fin = node
    parts = []
    for it in items:
        if it is None:
            parts.append("")
        elif isinstance(it, list):
            parts.append(f1_render(rng, it, cfg))
        else:
            parts.append(it)
    if dl:
        s = ""
        for i, p in enumerate(parts):
            if i:
                s += ws(rng, False) + "," + ws(rng, False)
            s += p
    else:
        s = ""
        for i, p in enumerate(parts):
            if i:
                s += sep(rng, False) if not (br and (s.endswith("]") or p.startswith("["))) else ws(rng, False)
            s += p
    if fin:
        s += ws(rng, False) + ","
    if br:
        s = "[" + ws(rng, False) + s + ws(rng, False) + "]"
    return s


def f1_expected(node, cfg, own_item=True):
    """('ok', value) or ('err',): what the text rendered from `node` denotes under the grammar of `cfg`"""
    br, dl, nullable, afd, opt = cfg
    eff_afd = afd if afd is not None else (dl and br)
    _, items, fin = node
    vals = []
    for it in items:
        if isinstance(it, list):
            r = f1_expected(it, cfg, own_item)
            if r[0] == 'err':
                return r
            vals.append(r[1])
        else:
            vals.append(it)
    if fin:
        if eff_afd:
            pass
        elif nullable:
            vals.append(None)
        elif opt and br and own_item:
            pass
        else:
            return ('err',)
    # an optional bracketed list used as its own item makes the item nullable (documented, not a defect)
    item_nullable = nullable or (bool(opt) and br and own_item)
    if fin and not eff_afd and not nullable and item_nullable:
        vals.append(None)
    if item_nullable:
        if eff_afd and vals and vals[-1] is None and not fin:
            vals = vals[:-1]                       # "[a, ]" written as [a, <empty>] is the text of a final delimiter
        if br and items == [None] and not fin:
            vals = []                              # "[ ]" is the empty list
        if not br and vals == [None]:
            vals = []
    return ('ok', vals)


def f1_items(rng, cfg, n_texts, big=False, nest=True):
    br, dl, nullable, afd, opt = cfg
    items = []
    for _ in range(n_texts):
        node = f1_gen(rng, cfg, big=big, nest=nest)
        absent = bool(opt) and rng.random() < 0.15
        text = ws(rng, False) + ("" if absent else f1_render(rng, node, cfg)) + " 7" + ws(rng, False)
        if absent:
            exp = ("ok", {"te": "E", "ch": [None, "7"]})
        else:
            r = f1_expected(node, cfg, nest)
            exp = ("ok", {"te": "E", "ch": [r[1], "7"]}) if r[0] == "ok" else ("err",)
        tags = ["f1"]
        if absent:
            tags.append("absent-optional")
        if node[2] and not absent:
            tags.append("final-delim" + ("-rejected" if exp[0] == "err" else ""))
        if not absent and node[1] == [] and br:
            tags.append("empty-brackets")
        items.append({"text": text, "exp": list(exp), "tags": tags, "size": _size(node)})
    return items


def _size(node):
    """(max entries of a container, nesting depth) of generator data"""
    if not isinstance(node, list) or not node:
        return [0, 0]
    kind = node[0]
    if kind == "L":
        subs = [_size(x) for x in node[1]]
        return [max([len(node[1])] + [s[0] for s in subs]), 1 + max([0] + [s[1] for s in subs])]
    if kind in ("M", "P"):
        subs = [_size(v) for _, v in node[1]]
        return [max([len(node[1])] + [s[0] for s in subs]), 1 + max([0] + [s[1] for s in subs])]
    if kind == "O":
        return _size(node[1])
    if kind == "R":
        subs = [_size(x) for x in (node[1], node[2]) if x is not None]
        return [max([0] + [s[0] for s in subs]), max([0] + [s[1] for s in subs])]
    if kind == "B":
        subs = [_size(x[1]) for x in node[1]]
        return [max([len(node[1])] + [s[0] for s in subs]), 1 + max([0] + [s[1] for s in subs])]
    return [0, 0]


# ---- family 2/3: nested json-like data with objects, records (optional containers) and sequences
def f2_spec(cfg, keep):
    """cfg: dict(list_afd, map_afd, item_nullable, val_nullable, list_delim, smart, seq_syms, nobr_map)"""
    item = "LITEM" if cfg["item_nullable"] else "VALUE"
    mval = "MVAL" if cfg["val_nullable"] else "VALUE"
    prods = [["E", "plain", [["TOP"]] if cfg["nobr_map"] else [["VALUE"]]]]
    if cfg["nobr_map"]:
        prods.append(["TOP", "map", [None, "WORD", ":", "VALUE", ",", None, None, cfg["map_afd"]]])
    prods += [
        ["VALUE", "plain", [["WORD"], ["LIST"], ["MAP"], ["OBJECT"], ["REC"], ["BLOCK"], ["PLIST"]]],
        ["PLIST", "list", ["@", "PITEM", ";", "#", None, None]],
        ["PITEM", "plain", [["PAIR"]]],
        ["PAIR", "plain", [["WORD", ":", "VALUE"]]],
        ["LIST", "list", ["[", item, "," if cfg["list_delim"] else None, "]", cfg["list_afd"], None]],
        ["MAP", "map", ["{", "WORD", ":", mval, ",", "}", None, cfg["map_afd"]]],
        ["OBJECT", "plain", [["|", "VALUE", "|"]]],
        ["REC", "plain", [["<", "OLIST", "OMAP", "NUMBER", ">"]]],
        ["OLIST", "list", ["[", "VALUE", ",", "]", None, True]],
        ["OMAP", "map", ["{", "WORD", ":", "VALUE", ",", "}", True, None]],
        ["BLOCK", "plain", [["(", "SEQ", ")"]]],
        ["SEQ", "seq", cfg["seq_syms"]],
        ["NUM", "plain", [["NUMBER"]]],
    ]
    if cfg["item_nullable"]:
        prods.append(["LITEM", "plain", [["VALUE"], None]])
    if cfg["val_nullable"]:
        prods.append(["MVAL", "plain", [["VALUE"], None]])
    return {"prods": prods, "keep": keep, "smart": cfg["smart"], "start": "E"}


def f2_gen(rng, cfg, d=0, maxd=4, in_seq=False):
    r = rng.random()
    if d >= maxd or r < 0.25:
        return ["W", rng.choice(WORDS)]
    if r < 0.50:
        n = rng.choice([0, 0, 1, 2, 3, 5])
        items = []
        for _ in range(n):
            if cfg["item_nullable"] and rng.random() < 0.2:
                items.append(None)
            else:
                items.append(f2_gen(rng, cfg, d + 1, maxd, in_seq))
        fin = cfg["list_delim"] and n > 0 and rng.random() < 0.3
        return ["L", items, fin]
    if r < 0.72:
        n = rng.choice([0, 0, 1, 2, 3, 4])
        pairs = []
        for _ in range(n):
            k = rng.choice(["k", "k1", "kk", "z"])
            if cfg["val_nullable"] and rng.random() < 0.2:
                pairs.append([k, None])
            else:
                pairs.append([k, f2_gen(rng, cfg, d + 1, maxd, in_seq)])
        fin = n > 0 and rng.random() < 0.3
        return ["M", pairs, fin]
    if r < 0.78:
        return ["O", f2_gen(rng, cfg, d + 1, maxd, in_seq)]
    if r < 0.83:
        n = rng.choice([0, 1, 2, 3])
        return ["P", [[rng.choice(["k", "kk", "z"]), f2_gen(rng, cfg, d + 1, maxd, in_seq)] for _ in range(n)],
                n > 0 and rng.random() < 0.3]
    if r < 0.90:
        ol = None if rng.random() < 0.4 else f2_gen_container(rng, cfg, "L", d + 1, maxd, in_seq)
        om = None if rng.random() < 0.4 else f2_gen_container(rng, cfg, "M", d + 1, maxd, in_seq)
        return ["R", ol, om, str(rng.randrange(100))]
    els = []
    for _ in range(rng.choice([0, 1, 2, 3, 5])):
        sym = rng.choice(cfg["seq_syms"])
        if isinstance(sym, dict):
            tok = rng.choice([t for t in all_terminals() if t not in sym["x"]])
            text = {"WORD": rng.choice(WORDS), "NUMBER": str(rng.randrange(100))}.get(tok, tok)
            els.append([tok, ["W", text]])
        elif sym == "WORD":
            els.append([sym, ["W", rng.choice(WORDS)]])
        elif sym == "NUM":
            els.append([sym, ["W", str(rng.randrange(100))]])
        elif sym == "LIST":
            els.append([sym, f2_gen_container(rng, cfg, "L", d + 1, maxd, True, own=True)])
        elif sym == "MAP":
            els.append([sym, f2_gen_container(rng, cfg, "M", d + 1, maxd, True, own=True)])
        elif sym == "OBJECT":
            els.append([sym, ["O", f2_gen(rng, cfg, d + 1, maxd, True)]])
        else:
            raise ValueError(sym)
    return ["B", els]


def f2_gen_container(rng, cfg, kind, d, maxd, in_seq, own=False):
    """a list / map of the OLIST/OMAP templates (own=False: plain VALUE items, afd default) or of LIST/MAP"""
    c = cfg if own else dict(cfg, item_nullable=False, val_nullable=False, list_delim=True)
    if kind == "L":
        n = rng.choice([0, 1, 2, 3])
        items = []
        for _ in range(n):
            if c["item_nullable"] and rng.random() < 0.2:
                items.append(None)
            else:
                items.append(f2_gen(rng, cfg, d + 1, maxd, in_seq))
        return ["L", items, c["list_delim"] and n > 0 and rng.random() < 0.3, "own" if own else "opt"]
    n = rng.choice([0, 1, 2, 3])
    pairs = []
    for _ in range(n):
        k = rng.choice(["k", "k1", "kk", "z"])
        if c["val_nullable"] and rng.random() < 0.2:
            pairs.append([k, None])
        else:
            pairs.append([k, f2_gen(rng, cfg, d + 1, maxd, in_seq)])
    return ["M", pairs, n > 0 and rng.random() < 0.3, "own" if own else "opt"]


def f2_render(rng, node, cfg):
    kind = node[0]
    if kind == "W":
        return node[1]
    if kind == "L":
        opt = len(node) > 3 and node[3] == "opt"
        delim = True if opt else cfg["list_delim"]
        parts = ["" if x is None else f2_render(rng, x, cfg) for x in node[1]]
        s = "[" + ws(rng)
        for i, p in enumerate(parts):
            if i:
                s += ("," + ws(rng)) if delim else sep(rng)
            s += p + ws(rng)
        if node[2]:
            s += "," + ws(rng)
        return s + "]"
    if kind == "M":
        s = "{" + ws(rng)
        for i, (k, v) in enumerate(node[1]):
            if i:
                s += "," + ws(rng)
            s += k + ws(rng) + ":" + ws(rng) + ("" if v is None else f2_render(rng, v, cfg)) + ws(rng)
        if node[2]:
            s += "," + ws(rng)
        return s + "}"
    if kind == "O":
        return "|" + ws(rng) + f2_render(rng, node[1], cfg) + ws(rng) + "|"
    if kind == "P":
        s = "@" + ws(rng)
        for i, (k, v) in enumerate(node[1]):
            if i:
                s += ";" + ws(rng)
            s += k + ws(rng) + ":" + ws(rng) + f2_render(rng, v, cfg) + ws(rng)
        if node[2]:
            s += ";" + ws(rng)
        return s + "#"
    if kind == "R":
        s = "<" + ws(rng)
        for x in (node[1], node[2]):
            if x is not None:
                s += f2_render(rng, x, cfg) + ws(rng)
        return s + node[3] + ws(rng) + ">"
    if kind == "B":
        s = "(" + ws(rng)
        for i, (sym, v) in enumerate(node[1]):
            if i:
                s += sep(rng)
            s += f2_render(rng, v, cfg)
        return s + ws(rng) + ")"
    raise ValueError(kind)


class _Reject(Exception):
    pass


def f2_expected(node, cfg):
    kind = node[0]
    if kind == "W":
        return node[1]
    if kind == "L":
        opt = len(node) > 3 and node[3] == "opt"
        nullable = False if opt else cfg["item_nullable"]
        delim = True if opt else cfg["list_delim"]
        afd = None if opt else cfg["list_afd"]
        eff_afd = afd if afd is not None else delim
        items, fin = node[1], node[2]
        vals = [None if x is None else f2_expected(x, cfg) for x in items]
        if fin:
            if eff_afd:
                pass
            elif nullable:
                vals.append(None)
            else:
                raise _Reject()
        if nullable:
            if eff_afd and vals and vals[-1] is None and not fin:
                vals = vals[:-1]
            if items == [None] and not fin:
                vals = []
        return vals
    if kind == "M":
        opt = len(node) > 3 and node[3] == "opt"
        afd = True if opt or cfg["map_afd"] is None else cfg["map_afd"]
        if node[2] and not afd:
            raise _Reject()
        out = []
        for k, v in node[1]:
            e = None if v is None else f2_expected(v, cfg)
            for ent in out:
                if ent[0] == k:
                    ent[1] = e
                    break
            else:
                out.append([k, e])
        return {"map": out}
    if kind == "O":
        return {"te": "OBJECT", "ch": ["|", f2_expected(node[1], cfg), "|"]}
    if kind == "P":     # list (default options: final delimiter allowed) whose items are PAIR nodes
        return [{"te": "PAIR", "ch": [k, ":", f2_expected(v, cfg)]} for k, v in node[1]]
    if kind == "R":
        return {"te": "REC", "ch": ["<", None if node[1] is None else f2_expected(node[1], cfg),
                                    None if node[2] is None else f2_expected(node[2], cfg), node[3], ">"]}
    if kind == "B":
        return {"te": "BLOCK", "ch": ["(", {"seq": [{"el": sym, "v": f2_expected(v, cfg)} for sym, v in node[1]]}, ")"]}
    raise ValueError(kind)


def _has_container_under_seq(node, under=False):
    if not isinstance(node, list) or not node:
        return False
    kind = node[0]
    if kind in ("L", "M", "P"):
        if under:
            return True
        vals = node[1] if kind == "L" else [v for _, v in node[1]]
        return any(_has_container_under_seq(v, under) for v in vals if v is not None)
    if kind == "O":
        return _has_container_under_seq(node[1], under)
    if kind == "R":
        return any(_has_container_under_seq(x, under) for x in (node[1], node[2]) if x is not None)
    if kind == "B":
        return any(_has_container_under_seq(v, True) for _, v in node[1])
    return False


def _kinds(node, acc):
    if not isinstance(node, list) or not node:
        return acc
    kind = node[0]
    acc.add(kind)
    if kind == "L":
        for x in node[1]:
            _kinds(x, acc)
    elif kind in ("M", "P"):
        for _, v in node[1]:
            _kinds(v, acc)
    elif kind == "O":
        _kinds(node[1], acc)
    elif kind == "R":
        _kinds(node[1], acc)
        _kinds(node[2], acc)
    elif kind == "B":
        for _, v in node[1]:
            _kinds(v, acc)
    return acc


def f2_items(rng, cfg, n_texts, maxd=4):
    items = []
    for _ in range(n_texts):
        if cfg["nobr_map"]:
            n = rng.choice([0, 1, 2, 3, 4])
            pairs = [[rng.choice(["k", "k1", "kk", "z"]), f2_gen(rng, cfg, 1, maxd)] for _ in range(n)]
            fin = n > 0 and rng.random() < 0.3
            node = ["M", pairs, fin]
            text = ws(rng)
            for i, (k, v) in enumerate(pairs):
                if i:
                    text += "," + ws(rng)
                text += k + ws(rng) + ":" + ws(rng) + f2_render(rng, v, cfg) + ws(rng)
            if fin:
                text += "," + ws(rng)
        else:
            node = f2_gen(rng, cfg, 0, maxd)
            if node[0] == "W" and rng.random() < 0.8:
                node = f2_gen(rng, cfg, 0, maxd)
            text = ws(rng) + f2_render(rng, node, cfg) + ws(rng)
        try:
            exp = ["ok", f2_expected(node, cfg)]
        except _Reject:
            exp = ["err"]
        tags = ["f2"]
        if _has_container_under_seq(node):
            tags.append("container-under-seq")
        xs = [i for i, x in enumerate(cfg["seq_syms"]) if isinstance(x, dict)]
        if xs and "B" in _kinds(node, set()):
            tags.append("seq-any-token-except@%s" % ("first" if xs[0] == 0 else "last" if xs[0] == len(cfg["seq_syms"]) - 1
                                                      else "middle"))
        ks = _kinds(node, set())
        tags += ["has-" + {"L": "list", "M": "map", "O": "object", "R": "record", "B": "sequence", "W": "word", "P": "pair-list"}[k]
                 for k in sorted(ks) if k in "LMORBWP"]
        if exp[0] == "err":
            tags.append("final-delim-rejected")
        items.append({"text": text, "exp": exp, "tags": tags, "size": _size(node)})
    return items


def any_except(matched, syms):
    """AnyTokenExcept(...) that matches the tokens `matched` not already claimed by an explicit symbol of `syms`"""
    m = [t for t in matched if t not in syms and not (t == "NUMBER" and "NUM" in syms)]
    return {"x": [t for t in all_terminals() if t not in m]}


def f2_configs(rng, n):
    for _ in range(n):
        seq_syms = rng.choice([["WORD", "NUM"], ["WORD", "NUM", "OBJECT"], ["WORD", "LIST", "MAP"],
                               ["NUM", "OBJECT", "LIST"], ["WORD", "NUM", "OBJECT", "LIST", "MAP"]])
        if rng.random() < 0.45:
            # the AnyTokenExcept pseudo-item at every position of the sequence
            seq_syms = list(seq_syms)
            seq_syms.insert(rng.randrange(0, len(seq_syms) + 1), any_except(["WORD", "NUMBER", ";", ":", "="], seq_syms))
        list_delim = rng.random() < 0.8
        cfg = {"list_afd": rng.choice([None, True, False]) if list_delim else rng.choice([None, False]),
               "map_afd": rng.choice([None, True, False]),
               "item_nullable": list_delim and rng.random() < 0.35, "val_nullable": rng.random() < 0.3,
               "list_delim": list_delim, "smart": rng.random() < 0.5, "seq_syms": seq_syms,
               "nobr_map": rng.random() < 0.12}
        keep = rng.choice([None, None, [], ["VALUE"], ["WORD"], ["LIST", "MAP"], ["LITEM", "MVAL"], ["OBJECT", "VALUE"],
                           ["SEQ", "NUM"], ["OLIST", "OMAP", "REC"], ["PITEM"], ["PAIR", "PLIST"]])
        yield cfg, keep


# ---- family 3: token items, non-terminal delimiters, composite map keys
def f3a_spec(cfg, smart):
    br, dl, nullable, afd, opt = cfg
    return {"prods": [["E", "plain", [["LIST", "NUMBER"]]],
                      ["LIST", "list", ["[" if br else None, "WORD", "," if dl else None, "]" if br else None, afd, opt]]],
            "keep": None, "smart": smart, "start": "E"}


def f3b_spec(afd, nullable, smart, keep):
    return {"prods": [["E", "plain", [["LIST", "NUMBER"]]],
                      ["LIST", "list", ["[", "ITEM", "SEP", "]", afd, None]],
                      ["SEP", "plain", [[","], [";"]]],
                      ["ITEM", "plain", [["WORD"], ["LIST"]] + ([None] if nullable else [])]],
            "keep": keep, "smart": smart, "start": "E"}


def f3c_spec(afd, smart, keep):
    return {"prods": [["E", "plain", [["M"]]],
                      ["M", "map", ["{", "KEY", ":", "VALUE", ",", "}", None, afd]],
                      ["KEY", "plain", [["WORD"], ["NUMBER"], ["PATH"]]],
                      ["PATH", "plain", [["@", "WORD", "WORD"]]],
                      ["VALUE", "plain", [["WORD"], ["M"]]]],
            "keep": keep, "smart": smart, "start": "E"}


def f3c_gen(rng, d=0):
    n = rng.choice([0, 1, 2, 3, 4])
    pairs, used = [], set()
    for _ in range(n):
        r = rng.random()
        if r < 0.5:
            k = rng.choice(["k", "kk", "z"])
        elif r < 0.75:
            k = str(rng.randrange(4))
        else:
            k = ["@", rng.choice(WORDS), rng.choice(WORDS)]
            if tuple(k) in used:
                continue          # a composite key is a TElement (identity): repeated ones are not generated
            used.add(tuple(k))
        v = f3c_gen(rng, d + 1) if d < 3 and rng.random() < 0.35 else rng.choice(WORDS)
        pairs.append([k, v])
    return ["M", pairs, bool(pairs) and rng.random() < 0.3]


def f3c_render(rng, node):
    s = "{" + ws(rng)
    for i, (k, v) in enumerate(node[1]):
        if i:
            s += "," + ws(rng)
        ks = k if isinstance(k, str) else "@" + ws(rng) + k[1] + sep(rng) + k[2]
        s += ks + ws(rng) + ":" + ws(rng) + (v if isinstance(v, str) else f3c_render(rng, v)) + ws(rng)
    if node[2]:
        s += "," + ws(rng)
    return s + "}"


def f3c_expected(node, afd):
    if node[2] and not afd:
        raise _Reject()
    out = []
    for k, v in node[1]:
        e = v if isinstance(v, str) else f3c_expected(v, afd)
        if isinstance(k, str):
            for ent in out:
                if ent[0] == k:
                    ent[1] = e
                    break
            else:
                out.append([k, e])
        else:
            out.append([{"te": "PATH", "ch": k}, e])
    return {"map": out}


def f3_cases(rng, tier):
    quick = tier == "quick"
    for order in (0, 1, 2):
        for delim in (",", None):
            for _ in range(4 if quick else 40):
                smart, keep = rng.random() < 0.5, rng.choice([None, ["ITEM"], ["PAIR"]])
                items = []
                for _ in range(8):
                    node = f3d_gen(rng)
                    if delim and node[1] and rng.random() < 0.3:
                        node[2] = True
                    items.append({"text": ws(rng) + f3d_render(rng, node, delim) + ws(rng) + ";",
                                  "exp": ["ok", {"te": "E", "ch": [f3d_expected(node), ";"]}], "size": _size(node),
                                  "tags": ["f3-item-any-token-except@%d" % order]})
                c = make_case(f3d_spec(order, delim, smart, keep), items, {"kind": "f3d", "order": order})
                if c is not None:
                    yield c
    for cfg in list_configs():
        if cfg[2]:
            continue                      # a token is never nullable
        for smart in (True, False):
            for _ in range(2 if quick else 10):
                items = f1_items(rng, cfg, 8, nest=False)
                for it in items:
                    it["tags"] = ["f3-token-items" if t == "f1" else t for t in it["tags"]]
                c = make_case(f3a_spec(cfg, smart), items, {"kind": "f3a", "cfg": list(cfg)})
                if c is not None:
                    yield c
    for _ in range(60 if quick else 600):
        afd, nullable, smart = rng.choice([None, True, False]), rng.random() < 0.4, rng.random() < 0.5
        keep = rng.choice([None, ["SEP"], ["WORD"]])
        cfg = (True, True, nullable, afd, None)
        items = []
        for _ in range(8):
            node = f1_gen(rng, cfg)
            text = f1_render(rng, node, cfg)
            # every second delimiter is written as ';'
            out, n = [], 0
            for ch in text:
                if ch == ",":
                    n += 1
                    out.append(";" if n % 2 == 0 else ",")
                else:
                    out.append(ch)
            r = f1_expected(node, cfg)
            exp = ["ok", {"te": "E", "ch": [r[1], "7"]}] if r[0] == "ok" else ["err"]
            items.append({"text": "".join(out) + " 7", "exp": exp, "tags": ["f3-nonterminal-delimiter"], "size": _size(node)})
        c = make_case(f3b_spec(afd, nullable, smart, keep), items, {"kind": "f3b", "keep": keep})
        if c is not None:
            yield c
    for _ in range(60 if quick else 600):
        afd, smart = rng.choice([None, True, False]), rng.random() < 0.5
        # (keeping KEY makes every key a TElement, compared by identity: outside the property)
        keep = rng.choice([None, ["WORD"], ["PATH"], ["VALUE"]])
        items = []
        for _ in range(8):
            node = f3c_gen(rng)
            try:
                exp = ["ok", f3c_expected(node, True if afd is None else afd)]
            except _Reject:
                exp = ["err"]
            items.append({"text": ws(rng) + f3c_render(rng, node) + ws(rng), "exp": exp, "tags": ["f3-composite-keys"],
                          "size": _size(node)})
        c = make_case(f3c_spec(afd, smart, keep), items, {"kind": "f3c", "keep": keep})
        if c is not None:
            yield c


def f3d_spec(order, delim, smart, keep):
    """list items: AnyTokenExcept at position `order` among the productions of the item symbol"""
    prods = [["LIST"], ["PAIR"]]
    prods.insert(order, {"x": [t for t in all_terminals() if t not in ("WORD", "NUMBER", ":", "=")]})
    return {"prods": [["E", "plain", [["LIST", ";"]]],
                      ["LIST", "list", ["[", "ITEM", delim, "]", None, None]],
                      ["ITEM", "plain", prods],
                      ["PAIR", "plain", [["@", "WORD", "WORD"]]]],
            "keep": keep, "smart": smart, "start": "E"}


def f3d_gen(rng, d=0):
    items = []
    for _ in range(rng.choice([0, 1, 2, 3, 5])):
        r = rng.random()
        if r < 0.55:
            tok = rng.choice(["WORD", "NUMBER", ":", "="])
            items.append(["W", {"WORD": rng.choice(WORDS), "NUMBER": str(rng.randrange(100))}.get(tok, tok)])
        elif r < 0.8 and d < 3:
            items.append(f3d_gen(rng, d + 1))
        else:
            items.append(["Q", rng.choice(WORDS), rng.choice(WORDS)])
    return ["L", items, False]


def f3d_render(rng, node, delim):
    s = "[" + ws(rng)
    for i, it in enumerate(node[1]):
        if i:
            s += ("," + ws(rng)) if delim else sep(rng)
        s += (it[1] if it[0] == "W" else "@" + ws(rng) + it[1] + sep(rng) + it[2] if it[0] == "Q"
              else f3d_render(rng, it, delim)) + ws(rng)
    if node[2]:
        s += "," + ws(rng)
    return s + "]"


def f3d_expected(node):
    return [it[1] if it[0] == "W" else {"te": "PAIR", "ch": ["@", it[1], it[2]]} if it[0] == "Q" else f3d_expected(it)
            for it in node[1]]


ALIAS_MAPS = [("WORD", ":", "WORD"), ("WORD", "WORD", "WORD"), ("NUMBER", "=", "NUMBER"), ("KV", ":", "KV"),
              ("WORD", "=", "KV"), ("KV", "WORD", "WORD"), ("WORD", ":", "NUMBER")]
ALIAS_MAP_BR = [("{", "}"), ("|", "|"), (None, None), ("[", "]"), (":", ";")]
ALIAS_LISTS = [("|", "|", ",", None), ("|", "|", None, None), (",", "]", ",", None), ("[", ";", ";", False),
               ("[", "]", "[", None), ("WORD", "]", ",", None), ("[", "WORD", ",", False)]


def f4_map_spec(kav, br, delim, afd, smart):
    return {"prods": [["E", "plain", [["M", "#"]]],
                      ["M", "map", [br[0], kav[0], kav[1], kav[2], delim, br[1], None, afd]],
                      ["KV", "plain", [["WORD"], ["NUMBER"]]]],
            "keep": None, "smart": smart, "start": "E"}


def _alias_text(rng, sym):
    return {"WORD": rng.choice(WORDS), "NUMBER": str(rng.randrange(30)),
            "KV": rng.choice(WORDS + [str(rng.randrange(30))])}.get(sym, sym)


def f4_cases(rng, tier):
    quick = tier == "quick"
    for kav in ALIAS_MAPS:
        for br in ALIAS_MAP_BR:
            if br[0] in kav or br[1] in kav:
                continue
            for delim in (",", ";"):
                if delim in br:
                    continue
                for _ in range(1 if quick else 6):
                    afd, smart = rng.choice([None, True, False]), rng.random() < 0.5
                    if kav[0] == kav[1] and br[0] is None and afd is not False:
                        afd = False        # "k is v," followed by nothing: keep the bracket-less word-word-word map LL-readable
                    items = []
                    for _ in range(8):
                        n = rng.choice([0, 1, 2, 3, 4])
                        pairs = [[_alias_text(rng, kav[0]), _alias_text(rng, kav[2])] for _ in range(n)]
                        fin = n > 0 and rng.random() < 0.3
                        text = ws(rng) + (br[0] or "") + ws(rng)
                        for i, (k, v) in enumerate(pairs):
                            if i:
                                text += delim + ws(rng)
                            text += k + sep(rng) + _alias_text(rng, kav[1]) + sep(rng) + v + ws(rng)
                        if fin:
                            text += delim + ws(rng)
                        text += (br[1] or "") + ws(rng) + "#"
                        if fin and afd is False:
                            exp = ["err"]
                        else:
                            out = []
                            for k, v in pairs:
                                for ent in out:
                                    if ent[0] == k:
                                        ent[1] = v
                                        break
                                else:
                                    out.append([k, v])
                            exp = ["ok", {"te": "E", "ch": [{"map": out}, "#"]}]
                        items.append({"text": text, "exp": exp, "size": [n, 1],
                                      "tags": ["f4-map-key=val" if kav[0] == kav[2] else "f4-map",
                                               "f4-map-key=assign=val" if kav[0] == kav[1] == kav[2] else "f4-map-symbols",
                                               "f4-open=close" if br[0] and br[0] == br[1] else "f4-brackets"]})
                    c = make_case(f4_map_spec(kav, br, delim, afd, smart), items,
                                  {"kind": "f4-map", "kav": list(kav), "br": list(br), "delim": delim})
                    if c is not None:
                        yield c
    for o, c_, d, afd in ALIAS_LISTS:
        for smart in (True, False):
            for _ in range(1 if quick else 6):
                item = "NUMBER" if "WORD" in (o, c_) else "WORD"
                spec = {"prods": [["E", "plain", [["L", "#"]]], ["L", "list", [o, item, d, c_, afd, None]]],
                        "keep": None, "smart": smart, "start": "E"}
                items = []
                for _ in range(8):
                    n = rng.choice([0, 1, 2, 3, 5])
                    vals = [_alias_text(rng, item) for _ in range(n)]
                    text = ws(rng) + _alias_text(rng, o) + (sep(rng) if o == "WORD" else ws(rng))
                    for i, v in enumerate(vals):
                        if i:
                            text += (ws(rng) + d + ws(rng)) if d else sep(rng)
                        text += v
                    text += sep(rng) + _alias_text(rng, c_) + ws(rng) + "#"
                    items.append({"text": text, "exp": ["ok", {"te": "E", "ch": [vals, "#"]}], "size": [n, 1],
                                  "tags": ["f4-list-open=close" if o == c_ else "f4-list-delim=bracket" if d in (o, c_)
                                           else "f4-list-word-bracket"]})
                cs = make_case(spec, items, {"kind": "f4-list", "args": [o, item, d, c_, afd]})
                if cs is not None:
                    yield cs


# ---- family 5: a nullable container at the very end of the text, two or more levels below the start symbol
def f5_cases(rng, tier):
    quick = tier == "quick"
    kinds = ["opt-list", "nobr-list", "nobr-list-nodelim", "nobr-map", "opt-map", "seq"]
    for kind in kinds:
        for depth in (1, 2, 3):
            for _ in range(3 if quick else 30):
                smart = rng.random() < 0.5
                args = {"opt-list": ["ARGS", "list", ["[", "WORD", ",", "]", None, True]],
                        "nobr-list": ["ARGS", "list", [None, "WORD", ",", None, None, None]],
                        "nobr-list-nodelim": ["ARGS", "list", [None, "NUMBER", None, None, None, None]],
                        "nobr-map": ["ARGS", "map", [None, "WORD", ":", "WORD", ",", None, None, False]],
                        "opt-map": ["ARGS", "map", ["{", "WORD", ":", "WORD", ",", "}", True, None]],
                        "seq": ["ARGS", "seq", ["NUMBER", "LST"]]}[kind]
                prods = [["E", "plain", [["S1"]]]]
                for d in range(1, depth + 1):
                    prods.append(["S%d" % d, "plain", [["WORD", "S%d" % (d + 1) if d < depth else "ARGS"]]])
                prods.append(args)
                if kind == "seq":
                    prods.append(["LST", "list", ["[", "WORD", ",", "]", None, None]])
                spec = {"prods": prods, "keep": None, "smart": smart, "start": "E"}
                items = []
                for _ in range(6):
                    n = rng.choice([0, 0, 1, 2, 3])
                    heads = [rng.choice(WORDS) for _ in range(depth)]
                    text = ws(rng) + sep(rng).join(heads)
                    if kind in ("opt-list", "nobr-list"):
                        vals = [rng.choice(WORDS) for _ in range(n)]
                        absent = kind == "opt-list" and rng.random() < 0.4
                        body = (ws(rng) + "," + ws(rng)).join(vals)
                        if kind == "opt-list":
                            text += "" if absent else ws(rng) + "[" + ws(rng) + body + ws(rng) + "]"
                            val = None if absent else vals
                        else:
                            text += (sep(rng) + body) if vals else ""
                            val = vals
                    elif kind == "nobr-list-nodelim":
                        vals = [str(rng.randrange(50)) for _ in range(n)]
                        text += "".join(sep(rng) + v for v in vals)
                        val = vals
                    elif kind in ("nobr-map", "opt-map"):
                        pairs = [[rng.choice(["k", "kk", "z"]), rng.choice(WORDS)] for _ in range(n)]
                        absent = kind == "opt-map" and rng.random() < 0.4
                        body = (ws(rng) + "," + ws(rng)).join(k + ws(rng) + ":" + ws(rng) + v for k, v in pairs)
                        out = []
                        for k, v in pairs:
                            for ent in out:
                                if ent[0] == k:
                                    ent[1] = v
                                    break
                            else:
                                out.append([k, v])
                        if kind == "opt-map":
                            text += "" if absent else ws(rng) + "{" + ws(rng) + body + ws(rng) + "}"
                            val = None if absent else {"map": out}
                        else:
                            if pairs and pairs[0][0] in WORDS:
                                pass
                            text += (sep(rng) + body) if pairs else ""
                            val = {"map": out}
                    else:
                        els, parts = [], []
                        for _ in range(n):
                            if rng.random() < 0.5:
                                v = str(rng.randrange(50))
                                els.append({"el": "NUMBER", "v": v})
                                parts.append(v)
                            else:
                                ws_ = [rng.choice(WORDS) for _ in range(rng.choice([0, 1, 2]))]
                                els.append({"el": "LST", "v": ws_})
                                parts.append("[" + ws(rng) + ("," + ws(rng)).join(ws_) + "]")
                        text += "".join(sep(rng) + p_ for p_ in parts)
                        val = {"seq": els}
                    text += ws(rng)
                    exp = val
                    for h in reversed(heads):
                        exp = {"te": "S", "ch": [h, exp]}
                    items.append({"text": text, "exp": ["ok", exp], "size": [n, 1],
                                  "tags": ["f5-trailing-%s" % kind, "f5-empty-or-absent" if not n else "f5-nonempty"]})
                c = make_case(spec, items, {"kind": "f5", "what": kind, "depth": depth})
                if c is not None:
                    yield c


# ---- family 6: item / value / element symbols whose alternatives share their first token (real roll-back inside containers)
def f6_cases(rng, tier):
    quick = tier == "quick"

    def gen_item(d):
        r = rng.random()
        if r < 0.4 or d > 3:
            return ["W", rng.choice(WORDS)]
        if r < 0.75:
            return ["Q", rng.choice(WORDS), gen_item(d + 1)]
        return ["L", [gen_item(d + 1) for _ in range(rng.choice([0, 1, 2, 3]))], rng.random() < 0.3]

    def render_item(it):
        if it[0] == "W":
            return it[1]
        if it[0] == "Q":
            return it[1] + ws(rng) + "=" + ws(rng) + render_item(it[2])
        s_ = "[" + ws(rng) + ("," + ws(rng)).join(render_item(x) + ws(rng) for x in it[1])
        return s_ + ("," + ws(rng) if it[2] and it[1] else "") + "]"

    def exp_item(it):
        if it[0] == "W":
            return it[1]
        if it[0] == "Q":
            return {"te": "PAIR", "ch": [it[1], "=", exp_item(it[2])]}
        return [exp_item(x) for x in it[1]]

    for order in (0, 1):
        for _ in range(12 if quick else 150):
            smart = rng.random() < 0.5
            alts = [["PAIR"], ["WORD"], ["LIST"]] if order == 0 else [["LIST"], ["PAIR"], ["WORD"]]
            spec = {"prods": [["E", "plain", [["LIST", ";"]]], ["LIST", "list", ["[", "ITEM", ",", "]", None, None]],
                              ["ITEM", "plain", alts], ["PAIR", "plain", [["WORD", "=", "ITEM"]]]],
                    "keep": rng.choice([None, ["ITEM"], ["PAIR"]]), "smart": smart, "start": "E"}
            items = []
            for _ in range(8):
                node = ["L", [gen_item(0) for _ in range(rng.choice([0, 1, 2, 3, 5]))], rng.random() < 0.3]
                items.append({"text": ws(rng) + render_item(node) + ws(rng) + ";", "size": _size(["L", node[1], False]),
                              "exp": ["ok", {"te": "E", "ch": [exp_item(node), ";"]}], "tags": ["f6-pair-or-word-item"]})
            c = make_case(spec, items, {"kind": "f6a"})
            if c is not None:
                yield c

    def gen_val(d):
        r = rng.random()
        if r < 0.4 or d > 3:
            return ["W", rng.choice(WORDS)]
        if r < 0.7:
            return ["S", [gen_val(d + 1) for _ in range(rng.choice([0, 1, 2, 3]))]]
        return ["M", [[rng.choice(["k", "kk", "z"]), gen_val(d + 1)] for _ in range(rng.choice([0, 1, 2, 3]))]]

    def render_val(v):
        if v[0] == "W":
            return v[1]
        if v[0] == "S":
            return "{" + ws(rng) + ("," + ws(rng)).join(render_val(x) + ws(rng) for x in v[1]) + "}"
        return "{" + ws(rng) + ("," + ws(rng)).join(k + ws(rng) + ":" + ws(rng) + render_val(x) + ws(rng) for k, x in v[1]) + "}"

    def exp_val(v, set_first):
        if v[0] == "W":
            return v[1]
        if v[0] == "S" or (v[0] == "M" and not v[1] and set_first):
            return [exp_val(x, set_first) for x in v[1]] if v[0] == "S" else []
        if v[0] == "S":
            return []
        out = []
        for k, x in v[1]:
            e = exp_val(x, set_first)
            for ent in out:
                if ent[0] == k:
                    ent[1] = e
                    break
            else:
                out.append([k, e])
        return {"map": out}

    for set_first in (True, False):
        for _ in range(12 if quick else 150):
            smart = rng.random() < 0.5
            alts = [["WORD"], ["SET"], ["MAP"]] if set_first else [["WORD"], ["MAP"], ["SET"]]
            spec = {"prods": [["E", "plain", [["VALUE", ";"]]], ["VALUE", "plain", alts],
                              ["SET", "list", ["{", "VALUE", ",", "}", None, None]],
                              ["MAP", "map", ["{", "WORD", ":", "VALUE", ",", "}", None, None]]],
                    "keep": None, "smart": smart, "start": "E"}
            items = []
            for _ in range(8):
                v = gen_val(0)

                def fix(v):     # "{}" is read by the alternative listed first
                    if v[0] == "S" and not v[1] and not set_first:
                        return ["M", []]
                    if v[0] in ("S",):
                        return ["S", [fix(x) for x in v[1]]]
                    if v[0] == "M":
                        return ["M", [[k, fix(x)] for k, x in v[1]]]
                    return v
                v = fix(v)
                items.append({"text": ws(rng) + render_val(v) + ws(rng) + ";", "size": [1, 2],
                              "exp": ["ok", {"te": "E", "ch": [exp_val(v, set_first), ";"]}],
                              "tags": ["f6-set-or-map-same-bracket"]})
            c = make_case(spec, items, {"kind": "f6b", "set_first": set_first})
            if c is not None:
                yield c
    for _ in range(12 if quick else 150):
        smart = rng.random() < 0.5
        spec = {"prods": [["E", "plain", [["SEQ", ";"]]], ["SEQ", "seq", ["ASSIGN", "WORD", "NUM"]],
                          ["ASSIGN", "plain", [["WORD", "=", "RV"]]], ["RV", "plain", [["WORD"], ["NUMBER"]]],
                          ["NUM", "plain", [["NUMBER"]]]],
                "keep": None, "smart": smart, "start": "E"}
        items = []
        for _ in range(8):
            els, parts = [], []
            for _ in range(rng.choice([0, 1, 2, 3, 5])):
                r = rng.random()
                if r < 0.4:
                    w = rng.choice(WORDS)
                    els.append({"el": "WORD", "v": w})
                    parts.append(w)
                elif r < 0.6:
                    n = str(rng.randrange(50))
                    els.append({"el": "NUM", "v": n})
                    parts.append(n)
                else:
                    k, v = rng.choice(WORDS), rng.choice(WORDS + ["5"])
                    els.append({"el": "ASSIGN", "v": {"te": "ASSIGN", "ch": [k, "=", v]}})
                    parts.append(k + ws(rng) + "=" + ws(rng) + v)
            items.append({"text": ws(rng) + sep(rng).join(parts) + ws(rng) + ";", "size": [len(els), 1],
                          "exp": ["ok", {"te": "E", "ch": [{"seq": els}, ";"]}], "tags": ["f6-assign-or-word-element"]})
        c = make_case(spec, items, {"kind": "f6c"})
        if c is not None:
            yield c


# ---- family 7: one container symbol used two or three times in ONE production, with different followers
F7_KINDS = {"nobr-list": ["C", "list", [None, "WORD", ",", None, None, None]],
            "nobr-list-nodelim": ["C", "list", [None, "NUMBER", None, None, None, None]],
            "opt-list": ["C", "list", ["(", "WORD", ",", ")", None, True]],
            "nobr-map": ["C", "map", [None, "WORD", ":", "NUMBER", ",", None, None, False]],
            "opt-map": ["C", "map", ["{", "WORD", ":", "WORD", ",", "}", True, None]],
            "seq": ["C", "seq", ["WORD", "NUMBER", "LST"]]}


def f7_container(rng, kind, force_empty):
    """(text, expectation) of one use of the container; force_empty: absent / empty"""
    n = 0 if force_empty else rng.choice([0, 1, 2, 3])
    if kind in ("nobr-list", "opt-list"):
        vals = [rng.choice(WORDS) for _ in range(n)]
        body = (ws(rng) + "," + ws(rng)).join(vals)
        if kind == "nobr-list":
            return body, vals
        if force_empty or rng.random() < 0.3:
            return "", None
        return "(" + ws(rng) + body + ws(rng) + ")", vals
    if kind == "nobr-list-nodelim":
        vals = [str(rng.randrange(50)) for _ in range(n)]
        return sep(rng).join(vals), vals
    if kind in ("nobr-map", "opt-map"):
        pairs = [[rng.choice(["k", "kk", "z"]), str(rng.randrange(9)) if kind == "nobr-map" else rng.choice(WORDS)]
                 for _ in range(n)]
        out = []
        for k, v in pairs:
            for ent in out:
                if ent[0] == k:
                    ent[1] = v
                    break
            else:
                out.append([k, v])
        body = (ws(rng) + "," + ws(rng)).join(k + ws(rng) + ":" + ws(rng) + v for k, v in pairs)
        if kind == "nobr-map":
            return body, {"map": out}
        if force_empty or rng.random() < 0.3:
            return "", None
        return "{" + ws(rng) + body + ws(rng) + "}", {"map": out}
    els, parts = [], []
    for _ in range(n):
        r = rng.random()
        if r < 0.4:
            w = rng.choice(WORDS)
            els.append({"el": "WORD", "v": w})
            parts.append(w)
        elif r < 0.7:
            v = str(rng.randrange(50))
            els.append({"el": "NUMBER", "v": v})
            parts.append(v)
        else:
            ws_ = [rng.choice(WORDS) for _ in range(rng.choice([0, 1, 2]))]
            els.append({"el": "LST", "v": ws_})
            parts.append("[" + ws(rng) + ("," + ws(rng)).join(ws_) + "]")
    return sep(rng).join(parts), {"seq": els}


def f7_cases(rng, tier):
    quick = tier == "quick"
    followers = ["=", ";", "#", "@", "|", "<", ">"]
    for kind in F7_KINDS:
        for uses in (2, 3):
            for last_is_end in (True, False):
                for _ in range(2 if quick else 20):
                    fs = rng.sample(followers, uses)
                    prod = []
                    for i in range(uses):
                        prod.append("C")
                        if i < uses - 1 or not last_is_end:
                            prod.append(fs[i])
                    prods = [["E", "plain", [prod]], list(F7_KINDS[kind])]
                    if kind == "seq":
                        prods.append(["LST", "list", ["[", "WORD", ",", "]", None, None]])
                    spec = {"prods": prods, "keep": None, "smart": rng.random() < 0.5, "start": "E"}
                    items = []
                    for _ in range(6):
                        empties = [rng.random() < 0.45 for _ in range(uses)]
                        text, ch, k = ws(rng), [], 0
                        for sym in prod:
                            if sym == "C":
                                t, e = f7_container(rng, kind, empties[k])
                                k += 1
                                text += t + ws(rng)
                                ch.append(e)
                            else:
                                text += sym + ws(rng)
                                ch.append(sym)
                        exp = {"te": "E", "ch": ch} if len(ch) > 1 else ch[0]
                        items.append({"text": text, "exp": ["ok", exp], "size": [2, 1],
                                      "tags": ["f7-%s-x%d" % (kind, uses), "f7-last-at-end" if last_is_end else "f7-last-followed"]})
                    c = make_case(spec, items, {"kind": "f7", "what": kind, "uses": uses})
                    if c is not None:
                        yield c
    # a map whose key and value are the same non-terminal, the value ending in an absent optional list
    for _ in range(10 if quick else 120):
        afd = rng.choice([None, True, False])
        spec = {"prods": [["E", "plain", [["MAP"]]],
                          ["MAP", "map", ["{", "ATOM", ":", "ATOM", ",", "}", None, afd]],
                          ["ATOM", "plain", [["REF"], ["NUMBER"]]],
                          ["REF", "plain", [["WORD", "INDEX"]]],
                          ["INDEX", "list", ["[", "NUMBER", ",", "]", None, True]]],
                "keep": None, "smart": rng.random() < 0.5, "start": "E"}
        items = []
        for _ in range(8):
            def atom():
                if rng.random() < 0.4:
                    v = str(rng.randrange(20))
                    return v, v
                w = rng.choice(WORDS)
                if rng.random() < 0.5:
                    return w, {"te": "REF", "ch": [w, None]}
                idx = [str(rng.randrange(9)) for _ in range(rng.choice([0, 1, 2]))]
                return w + ws(rng) + "[" + ws(rng) + ("," + ws(rng)).join(idx) + "]", {"te": "REF", "ch": [w, idx]}
            out, parts = [], []
            for _ in range(rng.choice([0, 1, 2, 3])):
                kt, ke = atom()
                vt, ve = atom()
                parts.append(kt + ws(rng) + ":" + ws(rng) + vt + ws(rng))
                if isinstance(ke, str):
                    for ent in out:
                        if ent[0] == ke:
                            ent[1] = ve
                            break
                    else:
                        out.append([ke, ve])
                else:
                    out.append([ke, ve])
            items.append({"text": ws(rng) + "{" + ws(rng) + ("," + ws(rng)).join(parts) + "}" + ws(rng),
                          "exp": ["ok", {"map": out}], "size": [len(parts), 2], "tags": ["f7-map-key=value-nonterminal"]})
        c = make_case(spec, items, {"kind": "f7-map"})
        if c is not None:
            yield c


# ---- family 8: sequences whose elements are choice symbols / wrappers of choice symbols / containers, nested
def f8_cases(rng, tier):
    quick = tier == "quick"
    shapes = [(["VALUE", ";"], True), (["ITEM", "BLOCK"], False), (["VALUE"], True), (["WRAP", "#", "BLOCK"], False),
              ([";", "ITEM2", "VALUE"], True)]

    def gen_seq(shape, d):
        elems, block_in_value = shape
        out = []
        for _ in range(rng.choice([0, 1, 2, 3, 5])):
            out.append(gen_el(shape, rng.choice(elems), d))
        return out

    def gen_value(shape, d):
        r = rng.random()
        if r < 0.3 or d > 3:
            return ["W", rng.choice(WORDS)]
        if r < 0.45:
            return ["N", str(rng.randrange(50))]
        if r < 0.65:
            return ["L", [gen_value(shape, d + 1) for _ in range(rng.choice([0, 1, 2, 3]))]]
        if r < 0.85 or not shape[1]:
            return ["M", [[rng.choice(["k", "kk", "z"]), gen_value(shape, d + 1)] for _ in range(rng.choice([0, 1, 2]))]]
        return ["B", gen_seq(shape, d + 1)]

    def gen_el(shape, sym, d):
        if sym in (";", "#"):
            return ["T", sym]
        if sym == "BLOCK":
            return ["B", gen_seq(shape, d + 1)] if d < 3 else ["T2"]
        if sym == "ITEM2":
            return ["I2", rng.choice(WORDS), str(rng.randrange(9))]
        return gen_value(shape, d)

    def render(shape, v):
        k = v[0]
        if k in ("W", "N", "T"):
            return v[1]
        if k == "T2":
            return "(" + ws(rng) + ")"
        if k == "I2":
            return v[1] + ws(rng) + "=" + ws(rng) + v[2]
        if k == "L":
            return "[" + ws(rng) + ("," + ws(rng)).join(render(shape, x) + ws(rng) for x in v[1]) + "]"
        if k == "M":
            return "{" + ws(rng) + ("," + ws(rng)).join(
                a + ws(rng) + ":" + ws(rng) + render(shape, x) + ws(rng) for a, x in v[1]) + "}"
        return "(" + ws(rng) + sep(rng).join(render(shape, x) for x in v[1]) + ws(rng) + ")"

    def expv(v):
        k = v[0]
        if k in ("W", "N", "T"):
            return v[1]
        if k == "T2":
            return {"te": "BLOCK", "ch": ["(", {"seq": []}, ")"]}
        if k == "I2":
            return {"te": "ITEM2", "ch": [v[1], "=", v[2]]}
        if k == "L":
            return [expv(x) for x in v[1]]
        if k == "M":
            out = []
            for a, x in v[1]:
                e = expv(x)
                for ent in out:
                    if ent[0] == a:
                        ent[1] = e
                        break
                else:
                    out.append([a, e])
            return {"map": out}
        return {"te": "BLOCK", "ch": ["(", {"seq": [expel(x) for x in v[1]]}, ")"]}

    def expel(v):
        name = {"W": "WORD", "N": "NUMBER", "T": v[1] if v[0] == "T" else None, "T2": "BLOCK", "I2": "ITEM2", "L": "LIST",
                "M": "MAP", "B": "BLOCK"}[v[0]]
        return {"el": name, "v": expv(v)}

    for shape in shapes:
        for _ in range(8 if quick else 80):
            elems, biv = shape
            value_alts = [["WORD"], ["NUMBER"], ["LIST"], ["MAP"]] + ([["BLOCK"]] if biv else [])
            prods = [["E", "plain", [["SEQ"]]], ["SEQ", "seq", list(elems)], ["VALUE", "plain", value_alts],
                     ["ITEM", "plain", [["VALUE"]]], ["WRAP", "plain", [["ITEM"]]], ["ITEM2", "plain", [["WORD", "=", "NUMBER"]]],
                     ["LIST", "list", ["[", "VALUE", ",", "]", None, None]],
                     ["MAP", "map", ["{", "WORD", ":", "VALUE", ",", "}", None, None]],
                     ["BLOCK", "plain", [["(", "SEQ", ")"]]]]
            used = set(elems) | {"VALUE", "LIST", "MAP", "SEQ", "E"} | ({"BLOCK"} if biv or "BLOCK" in elems else set())
            if "WRAP" in elems:
                used |= {"ITEM"}
            prods = [p_ for p_ in prods if p_[0] in used]
            spec = {"prods": prods, "keep": None, "smart": rng.random() < 0.5, "start": "E"}
            items = []
            for _ in range(8):
                seq = gen_seq(shape, 0)
                # ';' / '#' elements directly followed by a word are fine; two words need a blank
                items.append({"text": ws(rng) + sep(rng).join(render(shape, x) for x in seq) + ws(rng),
                              "exp": ["ok", {"seq": [expel(x) for x in seq]}], "size": [len(seq), 2],
                              "tags": ["f8-seq-of-" + "+".join(elems)]})
            c = make_case(spec, items, {"kind": "f8", "elems": elems})
            if c is not None:
                yield c


# ---- family 9: a non-terminal-first alternative mixed with several alternatives sharing a first token, in every order
def f9_cases(rng, tier):
    quick = tier == "quick"

    def gen_arg(d):
        r = rng.random()
        if r < 0.3 or d > 3:
            return ["W", rng.choice(WORDS)]
        if r < 0.45:
            return ["Q", rng.choice(WORDS)]
        if r < 0.55:
            return ["N", str(rng.randrange(50))]
        if r < 0.8:
            return ["P", rng.choice(WORDS), gen_arg(d + 1)]
        return ["L", [gen_arg(d + 1) for _ in range(rng.choice([0, 1, 2, 3]))]]

    def render(v):
        if v[0] in ("W", "N"):
            return v[1]
        if v[0] == "Q":
            return v[1] + ws(rng) + "@"
        if v[0] == "P":
            return v[1] + ws(rng) + "=" + ws(rng) + render(v[2])
        return "(" + ws(rng) + ("," + ws(rng)).join(render(x) + ws(rng) for x in v[1]) + ")"

    def expv(v):
        if v[0] in ("W", "N"):
            return v[1]
        if v[0] == "Q":
            return {"te": "ARG", "ch": [v[1], "@"]}
        if v[0] == "P":
            return {"te": "PAIR", "ch": [v[1], "=", expv(v[2])]}
        return [expv(x) for x in v[1]]

    for _ in range(30 if quick else 300):
        # ordered choice: an alternative that is a prefix of another one must come later (a completed symbol is never
        # re-parsed); NUMBER and LIST may stand anywhere
        alts = [["PAIR"], ["WORD", "@"], ["WORD"]]
        for extra in (["NUMBER"], ["LIST"]):
            alts.insert(rng.randrange(0, len(alts) + 1), extra)
        kind = rng.choice(["list", "map", "seq"])
        prods = [["E", "plain", [["TOP", ";"]]]]
        if kind == "list":
            prods.append(["TOP", "plain", [["WORD", "LIST"]]])
        elif kind == "map":
            prods.append(["TOP", "map", ["{", "WORD", ":", "ARG", ",", "}", None, None]])
        else:
            prods.append(["TOP", "seq", ["ARG", "#"]])
        prods += [["LIST", "list", ["(", "ARG", ",", ")", None, None]], ["ARG", "plain", alts],
                  ["PAIR", "plain", [["WORD", "=", "ARG"]]]]
        spec = {"prods": prods, "keep": None, "smart": rng.random() < 0.6, "start": "E"}
        items = []
        for _ in range(8):
            if kind == "list":
                f, node = rng.choice(WORDS), ["L", [gen_arg(0) for _ in range(rng.choice([0, 1, 2, 3]))]]
                text = f + ws(rng) + render(node)
                top = {"te": "TOP", "ch": [f, expv(node)]}
            elif kind == "map":
                pairs = [[rng.choice(["k", "kk", "z"]), gen_arg(0)] for _ in range(rng.choice([0, 1, 2, 3]))]
                text = "{" + ws(rng) + ("," + ws(rng)).join(k + ws(rng) + ":" + ws(rng) + render(v) + ws(rng) for k, v in pairs) + "}"
                out = []
                for k, v in pairs:
                    e = expv(v)
                    for ent in out:
                        if ent[0] == k:
                            ent[1] = e
                            break
                    else:
                        out.append([k, e])
                top = {"map": out}
            else:
                els = [gen_arg(0) for _ in range(rng.choice([0, 1, 2, 3]))]
                text = (ws(rng) + "#" + ws(rng)).join(render(x) for x in els)
                seq = []
                for i, x in enumerate(els):
                    if i:
                        seq.append({"el": "#", "v": "#"})
                    # ARG has a two-symbol alternative, so it is not squashable: every element is an ARG node
                    seq.append({"el": "ARG", "v": expv(x)})
                top = {"seq": seq}
            items.append({"text": ws(rng) + text + ws(rng) + ";", "exp": ["ok", {"te": "E", "ch": [top, ";"]}],
                          "size": [2, 2], "tags": ["f9-mixed-alternatives-" + kind]})
        c = make_case(spec, items, {"kind": "f9", "alts": alts, "in": kind})
        if c is not None:
            yield c


# ---- family 10: grammars AROUND the containers -- statement languages
#   * a production that STARTS with one or two nullable containers (optional list / map, bracket-less list / map, sequence),
#     absent or present in the text, followed by a non-terminal whose first tokens come through a chain of further
#     non-terminals (defined anywhere in the dict: `reorder`), the production being itself the first symbol of other productions
#     (directly or through one-symbol wrappers);
#   * two or three alternatives that all begin with the SAME container symbol (VALUE / LIST / MAP / optional list / optional
#     map) and differ only in what follows it; wrapped alternatives (`STMT -> ASSIGN`, `ASSIGN -> HEAD '=' VALUE ';'`) cannot be
#     merged by factorisation, so the container is read, the alternative fails after it, and the next alternative reads the
#     same container again at the same position; inline alternatives are merged (both kinds mixed, every order);
#   * statements in a sequence, in a bracket-less list, alone, and nested in blocks inside container items.
# Every statement kind has its own token right after the shared head, containers are balanced, so the text has one reading
# whatever the order of the alternatives.
F10_PRES = [["opt-list"], ["opt-map"], ["opt-list", "opt-map"], ["opt-map", "opt-list"], ["nobr-list"], ["nobr-list-nodelim"],
            ["nobr-map"], ["seq"]]
F10_VKINDS = {"assign": ("ASSIGN", "="), "expr": ("EXPR", None), "tagged": ("TAGGED", ":")}


def f10_grammar(rng):
    head = rng.choice(["VALUE", "VALUE", "LIST", "MAP", "OLIST", "OMAP"])
    vkinds = rng.sample(sorted(F10_VKINDS), rng.choice([1, 2, 2, 3, 3]))
    g = {"head": head, "vkinds": vkinds, "wrapped": {k: rng.random() < 0.6 for k in vkinds},
         "decl": rng.random() < 0.75, "block": rng.random() < 0.3,
         "emode": rng.choice(["single", "seq-start", "seq", "nobr-list"])}
    alts = []
    prods = []
    for k in vkinds:
        sym, tok = F10_VKINDS[k]
        body = [head] + ({"assign": ["=", "VALUE", ";"], "expr": [";"], "tagged": [":", "WORD", ";"]}[k])
        if g["wrapped"][k]:
            alts.append((k, [sym]))
            prods.append([sym, "plain", [body]])
        else:
            alts.append((k, body))
    if g["decl"]:
        g["pre"] = rng.choice(F10_PRES)
        g["chain"] = rng.choice([0, 1, 1, 2, 3])
        g["leaf"] = rng.choice([["@", "WORD"], ["#", "WORD"], ["@"]])
        g["body"] = rng.choice(["body", "body", "name"])
        g["wrap"] = rng.choice([0, 0, 1, 2])
        names = ["DW%d" % i for i in range(1, g["wrap"] + 1)] + ["DECL"]          # DW1 -> DW2 -> DECL
        wr = [[a, "plain", [[b]]] for a, b in zip(names, names[1:])]
        alts.append(("decl", [names[0]]))
        pres = ["PRE%d" % (i + 1) for i in range(len(g["pre"]))]
        prods += wr
        prods.append(["DECL", "plain", [pres + (["BODY"] if g["body"] == "body" else ["NAME"]) + [";"]]])
        for sym, kind in zip(pres, g["pre"]):
            prods.append([sym] + list(F7_KINDS[kind][1:]))
        if "seq" in g["pre"]:
            prods.append(["LST", "list", ["[", "WORD", ",", "]", None, None]])
        if g["body"] == "body":
            prods.append(["BODY", "plain", [["NAME", "ARGS"]]])
            prods.append(["ARGS", "list", ["<", "WORD", ",", ">", None, True]])
        chain = ["NAME"] + ["NM%d" % i for i in range(1, g["chain"] + 1)]
        for a, b in zip(chain, chain[1:]):
            prods.append([a, "plain", [[b]]])
        prods.append([chain[-1], "plain", [list(g["leaf"])]])
    rng.shuffle(alts)
    g["alts"] = alts
    value_alts = [["WORD"], ["LIST"], ["MAP"]] + ([["BLOCK"]] if g["block"] else [])
    top = {"single": [["E", "plain", [["STMT"]]]],
           "seq-start": [["E", "seq", ["STMT"]]],
           "seq": [["E", "plain", [["SEQ"]]], ["SEQ", "seq", ["STMT"]]],
           "nobr-list": [["E", "plain", [["SL"]]], ["SL", "list", [None, "STMT", None, None, None, None]]]}[g["emode"]]
    prods = top + [["STMT", "plain", [a for _, a in alts]]] + prods + [
        ["VALUE", "plain", value_alts],
        ["LIST", "list", ["[", "VALUE", ",", "]", None, None]],
        ["MAP", "map", ["{", "WORD", ":", "VALUE", ",", "}", None, None]]]
    if head == "OLIST":
        prods.append(["OLIST", "list", ["[", "VALUE", ",", "]", None, True]])
    if head == "OMAP":
        prods.append(["OMAP", "map", ["{", "WORD", ":", "VALUE", ",", "}", True, None]])
    if g["block"]:
        prods += [["BLOCK", "plain", [["(", "BSEQ", ")"]]], ["BSEQ", "seq", ["STMT"]]]
    g["spec"] = {"prods": prods, "keep": None, "smart": rng.random() < 0.6, "start": "E"}
    return g


def f10_elem_name(g, kind):
    """name of a statement as an element of a sequence: STMT vanishes iff it is a choice symbol (>= 2 alternatives, one symbol
    each)"""
    if len(g["alts"]) == 1 or any(len(a) != 1 for _, a in g["alts"]):
        return "STMT"                  # not a choice symbol (a single one-symbol alternative makes it a wrapper)
    # a one-symbol wrapper takes over the content of its child and keeps its own name: DW1[DW2[DECL[..]]] is DW1[..]
    return ("DW1" if g["wrap"] else "DECL") if kind == "decl" else F10_VKINDS[kind][0]


def _f10_dict(pairs):
    out = []
    for k, e in pairs:
        for ent in out:
            if ent[0] == k:
                ent[1] = e
                break
        else:
            out.append([k, e])
    return {"map": out}


def f10_gen_value(rng, g, d, kind=None):
    """generator data: ["W", w] | ["L", items, fin] | ["M", pairs, fin] | ["B", stmts]"""
    r = rng.random()
    if kind is None:
        if d > 3 or r < 0.3:
            kind = "W"
        elif r < 0.62:
            kind = "L"
        elif r < 0.9 or not g["block"] or d > 2:
            kind = "M"
        else:
            kind = "B"
    if kind == "W":
        return ["W", rng.choice(WORDS)]
    if kind == "L":
        n = rng.choice([0, 1, 1, 2, 3])
        return ["L", [f10_gen_value(rng, g, d + 1) for _ in range(n)], n > 0 and rng.random() < 0.25]
    if kind == "M":
        n = rng.choice([0, 1, 1, 2, 3])
        return ["M", [[rng.choice(["k", "kk", "z"]), f10_gen_value(rng, g, d + 1)] for _ in range(n)],
                n > 0 and rng.random() < 0.25]
    return ["B", [f10_gen_stmt(rng, g, d + 1) for _ in range(rng.choice([0, 1, 2]))]]


def f10_gen_stmt(rng, g, d):
    kind = rng.choice([k for k, _ in g["alts"]])
    if kind == "decl":
        pres = []
        for pk in g["pre"]:
            pres.append(f7_container(rng, pk, rng.random() < 0.5))
        w = rng.choice(WORDS)
        args = None
        if g["body"] == "body" and rng.random() < 0.6:
            args = [rng.choice(WORDS) for _ in range(rng.choice([0, 1, 2]))]
        return ["decl", pres, w, args]
    head = g["head"]
    if head in ("OLIST", "OMAP") and rng.random() < 0.3:
        hv = None
    else:
        hv = f10_gen_value(rng, g, d, {"VALUE": None if rng.random() < 0.3 else rng.choice(["L", "M"]),
                                        "LIST": "L", "OLIST": "L", "MAP": "M", "OMAP": "M"}[head])
    if kind == "assign":
        return ["assign", hv, f10_gen_value(rng, g, d)]
    if kind == "tagged":
        return ["tagged", hv, rng.choice(WORDS)]
    return ["expr", hv]


def f10_render_value(rng, g, v):
    if v[0] == "W":
        return v[1]
    if v[0] == "L":
        s = "[" + ws(rng) + ("," + ws(rng)).join(f10_render_value(rng, g, x) + ws(rng) for x in v[1])
        return s + ("," + ws(rng) if v[2] else "") + "]"
    if v[0] == "M":
        s = "{" + ws(rng) + ("," + ws(rng)).join(k + ws(rng) + ":" + ws(rng) + f10_render_value(rng, g, x) + ws(rng)
                                                 for k, x in v[1])
        return s + ("," + ws(rng) if v[2] else "") + "}"
    return "(" + ws(rng) + "".join(f10_render_stmt(rng, g, x) + ws(rng) for x in v[1]) + ")"


def f10_render_stmt(rng, g, st):
    if st[0] == "decl":
        s = ""
        for text, _ in st[1]:
            s += text + ws(rng)
        s += g["leaf"][0] + ws(rng) + (st[2] + ws(rng) if len(g["leaf"]) == 2 else "")
        if st[3] is not None:
            s += "<" + ws(rng) + ("," + ws(rng)).join(st[3]) + ws(rng) + ">" + ws(rng)
        return s + ";"
    s = ("" if st[1] is None else f10_render_value(rng, g, st[1])) + ws(rng)
    if st[0] == "assign":
        s += "=" + ws(rng) + f10_render_value(rng, g, st[2]) + ws(rng)
    elif st[0] == "tagged":
        s += ":" + ws(rng) + st[2] + ws(rng)
    return s + ";"


def f10_exp_value(g, v):
    if v is None:
        return None
    if v[0] == "W":
        return v[1]
    if v[0] == "L":
        return [f10_exp_value(g, x) for x in v[1]]
    if v[0] == "M":
        return _f10_dict([(k, f10_exp_value(g, x)) for k, x in v[1]])
    return {"te": "BLOCK", "ch": ["(", {"seq": [{"el": f10_elem_name(g, x[0]), "v": f10_exp_stmt(g, x)} for x in v[1]]}, ")"]}


def f10_exp_stmt(g, st):
    if st[0] == "decl":
        name = {"te": "NAME", "ch": [g["leaf"][0], st[2]]} if len(g["leaf"]) == 2 else g["leaf"][0]
        body = {"te": "BODY", "ch": [name, st[3]]} if g["body"] == "body" else name
        return {"te": "DECL", "ch": [e for _, e in st[1]] + [body, ";"]}
    h = f10_exp_value(g, st[1])
    if st[0] == "assign":
        return {"te": "ASSIGN", "ch": [h, "=", f10_exp_value(g, st[2]), ";"]}
    if st[0] == "tagged":
        return {"te": "TAGGED", "ch": [h, ":", st[2], ";"]}
    return {"te": "EXPR", "ch": [h, ";"]}


def _f10_nonempty(v):
    """does the value hold a non-empty list / map (a roll-back point of the parse loop)"""
    if v is None or v[0] == "W":
        return False
    if v[0] in ("L", "M"):
        return bool(v[1])
    return bool(v[1])


def f10_stmt_tags(g, st):
    order = [k for k, _ in g["alts"]]
    out = ["f10-stmt-" + st[0]]
    if st[0] == "decl":
        absent = [e is None or e == [] or e == {"map": []} or e == {"seq": []} for _, e in st[1]]
        out.append("f10-leading-container-" + ("absent" if all(absent) else "present" if not any(absent) else "mixed"))
    else:
        earlier = [k for k in order[:order.index(st[0])] if k != "decl"]
        if earlier:
            merged = not g["wrapped"][st[0]] and all(not g["wrapped"][k] for k in earlier)
            out.append("f10-head-read-again" + ("" if _f10_nonempty(st[1]) else "-empty-or-word")
                       if not merged else "f10-head-shared-by-factorisation")
        if st[1] is None:
            out.append("f10-head-absent")
    return out


def f10_cases(rng, tier):
    quick = tier == "quick"
    for _ in range(60 if quick else 700):
        g = f10_grammar(rng)
        items = []
        for _ in range(8):
            n = 1 if g["emode"] == "single" else rng.choice([0, 1, 2, 3, 4])
            stmts = [f10_gen_stmt(rng, g, 0) for _ in range(n)]
            text = ws(rng) + "".join(f10_render_stmt(rng, g, st) + ws(rng) for st in stmts)
            exps = [f10_exp_stmt(g, st) for st in stmts]
            if g["emode"] == "single":
                exp = exps[0]
            elif g["emode"] == "nobr-list":
                exp = exps
            else:
                exp = {"seq": [{"el": f10_elem_name(g, st[0]), "v": e} for st, e in zip(stmts, exps)]}
            tg = ["f10", "f10-stmts-in-" + g["emode"]]
            for st in stmts:
                tg += f10_stmt_tags(g, st)
            if g["decl"]:
                tg.append("f10-pre:" + "+".join(g["pre"]) + ",chain=%d,wrap=%d" % (g["chain"], g["wrap"]))
            items.append({"text": text, "exp": ["ok", exp], "tags": sorted(set(tg)), "size": [max(2, n), 2]})
        c = make_case(g["spec"], items, {"kind": "f10", "head": g["head"], "alts": [k for k, _ in g["alts"]],
                                         "wrapped": g["wrapped"]})
        if c is not None:
            yield c


# ---- family 11: lengths and depths -- containers of ~1000 and 5000 entries, nesting 20-60 levels deep
# (the raw tree of a list / map is a tail chain as deep as the container is long: 2cdb1cb made the walk over it a loop)
F11_NS = [990, 993, 994, 995, 1000, 1024, 1100]
F11_VARIANTS = ["json", "nodelim", "nullable-items", "nobr-list-top", "nobr-map-top", "afd-off"]
# deeper nesting is outside what is generated: the clean-up (StdCleanuper._cleanup -> transform_t_elem -> _cleanup ...) and
# the reference reader of the oracle recurse once per level, CPython's recursion limit ends both near 200 levels
F11_DEPTHS = [20, 40, 60]


def f11_spec(variant, smart):
    item = "LITEM" if variant == "nullable-items" else "VALUE"
    afd = False if variant == "afd-off" else None
    prods = [["E", "plain", [["TOP"]] if variant.endswith("-top") else [["VALUE"]]]]
    if variant == "nobr-list-top":
        prods.append(["TOP", "list", [None, "VALUE", ",", None, None, None]])
    if variant == "nobr-map-top":
        prods.append(["TOP", "map", [None, "WORD", ":", "VALUE", ",", None, None, False]])
    prods += [["VALUE", "plain", [["WORD"], ["LIST"], ["MAP"], ["BLOCK"]]],
              ["LIST", "list", ["[", item, None if variant == "nodelim" else ",", "]", afd, None]],
              ["MAP", "map", ["{", "WORD", ":", "VALUE", ",", "}", None, afd]],
              ["BLOCK", "plain", [["(", "SEQ", ")"]]], ["SEQ", "seq", ["WORD", "LIST"]]]
    if variant == "nullable-items":
        prods.append(["LITEM", "plain", [["VALUE"], None]])
    return {"prods": prods, "keep": None, "smart": smart, "start": "E"}


def _f11_gap(rng):
    return ws(rng) if rng.random() < 0.05 else rng.choice(["", "", " "])


def f11_small(rng, variant, p=0.2):
    """a short value: (text, expectation); p: share of containers (every non-empty container inside a long one makes
    the real parser copy its whole stack -- `longest_stack` --, so the long containers hold about twenty of them)"""
    r = rng.random()
    if r >= p:
        w = rng.choice(WORDS)
        return w, w
    if r < p / 2:
        ws_ = [rng.choice(WORDS) for _ in range(rng.choice([0, 1, 2]))]
        return "[" + (" " if variant == "nodelim" else ",").join(ws_) + "]", list(ws_)
    k, w = rng.choice(["k", "kk", "z"]), rng.choice(WORDS)
    return "{" + k + ":" + w + "}", {"map": [[k, w]]}


def f11_long(rng, variant, kind, n, brackets=True):
    """a container of n entries: (text, expectation); kind: list | map | map-few-keys | seq"""
    afd_ok = variant != "afd-off"
    if kind == "list":
        parts, vals = [], []
        for _ in range(n):
            if variant == "nullable-items" and rng.random() < 0.1 and parts:
                parts.append("")
                vals.append(None)
            else:
                t, e = f11_small(rng, variant, 20.0 / max(n, 20))
                parts.append(t)
                vals.append(e)
        if variant == "nodelim":
            body = ""
            for i, p in enumerate(parts):
                body += (" " if i and not (body.endswith("]") or body.endswith("}")) else _f11_gap(rng) if i else "") + p
            fin = False
        else:
            body = "".join((("," + _f11_gap(rng)) if i else "") + p + _f11_gap(rng) for i, p in enumerate(parts))
            fin = brackets and afd_ok and n > 0 and rng.random() < 0.3
            if fin:
                body += "," + _f11_gap(rng)
            if variant == "nullable-items" and vals and vals[-1] is None and not fin:
                vals = vals[:-1]              # "[a, ]": the text of a final delimiter
        return ("[" + body + "]" if brackets else body), vals
    if kind in ("map", "map-few-keys"):
        d, parts = {}, []
        for i in range(n):
            k = "k%d" % (i if kind == "map" else rng.randrange(7))
            t, e = f11_small(rng, variant, 20.0 / max(n, 20))
            parts.append(k + _f11_gap(rng) + ":" + _f11_gap(rng) + t + _f11_gap(rng))
            d[k] = e                          # the reference: first position of a key, its last value
        body = ("," + _f11_gap(rng)).join(parts)
        if brackets and afd_ok and n > 0 and rng.random() < 0.3:
            body += "," + _f11_gap(rng)
        return ("{" + body + "}" if brackets else body), {"map": [[k, e] for k, e in d.items()]}
    els, parts = [], []
    for _ in range(n):
        if rng.random() >= 20.0 / max(n, 20):
            w = rng.choice(WORDS)
            els.append({"el": "WORD", "v": w})
            parts.append(w)
        else:
            ws_ = [rng.choice(WORDS) for _ in range(rng.choice([0, 1, 2]))]
            els.append({"el": "LIST", "v": list(ws_)})
            parts.append("[" + (" " if variant == "nodelim" else ",").join(ws_) + "]")
    return "(" + " ".join(parts) + ")", {"te": "BLOCK", "ch": ["(", {"seq": els}, ")"]}


def f11_outer(rng, variant, inner, where):
    """the long container `inner` as the first / last entry of a short outer list or map"""
    t, e = inner
    sibs = [f11_small(rng, variant) for _ in range(rng.choice([1, 2, 3]))]
    if rng.random() < 0.5:
        seq = ([(t, e)] + sibs) if where == "first" else (sibs + [(t, e)])
        sepr = " " if variant == "nodelim" else ", "
        return "[" + sepr.join(x for x, _ in seq) + "]", [x for _, x in seq]
    keys = ["k", "kk", "z", "k1"]
    seq = ([(t, e)] + sibs) if where == "first" else (sibs + [(t, e)])
    return ("{" + ", ".join("%s: %s" % (keys[i], x) for i, (x, _) in enumerate(seq)) + "}",
            {"map": [[keys[i], x] for i, (_, x) in enumerate(seq)]})


def f11_deep(rng, variant, d):
    """nesting d levels deep through lists, maps and blocks, one to three entries per level"""
    if d == 0:
        return f11_small(rng, variant)
    t, e = f11_deep(rng, variant, d - 1)
    r = rng.random()
    sepr = " " if variant == "nodelim" else ","
    if r < 0.45:
        a, b = f11_small(rng, variant), f11_small(rng, variant)
        k = rng.randrange(3)
        seq = [[(t, e)], [a, (t, e)], [a, (t, e), b]][k]
        return "[" + _f11_gap(rng) + sepr.join(x for x, _ in seq) + _f11_gap(rng) + "]", [x for _, x in seq]
    if r < 0.9:
        a = f11_small(rng, variant)
        if rng.random() < 0.5:
            return "{k:" + a[0] + ",z:" + _f11_gap(rng) + t + "}", {"map": [["k", a[1]], ["z", e]]}
        return "{z" + _f11_gap(rng) + ":" + t + "}", {"map": [["z", e]]}
    return "(a [" + t + "])", {"te": "BLOCK", "ch": ["(", {"seq": [{"el": "WORD", "v": "a"}, {"el": "LIST", "v": [e]}]}, ")"]}


def f11_item(rng, variant, shape, n, d=1, cl_only=False):
    top = variant.endswith("-top")
    if shape == "deep":
        t, e = f11_deep(rng, variant, d)
        size = [3, d + 1]
    else:
        kind = {"list": "list", "map": "map", "map-few-keys": "map-few-keys", "seq": "seq"}[shape.split("@")[0]]
        inner = f11_long(rng, variant, kind, n)
        where = shape.split("@")[1] if "@" in shape else None
        t, e = f11_outer(rng, variant, inner, where) if where else inner
        size = [n, 2 if where else 1]
    if variant == "nobr-list-top":
        if shape == "list":
            t, e = f11_long(rng, variant, "list", n, brackets=False)
        else:
            t, e = t, [e]
    elif variant == "nobr-map-top":
        if shape in ("map", "map-few-keys"):
            t, e = f11_long(rng, variant, shape, n, brackets=False)
        else:
            t, e = "k: " + t, {"map": [["k", e]]}
    tg = ["f11", "f11-" + variant, "f11-" + (shape if shape != "deep" else "deep=%d" % d)]
    if shape != "deep":
        tg.append("f11-n=%s" % ("5000" if n >= 5000 else "990..1100" if n >= 990 else "<990"))
    it = {"text": _f11_gap(rng) + t + _f11_gap(rng), "exp": ["ok", e], "tags": tg, "size": size}
    if cl_only:
        it["cl_only"] = True
        it["tags"].append("f11-clean-up-line-only")
    return it


def f11_cases(rng, tier):
    quick = tier == "quick"
    shapes = ["list", "map", "map-few-keys", "seq", "list@last", "map@last", "seq@last", "list@first", "map@first"]

    def case(variant, items, what):
        return make_case(f11_spec(variant, rng.random() < 0.5), items, {"kind": "f11", "variant": variant, "what": what})

    plan = []
    if quick:
        plan.append(("json", [("list", 0), ("map", 0), ("seq", 0), (rng.choice(["list@last", "map@last"]), 0)]))
        v = rng.choice(F11_VARIANTS[1:])
        plan.append((v, [(rng.choice(["list", "list@last"]), 0), (rng.choice(["map", "map-few-keys", "map@last"]), 0)]))
        plan.append(("json", [("list", 5000), ("map-few-keys", -5000)]))          # negative: clean-up line only
    else:
        for v in F11_VARIANTS:
            for _ in range(3):
                plan.append((v, [(sh, 0) for sh in rng.sample(shapes, 5)]))
            plan.append((v, [("list", 5000), ("list@last", 5000), ("seq", 5000), ("map-few-keys", 5000), ("map", -5000)]))
        plan.append(("json", [("map", 5000)]))
    for variant, todo in plan:
        items = []
        for sh, n in todo:
            items.append(f11_item(rng, variant, sh, abs(n) if n else rng.choice(F11_NS), cl_only=n < 0))
        c = case(variant, items, "long")
        if c is not None:
            yield c
    for variant in (["json", rng.choice(F11_VARIANTS[1:])] if quick else F11_VARIANTS * 3):
        items = [f11_item(rng, variant, "deep", 0, d) for d in F11_DEPTHS for _ in range(1 if quick else 3)]
        c = case(variant, items, "deep")
        if c is not None:
            yield c


# ------------------------------------------------------------------ building cases
def build_lines(case):
    lines = [case["g"], case["G"]]
    for it in case["items"]:
        if it.get("tp") is None and not it.get("cl"):
            continue           # a call that fails in the tokenizer: made by the adapter / oracle, no model line
        if it.get("tp") is not None:
            if it.get("mode", "str") == "str" and "/*" not in it["text"]:
                lines.append(ln_line(it["text"]))
            lines.append(it["tp"])
            lines.append("tc")
        if it.get("cl"):
            lines.append(it["cl"])
            lines.append("cf")
    return lines


def lexemes(it):
    """what the tokenizer's regular expression finds, line by line (group name, text) -- before synonyms / skipping.
    A str is cut at '\\n' only and every line is rstripped; an iterable of lines is taken as it is."""
    import re
    m = re.compile(TK, re.VERBOSE)
    spans = {k: re.compile(v, re.VERBOSE) for k, v in SPANS.items()}
    inp = parse_input(it)
    lines = [l.rstrip() for l in inp.split("\n")] if isinstance(inp, str) else inp
    out = []
    span, parts = None, None
    for line in lines:
        col = 0
        while col < len(line):
            if span is not None:
                mm = spans[span].match(line, col)
                if mm is None:
                    parts.append(line[col:])
                    col = len(line)
                else:
                    parts.append(mm.group(mm.lastgroup))
                    out.append((span, "\n".join(parts)))
                    span, col = None, mm.end()
                continue
            mm = m.match(line, col)
            if mm is None:
                raise ValueError("lexical error")
            if mm.lastgroup in spans:
                span, parts = mm.lastgroup, []
            else:
                out.append((mm.lastgroup, mm.group()))
            col = mm.end()
    if span is not None:
        raise ValueError("span is never closed")
    return out


def G_line(spec):
    """the whole constructor call for the model: token groups, synonyms, the user's dictionary with its templates"""
    import re
    groups = list(re.compile(TK, re.VERBOSE).groupindex.keys())
    syn = [x for kv in SYN.items() for x in kv]
    ents = []
    for sym, kind, data in spec["prods"]:
        if kind == "plain":
            parts = ["N" if p is None else ("X " + _names(p["x"]) if isinstance(p, dict) else _names(p)) for p in data]
            ents.append(("P %s %s" % (enc_str(sym), " ".join(parts))).rstrip())
        elif kind == "list":
            ents.append("L " + list_args_line(data, sym))
        elif kind == "map":
            ents.append("M " + map_args_line(data, sym))
        elif kind == "seq":
            ents.append(("S %s %s" % (enc_str(sym), sym_args_text(data))).rstrip())
    return "G %s %s keep %s groups %s syn %s T %s E %s" % (
        "1" if spec.get("smart", True) else "0", enc_str(spec.get("start", "E")), _names(sorted(spec["keep"] or [])),
        _names(groups), _names(syn), _names(all_terminals()), " ; ".join(ents))


def ln_line(text):
    return "ln " + enc_str(text)


def real_lines(parser, text):
    """the lines as the real tokenizer sees them: the lexemes of each line (they tile the line) joined, empty lines dropped"""
    by_line = {}
    for t in parser.tokenizer.tokenize(text, "t"):
        if t.value is not None:
            by_line[t.start_pos.line] = by_line.get(t.start_pos.line, "") + t.value
    return ("ok " + " ".join("%d:%s" % (n, enc_str(v)) for n, v in sorted(by_line.items()))).rstrip()


def tp_line(it):
    lx = lexemes(it)
    return ("tp " + " ".join(_enc(g) + " " + (_enc(v) if len(v) < 24 else enc_str(v)) for g, v in lx)).rstrip()


def reorder(spec, meta):
    """the same grammar with the keys of the `productions` dict in another order (as written / bottom-up / shuffled)"""
    import random
    import zlib
    h = zlib.crc32(json.dumps(spec, sort_keys=True).encode())
    how = ["as-written", "bottom-up", "shuffled"][h % 3]
    prods = list(spec["prods"])
    if how == "bottom-up":
        prods.reverse()
    elif how == "shuffled":
        random.Random(h).shuffle(prods)
    meta["key_order"] = how
    return dict(spec, prods=prods)


BAD_CALLS = [("[a, /* never closed\n b] 7", "lexerr"), ("/*", "lexerr"), ("a $ b", "lexerr"), ("{ k : ? }", "lexerr"),
             ("] [ , :", "err"), ("", "any")]


def add_failing_calls(items, spec):
    """call sequences on one parser object: calls that fail (unclosed comment, foreign character, parse error) before
    valid texts -- the result of a call depends on its text only"""
    import zlib
    h = zlib.crc32(json.dumps([it["text"] for it in items]).encode())
    if h % 3 != 0 or not items:
        return items
    out = list(items)
    for k in range(1 + h % 2):
        text, exp = BAD_CALLS[(h // 7 + k) % len(BAD_CALLS)]
        pos = (h // 11 + 3 * k) % (len(out) + 1)
        out.insert(pos, {"text": text, "exp": [exp], "tags": ["failing-call:" + exp], "size": [0, 0], "mode": "str"})
    return out


def make_case(spec, items, meta):
    """adds the protocol lines: needs the raw trees, i.e. runs the real parser without clean-up"""
    ll = _ll()
    meta = dict(meta)
    spec = reorder(spec, meta)
    items = add_failing_calls(items, spec)
    try:
        p = parser_of(spec)
    except (ll.GrammarError, AssertionError) as e:
        if meta.get("expect_rejected"):
            # nullable item without delimiter: documented GrammarError; the model's constructor must say the same
            return {"lines": [G_line(spec)], "spec": spec, "items": [], "g": "g rejected", "G": G_line(spec),
                    "meta": dict(meta, grammar_rejected_as_documented=type(e).__name__)}
        return {"lines": ["g rejected " + type(e).__name__, G_line(spec)], "spec": spec, "items": items, "g": "g rejected",
                "G": G_line(spec), "meta": dict(meta, grammar_rejected=type(e).__name__)}
    g = g_line(spec)
    for it in items:
        it.setdefault("mode", input_mode(it["text"]))
        if any(c in it["text"] for c in ODD_BLANKS if c != "\r\n"):
            it["tags"] = it.get("tags", []) + ["odd-blank-character"]
        it["tags"] = it.get("tags", []) + ["input:" + it["mode"]]
        try:
            # cl_only: a very long text whose model parse is left to the thorough tier (the model cleans the real raw tree)
            it["tp"] = None if it.get("cl_only") else tp_line(it)
        except ValueError:
            it["tp"] = None        # the tokenizer itself rejects the text (LexicalError): nothing to ask the model
        try:
            raw = p.parse(parse_input(it), do_cleanup=False)
            it["cl"] = "cl " + show_val(raw)
        except Exception:
            it["cl"] = None
    case = {"spec": spec, "items": items, "g": g, "G": G_line(spec), "meta": meta}
    case["lines"] = build_lines(case)
    return case


def tpl_cases(rng, tier):
    """generated productions / signature tables of every constructor argument combination"""
    lines = []
    names = ["[", "]", ",", "ITEM", "WORD", "L", "X_1"]
    for o, c in ((None, None), ("[", "]"), ("[", None), (None, "]"), ("(", ")")):
        for d in (None, ",", ";"):
            for afd in (None, True, False):
                for opt in (None, True, False):
                    for item in ("ITEM", "L"):
                        lines.append("lp " + list_args_line([o, item, d, c, afd, opt], "L"))
    for o, c in ((None, None), ("{", "}"), ("{", None)):
        for asg in (":", None):
            for d in (",", None):
                for opt in (None, True, False):
                    for afd in (None, True, False):
                        lines.append("mp " + map_args_line([o, "K", asg, "V", d, c, opt, afd], "M"))
    terms = ["WORD", "NUMBER", ",", "[", "]", ";"]
    X = lambda *ex: {"x": list(ex)}
    for syms in ([], ["A"], ["A", "B", "C"], ["WORD", "WORD"], [X("[", "]")], [X("[", "]"), "A", "B"],
                 ["A", X("[", "]"), "B"], ["A", "B", X("[", "]")], [X(), "A"], [X("[", "]"), X(";")],
                 ["A", X("nope"), "B"], [X(*terms), "A"], ["WORD", X("WORD")]):
        lines.append(sp_line("S", terms, syms))
    for prods in ([], [None], [["A"], None], [X("[", "]")], [["A", "B"], X("[", "]"), ["C"]], [X("[", "]"), ["A"], None],
                  [["A"], X(","), X(";")], [X("nope"), ["A"]], [None, ["A"], X(*terms)]):
        lines.append(pr_line(terms, prods))
    for _ in range(40 if tier == "quick" else 400):
        nm = lambda: rng.choice(names)
        on = lambda: rng.choice([None, nm()])
        lines.append("lp " + list_args_line([on(), nm(), on(), on(), rng.choice([None, True, False]),
                                             rng.choice([None, True, False])], nm()))
        lines.append("mp " + map_args_line([on(), nm(), on(), nm(), on(), on(), rng.choice([None, True, False]),
                                            rng.choice([None, True, False])], nm()))
        k = rng.randrange(0, 5)
        syms = [rng.choice(["A", "B", "WORD", "L"]) for _ in range(k)]
        for _ in range(rng.choice([0, 1, 1, 1, 2])):
            syms.insert(rng.randrange(0, len(syms) + 1), X(*rng.sample(terms + ["nope"], rng.randrange(0, 4))))
        tt = terms[:]
        rng.shuffle(tt)
        lines.append(sp_line("S", tt, syms))
        prods = [rng.choice([None, ["A"], ["A", "B"], ["WORD"]]) for _ in range(k)]
        for _ in range(rng.choice([0, 1, 1, 1, 2])):
            prods.insert(rng.randrange(0, len(prods) + 1), X(*rng.sample(terms + ["nope"], rng.randrange(0, 4))))
        lines.append(pr_line(tt, prods))
    for i in range(0, len(lines), 20):
        yield {"lines": lines[i:i + 20], "meta": {"kind": "templates"}}
    # sequences: un-flattened trees as the parse loop sees them
    ll = _ll()
    for _ in range(60 if tier == "quick" else 1000):
        n = rng.choice([0, 1, 2, 3, 5, 9])
        t = _mk_te("S", True, None)
        for _ in range(n):
            el = rng.choice([_mk_te("WORD", True, rng.choice(WORDS)),
                             _mk_te("N", False, [_mk_te("NUMBER", True, "3")]),
                             _mk_te("S", True, [])])
            bad = rng.random() < 0.04
            item = _mk_te("S__ELEMENT", False, [el, el] if bad else [el])
            t = _mk_te("S" if rng.random() > 0.03 else "T", False, [item, t])
        yield {"lines": ["sq " + show_val(t)], "meta": {"kind": "seq-flatten", "n": n}}


def gen_cases(rng, tier):
    quick = tier == "quick"
    yield from tpl_cases(rng, tier)
    # family 1
    keeps = [None, ["ITEM"], ["WORD"], ["LIST"], ["ITEM", "LIST", "WORD"]]
    rounds = 6 if quick else 45
    for cfg in list_configs():
        for smart in (True, False):
            for r in range(rounds):
                keep = keeps[0] if r == 0 else rng.choice(keeps)
                if keep and "ITEM" in keep and cfg[0] and cfg[4]:
                    # keep_symbols is not a template option (outside the quantifier): with the item symbol kept, the
                    # "absent list" item read after a final delimiter is an explicitly kept ITEM element, not None,
                    # and is therefore not dropped -- observed, reported, not generated
                    keep = ["WORD"]
                spec = f1_spec(cfg, smart, keep)
                items = f1_items(rng, cfg, 10 if quick else 14, big=(not quick and r % 3 == 0))
                c = make_case(spec, items, {"kind": "f1", "cfg": list(cfg), "smart": smart, "keep": keep,
                                            "expect_rejected": bool(cfg[0] and not cfg[1] and cfg[4])})
                if c is not None:
                    yield c
    # family 2
    for cfg, keep in f2_configs(rng, 600 if quick else 4500):
        spec = f2_spec(cfg, keep)
        items = f2_items(rng, cfg, 8 if quick else 12, maxd=4 if quick else 6)
        c = make_case(spec, items, {"kind": "f2", "cfg": cfg, "keep": keep})
        if c is not None:
            yield c
    yield from f3_cases(rng, tier)
    yield from f4_cases(rng, tier)
    yield from f5_cases(rng, tier)
    yield from f6_cases(rng, tier)
    yield from f7_cases(rng, tier)
    yield from f8_cases(rng, tier)
    yield from f9_cases(rng, tier)
    yield from f10_cases(rng, tier)
    yield from f11_cases(rng, tier)


def search_cases(rng, tier):
    """directed search: exhaustive small lists (every arrangement of word / empty item / nested list of length <= 4,
    with and without a final delimiter) for every option combination, then deeper json values, then statement languages
    around the containers"""
    import itertools
    for cfg in list_configs():
        br, dl, nullable, afd, opt = cfg
        alphabet = ["a"] + ([None] if nullable else []) + ([["L", [], False], ["L", ["b"], False]] if br else [])
        for smart in (True, False):
            spec = f1_spec(cfg, smart, None)
            items = []
            for n in range(0, 5):
                for combo in itertools.product(alphabet, repeat=n):
                    for fin in ((False, True) if dl and n else (False,)):
                        node = ["L", list(combo), fin]
                        text = f1_render(rng, node, cfg) + " 7"
                        r = f1_expected(node, cfg)
                        exp = ["ok", {"te": "E", "ch": [r[1], "7"]}] if r[0] == "ok" else ["err"]
                        items.append({"text": text, "exp": exp, "tags": ["search"], "size": _size(node)})
            for i in range(0, len(items), 40):
                c = make_case(spec, items[i:i + 40], {"kind": "search-f1", "cfg": list(cfg),
                                                      "expect_rejected": bool(cfg[0] and not cfg[1] and cfg[4])})
                if c is not None:
                    yield c
    for cfg, keep in f2_configs(rng, 400):
        c = make_case(f2_spec(cfg, keep), f2_items(rng, cfg, 20, maxd=5), {"kind": "search-f2"})
        if c is not None:
            yield c
    yield from f10_cases(rng, "quick")


def shrink(case):
    if "items" not in case:
        for i in range(len(case["lines"])):
            yield dict(case, lines=case["lines"][:i] + case["lines"][i + 1:])
        return
    items = case["items"]
    for i in range(len(items)):
        c = dict(case, items=items[:i] + items[i + 1:])
        c["lines"] = build_lines(c)
        yield c
    if len(items) == 1:
        # simplify the blanks of the text (the expectation depends on the tokens only); then hand it over as a str
        import re
        it = items[0]
        for simple in (re.sub(r"//[^\n]*", " ", it["text"]), " ".join(re.sub(r"//[^\n]*", " ", it["text"]).split())):
            if simple == it["text"] and it.get("mode") == "str":
                continue
            it2 = dict(it, text=simple, mode="str")
            try:
                it2["tp"] = tp_line(it2)
            except ValueError:
                it2["tp"] = None
            try:
                raw = parser_of(case["spec"]).parse(simple, do_cleanup=False)
                it2["cl"] = "cl " + show_val(raw)
            except Exception:
                it2["cl"] = None
            c = dict(case, items=[it2])
            c["lines"] = build_lines(c)
            yield c


def nontrivial(case, replies):
    return any(it.get("size", [0, 0])[0] >= 2 or it.get("size", [0, 0])[1] >= 2 for it in case.get("items", [])) \
        or case.get("meta", {}).get("kind") in ("templates", "seq-flatten")


def tags(case, replies):
    meta = case.get("meta", {})
    yield "kind:" + str(meta.get("kind"))
    if meta.get("key_order"):
        yield "key-order:" + meta["key_order"]
    if meta.get("kind") == "f1":
        br, dl, nullable, afd, opt = meta["cfg"]
        yield "f1:br=%d,dl=%d,nullable=%d,afd=%s,opt=%s" % (br, dl, nullable, afd, opt)
        yield "f1:keep=%s" % (meta.get("keep"),)
    if meta.get("kind") == "f2":
        yield "f2:keep=%s" % (meta.get("keep"),)
    for it in case.get("items", []):
        for t in it.get("tags", []):
            yield "text:" + t
        if not it.get("cl"):
            yield "text:no-raw-tree(parse error)"
        n, d = it.get("size", [0, 0])
        yield "text:depth=%s" % (d if d <= 6 else "7..20" if d <= 20 else "21..40" if d <= 40 else "41..61")
        if n >= 990:
            yield "text:entries=%s" % ("990..1100" if n <= 1100 else ">=5000" if n >= 5000 else "1101..4999")
    for r in replies:
        yield "reply:" + " ".join(r.split()[:2] if r.startswith("err") else r.split()[:1])


def corpus():
    """witness of the defect fixed by 04414b3 (containers below a ProdSequence element stayed raw trees)"""
    spec = {"prods": [["E", "plain", [["SEQ", ";"]]], ["SEQ", "seq", ["WORD", "LIST"]],
                      ["LIST", "list", ["[", "ITEM", ",", "]", None, None]], ["ITEM", "plain", [["WORD"], ["LIST"]]]],
            "keep": None, "smart": True, "start": "E"}
    items = [{"text": "a [b, c] ;", "tags": ["container-under-seq", "corpus"], "size": [2, 2],
              "exp": ["ok", {"te": "E", "ch": [{"seq": [{"el": "WORD", "v": "a"}, {"el": "LIST", "v": ["b", "c"]}]}, ";"]}]}]
    c = make_case(spec, items, {"kind": "corpus", "what": "list below a sequence"})
    out = [c] if c is not None else []
    # witness of the defect fixed by 2cdb1cb (the tail of a list / map was walked recursively: parse() raised
    # RecursionError for lists of >= 994 items and maps of ~1100 pairs)
    n = 1200
    words = [WORDS[i % len(WORDS)] for i in range(n)]
    items = [{"text": "[" + ", ".join(words) + "]", "exp": ["ok", words], "size": [n, 1], "tags": ["corpus", "long-list"], "mode": "str"},
             {"text": "{" + ", ".join("k%d: %s" % (i % 700, w) for i, w in enumerate(words)) + ",}", "size": [n, 1], "mode": "str",
              "exp": ["ok", {"map": [["k%d" % i, words[i + 700] if i + 700 < n else words[i]] for i in range(700)]}],
              "tags": ["corpus", "long-map"]},
             {"text": "[a, [b], {k: [" + ", ".join(words) + "]}]", "exp": ["ok", ["a", ["b"], {"map": [["k", words]]}]],
              "size": [n, 3], "tags": ["corpus", "long-list-last-of-outer"], "mode": "str"}]
    c = make_case(f11_spec("json", True), items, {"kind": "corpus", "what": "list / map of 1200 entries"})
    return out + ([c] if c is not None else [])

LEVEL_TEXT = (
    "Kernel-checked for all raw trees / all option combinations on the model of ListProds, MapProds, ProdSequence and "
    "StdCleanuper._cleanup (signature dictionaries, _find_index positions, value[pos] walk, squashing): every tree that "
    "conforms to the productions the templates generate has one of the derivation shapes (list_derivations, "
    "map_derivations); the table-driven walk returns exactly the item / key-value subtrees of that derivation in document "
    "order, each cleaned with for_container=True, leaves replaced by their value, with exactly the two documented "
    "adjustments (list_items, map_items; no hypothesis on key/assign/value symbols, they may coincide); dict(kv_pairs) keeps "
    "first-occurrence key order and the last value (map_string_keys, dict_key_order, dict_last_value); sequences are "
    "flattened in order and cleaned element-wise without loss (seq_items; seq_items_executed: the driver's toVal gives exactly "
    "flattenSeq's leaf; choice_elements_squashed: a choice symbol / one-production wrapper vanishes around the matched "
    "alternative whatever the flags); C05's constructor is the LL model's constructG after template expansion "
    "(constructor_is_ll_constructor); every symbol given to ProdSequence / a production "
    "list is honoured wherever AnyTokenExcept stands (any_token_except); empty brackets give [] / {}, absent optional "
    "containers keep None (empty_and_absent); a bare final delimiter can be derived only when allowed and never changes the "
    "result (final_delim, final_delim_map); for the json-like grammar the clean-up of any tree denoting nested data d is "
    "pyval(d) at every depth and every conforming tree denotes some d (nesting, nesting_every_derivation); squashable wrappers "
    "vanish around items, kept ones stay (squash_around_items); the clean-up of a well-typed conforming tree never raises "
    "Assertion/Index/AttributeError (no_exceptions); _make_squash_data characterised (squash_data); constructor options are "
    "well-formed when user symbols contain no '__' and the item symbol is not a bracket/delimiter symbol "
    "(wf_of_list_constructor, wf_of_map_constructor); a str is cut into lines at '\\n' only, the separator being read from the "
    "source (lines_cut_at_newline_only). END TO END (end_to_end_json_partial): with constructor (LL model's "
    "factorize / nullables / FIRST / FOLLOW / table + template expansion + StdCleanuper.make), parse loop (LL.run, roll-backs "
    "included) and clean-up all inside the model, for the json grammar E -> VALUE -> WORD | LIST | MAP with default options and "
    "BOTH smart_factorization values: for every written value (any depth and length IN THE MODEL, final delimiters) and any "
    "blank lexemes, the parser accepts, the raw tree is the derivation tree and parse(text) has exactly the value "
    "pyval(data). LENGTHS: the cleaned list has one entry per item of the derivation, the cleaned map comes from one cleaned "
    "pair per pair, for every length (one_entry_per_item: no fuel, structural recursion over the tail chain), and a conforming "
    "derivation of every length n exists whose clean-up is the n-entry list (any_length). GRAMMARS AROUND THE CONTAINERS "
    "(absent_container_first, written_production_first; hypothesis: no '__' in the names handed to templates): for every "
    "parser the constructor model returns, the symbol of an optional or bracket-less list / map and of every sequence is "
    "nullable, and the FIRST sets the parse table is built from contain, for every production A -> pre s post the user wrote "
    "with pre nullable (e.g. absent optional containers), s resp. FIRST(s) in FIRST(A), whatever chain of non-terminals the "
    "first token of s comes through -- so the parents of A get the table cells for a text in which the leading containers "
    "are absent (that the real constructor computes these sets is C02's tie and the tc lines of family f10 here). "
    "The tie of 'any depth and "
    "length' to the real code covers "
    "nesting up to 61 levels (CPython's recursion limit ends the real, recursive clean-up near 200 levels) and containers of "
    "up to 5000 entries. For other grammars / "
    "options acceptance of a text and parse(render(d)).value == d rest on the differential run of that same model pipeline "
    "(tokens -> constructT -> LL.run -> toVal -> cleanup) against the real parser and on the oracle.")
LEVEL_NOTE = (
    "Trusted: Lean kernel (axioms propext, Classical.choice, Quot.sound), translator for the generated symbol suffixes and "
    "MapProds' allow_final_delimiter default, adapter/oracle in harness/c05.py, the regular-expression lexing (lexemes enter as "
    "data; synonyms / skipping are modelled), iteration order of the terminal set for AnyTokenExcept (data, sorted), sampled "
    "correspondence: (tc) model parse+clean-up of the lexemes == real parse(text), including ParsingError for texts the grammar "
    "cannot read and GrammarError / AssertionError of the constructor; (cl) model clean-up of the real raw tree == real "
    "parse(text); diagnostics: model raw tree == real raw tree (tp), generated productions and signature tables (lp/mp), "
    "AnyTokenExcept expansion in sequences and production lists (sp/pr), sequence flattening (sq), squash data (g/G), the "
    "lines of a str as the tokenizer cuts them (ln: model strLines == lexemes of the real tokenizer grouped by line), the "
    "theorems' hypotheses conforms/wellTyped on every real tree (cf). Generators: every accepted ListProds option combination x "
    "both smart_factorization values x keep_symbols variants, nested json-like data with objects / optional containers / "
    "sequences (AnyTokenExcept first/middle/last) / bracket-less maps / nullable items and values / pair lists, token items, "
    "non-terminal delimiters, composite keys, list items with AnyTokenExcept at every position, coinciding symbols (key = value "
    "= assign, open = close, delimiter = bracket, word brackets), random blanks, newlines and comments -- including form feed, "
    "vertical tab, lone \\r, \\x1c-\\x1e, \\x85, U+2028/2029, NBSP inside blank runs and inside comment bodies that look like "
    "source text, multi-line /* */ comments (span_matchers) -- handed to parse() as a str, as a list of lines and as a list of "
    "lines keeping their newline; the keys of the productions dict as written / bottom-up / shuffled; nullable containers "
    "(optional, bracket-less, sequences) at the very end of the text 1-3 levels below the start symbol; item / value / element "
    "symbols whose alternatives share the first token (PAIR | WORD, SET | MAP on '{', ASSIGN | WORD) so that roll-back reaches "
    "below the top frame; call sequences on one parser object with failing calls (unclosed comment, foreign character, parse "
    "error, empty text) before valid texts; one container symbol (bracket-less list / map, optional list / map, sequence) used two "
    "or three times in ONE production with different followers, any of the uses absent / empty, last use at the end of the "
    "text or followed; maps whose key and value are the same non-terminal ending in an absent optional list; sequences "
    "listing choice symbols, wrappers of choice symbols, tokens and blocks as elements, nested through BLOCK / lists / maps; "
    "item / value / element symbols mixing a non-terminal-first alternative with alternatives sharing a first token "
    "(PAIR | WORD '@' | WORD, NUMBER and LIST anywhere) in lists, maps and sequences; STATEMENT LANGUAGES around the "
    "containers (f10): a production that starts with one or two nullable containers (optional list / map, bracket-less list / "
    "map, sequence; absent, empty or present in the text) followed by a non-terminal whose first token comes through a chain of "
    "0-3 further non-terminals, the production being the first symbol of other productions directly or through 1-2 "
    "one-symbol wrappers, keys of the dict in every order; two or three statement alternatives that begin with the SAME "
    "container symbol (VALUE / LIST / MAP / optional list / optional map, absent heads included) and differ in the token "
    "behind it, wrapped in their own non-terminals (not mergeable by factorisation: the container is parsed, the alternative "
    "fails behind it and the next one parses the same container again at the same position) or inline (merged), in every "
    "order; statements alone, in a sequence (also as start symbol), in a bracket-less list, and in blocks nested inside "
    "container items; LENGTHS AND DEPTHS (f11): lists, maps (distinct keys / seven repeated keys) and sequences of 990-1100 and "
    "5000 entries, flat and as the first / last entry of a short outer list or map, with and without delimiter, nullable "
    "items, bracket-less at top level, final delimiter on / off; nesting 20, 40, 60 levels through lists, maps and blocks; in "
    "the quick tier the 5000-pair map takes part through the clean-up line only (cl: model clean-up of the real raw tree), "
    "its model parse runs in the thorough tier. Corpus: the 04414b3 witness and lists / maps of 1200 entries (2cdb1cb: the "
    "recursive tail walk raised RecursionError from 994 items on).")
TECHNIQUE = ("Lean 4 theorems over an executable structural-recursive model of the templates and the cleanuper (derivation "
             "shapes as inductive predicates, case analysis over all option fields) + translator for generated names + "
             "composition with the LL parser model (constructor + parse loop; a local 'predicted by ordered choice' lemma for "
             "LL.run proved here) + differential run of the compiled model against the real parser + render/parse/denote oracle")
