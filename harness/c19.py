"""C19 — command options are inherited exactly along the declared command graph (ak/cli_tools.py).

A case is one ArgParser: `new` (construction), `deps` (internal dependents map, diagnostic),
`opt` lines (add_argument on the ArgParser `*` or on one command parser; `optg`: through a group object of a command
parser) and `parse` lines (`parse` fresh list, `parset` tuple, `parse2` the same list object twice, `parsev` sys.argv,
`lst` the caller's list after the call).
"""
import ast
import contextlib
import io
import itertools
import os
import sys

from harness.core import enc_str, dec_str

PROPERTY = "C19"
READY = True
STATEFUL = True
THEOREMS = [
    "C19.std_shape", "C19.decl_syntax",
    "C19.closure", "C19.build_ok_iff", "C19.declare_order_irrelevant", "C19.declare_follows_code",
    "C19.options_iff", "C19.strings_iff", "C19.added_to_all", "C19.add_ok_iff",
    "C19.command_dispatch", "C19.parse_accepts", "C19.table_unique", "C19.info_inherited", "C19.info_accepted",
    "C19.parse_rejects", "C19.parse_rejects_short",
    "C19.abbrev_unique", "C19.abbrev_ambiguous", "C19.accepts_iff", "C19.std_accepted",
    "C19.verbose_cluster", "C19.dd_words", "C19.required_enforced",
    "C19.default_is_first_public", "C19.default_cmd_partial", "C19.default_cmd_option_first",
    "C19.default_cmd_full_if_public_test", "C19.internal_name_gap",
    "C19.caller_sequence_untouched", "C19.parse_twice", "C19.no_log_file_attr", "C19.help_if_no_args", "C19.single_mode",
    "C19.default_cmd_internal_name_counterexample", "C19.group_option_not_inherited_counterexample",
]
RULE = ("one case = one ArgParser: declarations (chains, forests, diamonds, dense DAGs, two arms with a late declared ancestor, "
        "parent chains and ladders 50 / 300 / 1200 (thorough: 2500) commands deep, "
        "a parent given together with its own ancestor, repeated parents, '!' sets; names that contain each other / share "
        "prefixes / contain '-', '_', digits, upper case / are pieces of '-h--help'; blanks of 13 kinds and empty pieces in the "
        "parent list; malformed: unknown/forward/self parents, duplicate and empty names, no commands, all internal, bad "
        "default), constructor switches _no_log/_no_log_file/_help_if_no_args, 0-8 add_argument calls (ArgParser itself, public "
        "and internal parsers, unknown command; flags, store_false, store_const, value options (also with a default string or a "
        "default object, sys.stdout; type=int with integer / non-integer arguments, choices=[...] with members / non-members), "
        "action='version' (4 texts) and action='help' options under any names on internal sets, parents, leaves and the "
        "ArgParser (stream `info` + 4% of all options; SystemExit status and the printed version text are compared), option "
        "names that tools conventionally treat specially (--version, --about, --usage, --debug, -V …), required=True options on the ArgParser / parsers / internal sets with argv that supplies "
        "them or not, explicit dest=, families of "
        "options storing into one attribute placed on one parser / parent and child / ArgParser and parser, positionals with "
        "nargs absent/?/*/+; option strings that "
        "are prefixes of each other and of the standard ones; a stream with conflicting strings; a stream where the default "
        "command takes free words), then argv per (public command, option string) plus random argv (abbreviations, -xyz "
        "clusters with attached values, --opt=value, --, '', '-', negative numbers, std options and their abbreviations, "
        "unknown options, no command name, up to 3 argv per case that START with a declared option string, first words inside "
        "'-h--help', -h); argv kind: fresh list 75%, the same list object twice 15%, tuple 10%; 12% also through parse_args() "
        "with sys.argv set, 8% followed by the caller's list after the call (must be unchanged); "
        "the single-command ArgParser (6%); 10 cases (thorough 40) adding an option through a group object of a command "
        "parser (mutually exclusive / plain, known finding), generated last; cases with an internal name first (known finding); every strip() "
        "candidate character. non-trivial = a successfully built multi-command parser with >= 1 parent edge, >= 1 option "
        "added to a command parser and >= 2 parse lines; distinct by protocol text")
TRUSTED = ["argparse 3.12 (the scan of one parser is a modelled function: exact strings, abbreviations, -xyz, --opt=value, "
           "--, words, nargs absent/?/*/+; its agreement with the real argparse is established by the tie, not proved)"]
ASSUMPTIONS = ["option strings are `-x` or `--name…`, distinct within one add_argument call (checked by the driver on every "
               "request: `bad-op` otherwise)",
               "at most one positional per parser unless all are nargs='*' (the model answers `ood` otherwise; generator keeps to it)",
               "argv strings are fresh objects (argparse's mutual-exclusion test compares values with `is`)",
               "one option per group object (a mutually exclusive group with a single member excludes nothing)"]

HELP_FIRST_DEFAULT = ["-h", "--help"]


# ------------------------------------------------------------------ translator
def _lean_str(s):
    if not all(32 < ord(c) < 127 and c not in "'\\" for c in s):
        raise ValueError("unexpected character in %r" % s)
    return "[" + ", ".join("'%s'" % c for c in s) + "]"


def _lean_list(xs):
    return "[" + ", ".join(xs) + "]"


def _read_source(repo):
    src = open(os.path.join(repo, "ak", "cli_tools.py")).read()
    tree = ast.parse(src)
    cls = [n for n in tree.body if isinstance(n, ast.ClassDef) and n.name == "ArgParser"]
    if len(cls) != 1:
        raise ValueError("class ArgParser not found")
    fns = {n.name: n for n in cls[0].body if isinstance(n, ast.FunctionDef)}
    for need in ("_mk_std_args", "parse_args", "_init_multicmd_parser"):
        if need not in fns:
            raise ValueError("method %s not found" % need)

    # --- _mk_std_args: the add_argument calls, in order
    std, groups = [], set()
    fn = fns["_mk_std_args"]
    pname = fn.args.args[1].arg

    def kw(call, name, default=None):
        for k in call.keywords:
            if k.arg == name:
                return ast.literal_eval(k.value)
        return default

    def visit(stmts, guarded):
        for st in stmts:
            if isinstance(st, ast.If):
                # `if not self._no_log:` — these options are absent when the ArgParser is built with _no_log=True
                t = st.test
                ok = (isinstance(t, ast.UnaryOp) and isinstance(t.op, ast.Not) and isinstance(t.operand, ast.Attribute)
                      and t.operand.attr == "_no_log")
                if not ok or st.orelse:
                    raise ValueError("unexpected condition in _mk_std_args")
                visit(st.body, True)
            elif isinstance(st, ast.Assign):
                v = st.value
                if (isinstance(v, ast.Call) and isinstance(v.func, ast.Attribute)
                        and v.func.attr == "add_mutually_exclusive_group" and isinstance(v.func.value, ast.Name)
                        and v.func.value.id == pname and len(st.targets) == 1 and isinstance(st.targets[0], ast.Name)
                        and not v.args and not v.keywords):
                    if groups:
                        raise ValueError("more than one mutually exclusive group")
                    groups.add(st.targets[0].id)
                else:
                    raise ValueError("unexpected assignment in _mk_std_args")
            elif isinstance(st, ast.Expr) and isinstance(st.value, ast.Call):
                c = st.value
                if not (isinstance(c.func, ast.Attribute) and c.func.attr == "add_argument"
                        and isinstance(c.func.value, ast.Name)):
                    raise ValueError("unexpected call in _mk_std_args")
                recv = c.func.value.id
                if recv != pname and recv not in groups:
                    raise ValueError("add_argument on an unknown object")
                strings = [ast.literal_eval(a) for a in c.args]
                if not strings or not all(isinstance(s, str) and s.startswith("-") for s in strings):
                    raise ValueError("standard option without option strings")
                known = {"default", "action", "help", "nargs", "choices"}
                if any(k.arg not in known for k in c.keywords):
                    raise ValueError("unexpected keyword in a standard option")
                action, nargs, choices, default = kw(c, "action"), kw(c, "nargs"), kw(c, "choices"), kw(c, "default")
                if action == "count" and nargs is None and choices is None and default == 0:
                    kind = ".count"
                elif action == "store_true" and nargs is None and choices is None and default is None:
                    kind = ".flag"
                elif action is None and nargs == "?" and isinstance(choices, list) and isinstance(default, str):
                    kind = ".optChoice %s %s" % (_lean_list([_lean_str(x) for x in choices]), _lean_str(default))
                else:
                    raise ValueError("standard option of an unmodelled kind: %s" % strings)
                std.append((strings, kind, recv in groups, guarded))
            elif isinstance(st, ast.Expr) and isinstance(st.value, ast.Constant):
                pass
            else:
                raise ValueError("unexpected statement in _mk_std_args")
    visit(fn.body, False)

    # --- common_options has argparse's own help option unless add_help=False is passed
    add_help = None
    for node in ast.walk(fns["_init_multicmd_parser"]):
        if (isinstance(node, ast.Assign) and len(node.targets) == 1 and isinstance(node.targets[0], ast.Attribute)
                and node.targets[0].attr == "common_options" and isinstance(node.value, ast.Call)):
            add_help = True
            for k in node.value.keywords:
                if k.arg == "add_help":
                    add_help = bool(ast.literal_eval(k.value))
    if add_help is None:
        raise ValueError("construction of common_options not found")

    # --- parse_args: `for choices in [['-h', '--help'], self.command_parsers]`
    found = None
    for node in ast.walk(fns["parse_args"]):
        if isinstance(node, ast.comprehension) and isinstance(node.iter, ast.List) and len(node.iter.elts) == 2:
            a, b = node.iter.elts
            if isinstance(a, ast.List) and isinstance(b, ast.Attribute) and isinstance(b.value, ast.Name) and b.value.id == "self":
                found = ([ast.literal_eval(x) for x in a.elts], b.attr)
    if found is None:
        raise ValueError("first-argument test of parse_args not found")
    help_first, attr = found
    if attr == "command_parsers":
        all_parsers = True
    elif attr in ("_commands_names", "commands_names", "_command_names", "_public_commands"):
        all_parsers = False
    else:
        raise ValueError("first argument is compared with an unknown collection self.%s" % attr)
    # --- parse_args: does it work on a private copy (`args = list(args)`)?
    copies = False
    for node in ast.walk(fns["parse_args"]):
        if (isinstance(node, ast.Assign) and len(node.targets) == 1 and isinstance(node.targets[0], ast.Name)
                and node.targets[0].id == "args" and isinstance(node.value, ast.Call)
                and isinstance(node.value.func, ast.Name) and node.value.func.id in ("list",)
                and len(node.value.args) == 1 and isinstance(node.value.args[0], ast.Name)
                and node.value.args[0].id == "args" and not node.value.keywords):
            copies = True
    return std, add_help, help_first, all_parsers, copies


def translate(repo):
    std, add_help, help_first, all_parsers, copies = _read_source(repo)

    def table(no_log):
        specs = []
        if add_help:
            specs.append("{ strings := [%s, %s], kind := .help, mutex := false }" % (_lean_str("-h"), _lean_str("--help")))
        for strings, kind, mutex, guarded in std:
            if guarded and no_log:
                continue
            specs.append("{ strings := %s, kind := %s, mutex := %s }" % (
                _lean_list([_lean_str(s) for s in strings]), kind, "true" if mutex else "false"))
        return ",\n  ".join(specs)
    body = ("-- GENERATED by harness/c19.py:translate from /repo/ak/cli_tools.py -- do not edit\n"
            "import AkVerif.Model.CliGraph\n"
            "namespace Gen.C19\n"
            "open CliGraph\n"
            "/-- actions every parser starts with: argparse's help (the parsers are built with add_help)\n"
            "and the add_argument calls of `_mk_std_args`, in order -/\n"
            "def std : List OptSpec := [\n  %s ]\n"
            "/-- the same when `_no_log=True` (the calls under `if not self._no_log:` are skipped) -/\n"
            "def stdNoLog : List OptSpec := [\n  %s ]\n"
            "/-- `for choices in [[...], self.<collection>]` and `args = list(args)` in `parse_args` -/\n"
            "def cfg : Cfg := { std := std, stdNoLog := stdNoLog, helpFirst := %s, allParsers := %s, copiesArgs := %s }\n"
            "end Gen.C19\n" % (table(False), table(True), _lean_list([_lean_str(s) for s in help_first]),
                               "true" if all_parsers else "false", "true" if copies else "false"))
    return {"AkVerif/Gen/C19.lean": body}


# ------------------------------------------------------------------ real code
def _mod():
    from ak import cli_tools
    return cli_tools


def _fresh(s):
    """a new str object (never the interned literal argparse holds as a default)"""
    return "".join([c for c in s])


def _show_val(v):
    if v is True:
        return "T"
    if v is False:
        return "F"
    if v is None:
        return "N"
    if isinstance(v, str):
        return "s:" + enc_str(v)
    if v is sys.stdout or v is sys.__stdout__ or hasattr(v, "write"):
        return "s:" + enc_str(OBJ)
    if isinstance(v, int):
        return "n:%d" % v
    if isinstance(v, list):
        return "l:" + "/".join(enc_str(x) for x in v)
    return "?" + type(v).__name__


def _show_ns(ns):
    return " ".join("%s=%s" % (enc_str(k), _show_val(v)) for k, v in sorted(vars(ns).items()))


POS_KW = {"pos1": {}, "pos?": {"nargs": "?"}, "pos*": {"nargs": "*"}, "pos+": {"nargs": "+"}}


def _kind_parts(kind):
    """'flag@cache' -> ('flag', 'cache'); 'const=106,115@102,109,116' -> ('const=106,115', 'fmt'); dest None when absent"""
    base, _, d = kind.partition("@")
    return base.rstrip("!"), (dec_str(d) if d else None)


def _required(kind):
    return kind.partition("@")[0].endswith("!")


OBJ = "<obj>"          # stands for a default that is an object (sys.stdout), not a value


def _payload(kind):
    """the text behind '=' in 'const=V', 'value=D', 'version=V', 'cvalue=A/B'"""
    return kind.partition("@")[0].rstrip("!").partition("=")[2]


def _choices(kind):
    return [dec_str(x) for x in _payload(kind).split("/")]


def _opt_kwargs(kind):
    base, dest = _kind_parts(kind)
    if base.startswith("pos"):
        kw = dict(POS_KW[base])
    elif base == "help":
        kw = {"action": "help"}
    elif base.startswith("version="):
        kw = {"action": "version", "version": dec_str(base[8:])}
    elif base == "ivalue":
        kw = {"type": int}
    elif base.startswith("cvalue="):
        kw = {"choices": _choices(kind)}
    elif base == "flag":
        kw = {"action": "store_true"}
    elif base == "flagoff":
        kw = {"action": "store_false"}
    elif base.startswith("const="):
        kw = {"action": "store_const", "const": dec_str(base[6:])}
    elif base.startswith("value="):
        d = dec_str(base[6:])
        kw = {"default": sys.stdout if d == OBJ else d}
    else:
        kw = {}
    if dest is not None:
        kw["dest"] = dest
    if _required(kind):
        kw["required"] = True
    return kw


def _extra_kwargs(toks):
    """keywords of add_argument that do not decide the option's kind (the model carries them as opaque data)"""
    import argparse
    kw = {}
    for t in toks:
        if t == "+help=text":
            kw["help"] = "some help text"
        elif t == "+help=none":
            kw["help"] = None
        elif t == "+help=suppress":
            kw["help"] = argparse.SUPPRESS
        elif t == "+help=empty":
            kw["help"] = ""
        elif t == "+metavar":
            kw["metavar"] = "MV"
        elif t == "+type":
            kw["type"] = str
        elif t == "+choices":
            kw["choices"] = None
        elif t == "+default=none":
            kw["default"] = None
    return kw


def _plain_argparse_accepts(kind, strs, extra_toks):
    """does the same declaration succeed on a plain argparse parser?"""
    import argparse
    try:
        kw = _opt_kwargs(kind)
        kw.update(_extra_kwargs(extra_toks))
        argparse.ArgumentParser(prog="x").add_argument(*strs, **kw)
        return True
    except Exception:
        return False


def _sw(t):
    return {"_no_log": t[0] == "1", "_no_log_file": t[1] == "1", "_help_if_no_args": t[2] == "1"}


class _Session:
    """the adapter: one ArgParser driven by protocol lines"""

    def __init__(self):
        self.p = None
        self.poisoned = False

    def run(self, call):
        err, out = io.StringIO(), io.StringIO()
        try:
            with contextlib.redirect_stderr(err), contextlib.redirect_stdout(out):
                ns = call()
            return "ok " + _show_ns(ns)
        except SystemExit as e:
            if e.code == 0:
                # status 0: something was printed on request. The usage text (help) or a version text.
                body = "\n".join(l for l in out.getvalue().split("\n") if l != "appending help option").strip()
                if not body.startswith("usage:"):
                    return "err SystemExit 0 V:" + enc_str(body[:40])
            return "err SystemExit %s" % (e.code,)
        except Exception as e:
            return "err " + type(e).__name__

    def parse_list(self, lst):
        return self.run(lambda: self.p.parse_args(lst))

    def parse(self, toks):
        return self.parse_list([_fresh(t) for t in toks])

    def line(self, line):
        ct = _mod()
        op, *args = line.split()
        if op == "new":
            self.p, self.poisoned = None, False
            dflt = None if args[1] == "-" else dec_str(args[1])
            cmds = []
            for i, a in enumerate(args[2:]):
                cmds.append((dec_str(a), "help %d" % i if i % 2 else ("help %d" % i, "description %d" % i)))
            try:
                self.p = ct.ArgParser(commands=cmds, default_command=dflt, prog="x", **_sw(args[0]))
                return "ok"
            except Exception as e:
                return "err " + type(e).__name__
        if op == "single":
            self.poisoned = False
            self.p = ct.ArgParser(prog="x", **_sw(args[0]))
            return "ok"
        if self.p is None:
            return "no-parser"
        if self.poisoned:
            return "poisoned"
        if op == "deps":
            if self.p.command_parsers is None:
                return "deps"
            return " ".join(["deps"] + ["%s:%s" % (enc_str(n), "/".join(enc_str(d) for d in q._dependent_parsers))
                                        for n, q in self.p.command_parsers.items()])
        if op in ("opt", "optg"):
            grp = None
            if op == "optg":
                grp, args = args[1], [args[0]] + args[2:]
            target, kind = args[0], args[1]
            strs = [dec_str(a) for a in args[2:] if not a.startswith("+")]
            extra = _extra_kwargs([a for a in args[2:] if a.startswith("+")])
            try:
                obj = self.p if target == "*" else self.p.get_cmd_parser(dec_str(target))
                if grp == "mutex":
                    obj = obj.add_mutually_exclusive_group()      # argparse's own group object
                elif grp == "plain":
                    obj = obj.add_argument_group()
            except (ValueError, AssertionError) as e:
                return "err " + type(e).__name__
            kw = _opt_kwargs(kind)
            kw.update(extra)
            try:
                obj.add_argument(*strs, **kw)
                return "ok"
            except Exception as e:
                self.poisoned = True
                return "err " + type(e).__name__
        if op == "parse":
            return self.parse([dec_str(a) for a in args])
        if op == "parset":
            return self.parse_list(tuple(_fresh(dec_str(a)) for a in args))      # any sequence will do
        if op == "parsev":
            # the documented way to run a script: parse_args() reads sys.argv
            old = sys.argv
            sys.argv = ["x"] + [_fresh(dec_str(a)) for a in args]
            try:
                return self.run(lambda: self.p.parse_args())
            finally:
                sys.argv = old
        if op == "parse2":
            lst = [_fresh(dec_str(a)) for a in args]
            r1 = self.parse_list(lst)
            r2 = self.parse_list(lst)          # the same list object, as the first call left it
            return "%s | %s" % (r1, r2)
        if op == "lst":
            lst = [_fresh(dec_str(a)) for a in args]
            self.parse_list(lst)               # what the call leaves in the caller's list
            return "L:" + "/".join("N" if x is None else enc_str(x) for x in lst)
        return "bad-op"


def impl(case):
    s = _Session()
    return [s.line(l) for l in case["lines"]]


def observable(i, line):
    # the dependents map is internal; add_argument's own outcome is not named by observe_at
    # (its effect is observed by the parse lines that follow)
    return not (line.startswith("deps") or line.startswith("opt ") or line.startswith("optg "))


# ------------------------------------------------------------------ oracle: the property itself
def _o_decl(s):
    """the documented syntax '!name:parent1,parent2' read independently; the last component says whether the
    string is written plainly (nothing but ASCII blanks around parents, no empty pieces) — only then the statement
    speaks about it"""
    head, _, par = s.partition(":")
    internal = head.startswith("!")
    name = head[1:] if internal else head
    parents, plain = [], True
    pieces = par.split(",") if par else []
    if ":" in s and not par:
        plain = False                      # 'name:' with an empty parent list
    for p in pieces:
        # plain ASCII blanks around a parent name ("pull: fetch, net") are the ordinary way to write such a list and
        # the code strips them on purpose; other white space and empty pieces stay outside the statement
        if p.strip(" ") != p.strip() or not p.strip(" "):
            plain = False
        p = p.strip()
        if p and p not in parents:
            parents.append(p)
    return name, internal, parents, plain


def _o_graph(decl_strs):
    """(decls, valid, anc) — anc[c] = set of proper ancestors, computed from the declarations"""
    decls, seen, valid = [], [], True
    for s in decl_strs:
        name, internal, parents, plain = _o_decl(s)
        if not plain or not name or name in seen or any(p not in seen for p in parents):
            valid = False
        seen.append(name)
        decls.append((name, internal, parents))
    if not decls:
        valid = False
    anc = {}
    if valid:
        for name, _, parents in decls:
            a = set()
            for p in parents:
                a.add(p)
                a |= anc[p]
            anc[name] = a
    return decls, valid, anc


COLOR_CHOICES = ["auto", "always", "yes", "1", "never", "no", "0"]
HELP_SPEC = (["-h", "--help"], "help")


def _std_specs(no_log):
    """the standard options as the statement names them (color and verbosity; -v is absent under _no_log)"""
    out = [HELP_SPEC]
    if not no_log:
        out.append((["-v", "--verbose"], "count"))
    return out + [(["--color"], "color"), (["--no-color"], "nocolor")]


def _base(kind):
    b = kind.partition("@")[0].rstrip("!")
    for p in ("value=", "version=", "cvalue="):
        if b.startswith(p):
            return p[:-1]
    return b


VALUE_KINDS = ("value", "ivalue", "cvalue")
INFO_KINDS = ("help", "version")


def _info_text(kind):
    """the text an accepted help / version option prints before SystemExit(0): None for help (the usage text)"""
    return dec_str(_payload(kind)) if _base(kind) == "version" else None


def _convert(kind, raw):
    """(accepted, stored value) for the argument `raw` of a value option: type=int, choices=[...]"""
    b = _base(kind)
    if b == "ivalue":
        try:
            return True, int(raw)
        except ValueError:
            return False, None
    if b == "cvalue":
        return raw in _choices(kind), raw
    return True, raw


def _value_default(kind):
    b = kind.partition("@")[0].rstrip("!")
    return dec_str(b[6:]) if b.startswith("value=") else None


def _dest(strs, kind):
    if "@" in kind:
        return _kind_parts(kind)[1]
    if kind.startswith("pos"):
        return strs[0]
    longs = [s for s in strs if s.startswith("--")]
    return (longs[0][2:] if longs else strs[0][1:]).replace("-", "_")


def _is_word(t):
    return not t.startswith("-") or t == "-" or (len(t) > 1 and t[1:].isdigit() and t[1:].isascii())


def _resolve(t, table):
    """argparse's reading of one token against the option strings of ONE parser:
    'word' | 'unknown' | 'abbreviation' | (spec, single_dash, attached_text_or_None)"""
    if not t.startswith("-") or t == "-":
        return "word"
    if t in table:
        return (table[t], not t.startswith("--"), None)
    name, eq, val = t.partition("=")
    if eq and name in table:
        return (table[name], not name.startswith("--"), val)
    if t.startswith("--"):
        m = [s for s in table if s.startswith(name)]
        # the beginning of one or several option strings: what argparse makes of it depends on `allow_abbrev`,
        # which the statement does not fix — no claim (the model and the theorems cover the code's setting)
        return "abbreviation" if m else "unknown"
    if t[:2] in table:
        return (table[t[:2]], True, t[2:])
    return "word" if _is_word(t) else "unknown"


REJ = ("exit", "rej")        # refused: SystemExit with a non-zero status
ANY = ("exit", None)         # some SystemExit


def _is_info(spec):
    return _base(spec[1]) in INFO_KINDS


def _may_info(rest, table):
    """could some token before '--' be read as a help / version option (exactly, with '=value', inside -xyz)?"""
    for t in rest:
        if t == "--":
            break
        if not t.startswith("-") or t == "-":
            continue
        for cand in (t, t.partition("=")[0]):
            if cand in table and _is_info(table[cand]):
                return True
        if not t.startswith("--"):
            for c in t[1:]:
                if "-" + c in table and _is_info(table["-" + c]):
                    return True
    return False


def _expect(rest, acc):
    """what the statement implies for the arguments `rest` of a command whose option table is `acc`
    (list of (strings, kind), the standard ones included): ('ns', dict) | ('exit', 0, text) | REJ | ANY | None (no claim).
    An accepted help / version option prints and ends with status 0 (text: the version text, None for help) — the
    options before it have been handled, what follows is not looked at. Everything argparse refuses (unknown or
    ambiguous option, missing or unwanted or unconvertible value, bad choice, --color with --no-color, words nobody
    takes, a missing required option or positional) ends in SystemExit with a non-zero status; where a refusal and a
    help / version option meet in one argument list only 'some SystemExit' is claimed."""
    table = {}
    for spec in acc:
        if not spec[1].startswith("pos"):
            for s in spec[0]:
                table[s] = spec
    r = _expect0(rest, acc, table)
    if r == REJ and _may_info(rest, table):
        return ANY
    return r


def _expect0(rest, acc, table):
    poss = [spec for spec in acc if spec[1].startswith("pos")]
    if len(poss) > 1:
        return None                       # several positionals: argparse's own business
    if poss and any(_dest(*sp) == poss[0][0][0] for sp in acc if not sp[1].startswith("pos")):
        return None                       # an option storing into the positional's attribute
    ns = {}
    for strs, kind in acc:
        d, b = _dest(strs, kind), _base(kind)
        if b == "flag":
            ns.setdefault(d, False)
        elif b == "flagoff":
            ns.setdefault(d, True)
        elif b in VALUE_KINDS or b.startswith("const="):
            ns.setdefault(d, _value_default(kind))
        elif b == "count":
            ns.setdefault(d, 0)
        elif b == "color":
            ns.setdefault(d, "auto")
    # abbreviations (possibly ambiguous ones, which argparse refuses before anything else) anywhere before '--'
    for t in rest:
        if t == "--":
            break
        if _resolve(t, table) == "abbreviation":
            return None
    required = [sp for sp in acc if _required(sp[1])]
    given = []
    color_seen = nocolor_seen = False
    runs, cur = [], None
    after_dd = False
    i = 0

    def word(tok, dash):
        nonlocal cur
        if cur is None:
            cur = []
            runs.append(cur)
        cur.append((tok, dash))

    def noarg(sp):
        b = _base(sp[1])
        return b in ("flag", "flagoff", "nocolor", "count", "help", "version") or b.startswith("const=")

    def act(sp):
        nonlocal nocolor_seen
        dd_, b = _dest(*sp), _base(sp[1])
        if b == "flag":
            ns[dd_] = True
        elif b == "flagoff":
            ns[dd_] = False
        elif b.startswith("const="):
            ns[dd_] = dec_str(b[6:])
        elif b == "nocolor":
            nocolor_seen = True
        elif b == "count":
            ns[dd_] = (ns.get(dd_) or 0) + 1 if isinstance(ns.get(dd_) or 0, int) else ns.get(dd_)

    while i < len(rest):
        t = rest[i]
        i += 1
        if after_dd:
            word(t, False)
            continue
        if t == "--":
            after_dd = True
            word(t, True)
            continue
        r = _resolve(t, table)
        if r == "word":
            word(t, False)
            continue
        cur = None
        if r == "unknown":
            return REJ                    # reported at the end of the scan (`_expect` weakens this when help may follow)
        spec, single, att = r
        # -xyz: options without argument are peeled off, one character each
        todo = []
        while att is not None and single and noarg(spec):
            if att == "":
                return REJ
            todo.append(spec)
            nxt = "-" + att[0]
            if nxt not in table:
                return REJ
            spec, att = table[nxt], (att[1:] or None)
        # the token is matched as a whole before any of its actions runs
        if att is not None and noarg(spec):
            return REJ                    # --flag=value
        kind = _base(spec[1])
        nxt_is_word = i < len(rest) and rest[i] != "--" and _resolve(rest[i], table) == "word"
        if kind in VALUE_KINDS and att is None and not nxt_is_word:
            return REJ                    # expected one argument
        # the actions, in order
        for sp in todo:
            if _is_info(sp):
                return ("exit", 0, _info_text(sp[1]))
            act(sp)
        if _is_info(spec):
            return ("exit", 0, _info_text(spec[1]))
        given.extend(todo + [spec])
        d = _dest(*spec)
        if noarg(spec):
            act(spec)
        elif kind in VALUE_KINDS:
            if att is not None:
                raw = att
            else:
                raw = rest[i]
                i += 1
            ok, val = _convert(spec[1], raw)
            if not ok:
                return REJ                # invalid int value / invalid choice
            ns[d] = val
        elif kind == "color":
            color_seen = True
            if att is not None:
                v = att
            elif nxt_is_word:
                v = rest[i]
                i += 1
            else:
                v = None
            if v is not None and v not in COLOR_CHOICES:
                return REJ
            ns[d] = v
        if color_seen and nocolor_seen:
            return REJ
    if any(sp not in given for sp in required):
        return REJ                        # a required option of this command was not supplied
    # the words
    if len(runs) > 1 or (runs and not poss):
        return REJ
    if poss:
        strs, kind = poss[0]
        run = runs[0] if runs else []
        words = [w for w, dash in run if not dash]
        has_dash = len(words) != len(run)
        if kind in ("pos1", "pos?") and has_dash and len(run) > 1:
            return None                   # '--' next to a single-word positional: argparse's pattern details
        if kind == "pos*":
            ns[strs[0]] = words
        elif kind == "pos+":
            if not words:
                return REJ
            ns[strs[0]] = words
        elif kind == "pos1":
            if len(words) != 1:
                return REJ
            ns[strs[0]] = words[0]
        else:
            if len(words) > 1:
                return REJ
            ns[strs[0]] = words[0] if words else None
    if nocolor_seen:
        ns.pop("color", None)             # what --no-color does to `color` is the code's choice, not the statement's
    return ("ns", ns)


def _fmt_ns(cmd, ns):
    d = dict(ns)
    d["command"] = cmd
    return "ok " + " ".join("%s=%s" % (enc_str(k), _show_val(v)) for k, v in sorted(d.items()))


def _ns_mismatch(cmd, ns, rep):
    """None when the reply is a namespace holding every attribute the statement predicts with the predicted value
    (further attributes — e.g. of standard options added to the source later — are not the statement's business)"""
    if not rep.startswith("ok"):
        return "no namespace"
    got = dict(item.split("=", 1) for item in rep.split()[1:])
    want = dict(ns)
    want["command"] = cmd
    for k, v in sorted(want.items()):
        if got.get(enc_str(k)) != _show_val(v):
            return "attribute %s is %s, not %s" % (k, got.get(enc_str(k), "absent"), _show_val(v))
    return None


def oracle(case, replies, group_local=False):
    """`group_local=True` states the property with options added through a group object taken as local to the
    parser that owns the group (what the code does, known finding group_options_not_inherited); used by the matcher"""
    lines = case["lines"]
    if not lines or not lines[0].startswith("new "):
        return None                       # the single-command ArgParser is outside the statement: tie only
    args = lines[0].split()[1:]
    sw = _sw(args[0])
    dflt = None if args[1] == "-" else dec_str(args[1])
    decl_strs = [dec_str(a) for a in args[2:]]
    decls, valid, anc = _o_graph(decl_strs)
    if not valid:
        return None       # outside the quantifier (malformed, or blanks / empty pieces in a parent list): no claim
    if replies[0] != "ok":
        return "construction: acyclic declaration %r -> %s" % (decl_strs, replies[0])
    names = [n for n, _, _ in decls]
    public = [n for n, internal, _ in decls if not internal]
    if dflt is None:
        dflt = public[0] if public else None
    std = _std_specs(sw["_no_log"])
    has = {n: list(std) for n in names}               # specs each parser must accept, by the statement
    sess = None
    alive = True
    for line, rep in zip(lines[1:], replies[1:]):
        op, *a = line.split()
        via_group = op == "optg"
        if via_group:
            op, a = "opt", [a[0]] + a[2:]          # an option added to a command's parser, through one of its groups
        if op == "opt" and alive:
            target = None if a[0] == "*" else dec_str(a[0])
            kind, strs = a[1], [dec_str(x) for x in a[2:] if not x.startswith("+")]
            extra_toks = [x for x in a[2:] if x.startswith("+")]
            if target is not None and target not in names:
                continue                               # get_cmd_parser raises; nothing is added
            if not _plain_argparse_accepts(kind, strs, extra_toks):
                alive = False                          # argparse itself refuses this declaration: no claim
                continue
            recv = [n for n in names if target is None or n == target or (target in anc[n] and not (via_group and group_local))]
            conflict = not kind.startswith("pos") and any(
                s in strs for n in recv for ss, k in has[n] if not k.startswith("pos") for s in ss)
            if conflict or rep != "ok":
                if not conflict:
                    return "add-option: %s %s on %r is refused (%s) although no receiving parser has these strings" % (
                        kind, strs, target, rep)
                alive = False                          # conflicting placement: no claim about the rest
                continue
            for n in recv:
                has[n].append((strs, kind))
        elif op == "lst" and alive:
            argv = [dec_str(x) for x in a]
            want = "L:" + "/".join(enc_str(x) for x in argv)
            if rep != want:
                return "caller-list: parse_args(%r) left the caller's list as %s" % (argv, rep)
        elif op in ("parse", "parse2", "parsev", "parset") and alive:
            argv = [dec_str(x) for x in a]
            if op == "parse2":
                parts = rep.split(" | ")
                if len(parts) != 2:
                    return "repeat: malformed reply %s" % rep
                rep = parts[0]
                if parts[1] != parts[0]:
                    return "repeat: %r -> %s, parsed again from the same list object -> %s" % (argv, parts[0], parts[1])
            if not argv and sw["_help_if_no_args"]:
                if not rep.startswith("err SystemExit"):
                    return "help: no arguments with _help_if_no_args -> %s" % rep
                continue
            first = argv[0] if argv else None
            if first in ("-h", "--help"):
                if not rep.startswith("err SystemExit"):
                    return "help: %r -> %s" % (argv, rep)
                continue
            if first not in public:
                # not a command name: parsed as the default command
                if dflt is None or dflt not in public:
                    continue
                if sess is None:
                    sess = _Session()
                    for l2 in lines:
                        if not l2.startswith("parse"):
                            sess.line(l2)
                want = sess.parse([dflt] + argv)
                if rep != want:
                    # known finding c19b, and nothing else: the first word is the name of an internal '!' option
                    # set, the code exits with 'invalid choice' and the default command would have accepted it (or shown its help)
                    c19b = (first in names and first not in public and rep == "err SystemExit 2"
                            and (want.startswith("ok ") or want.startswith("err SystemExit 0")))
                    kind = "default-internal-name" if c19b else "default-command"
                    return "%s: %r -> %s but %r -> %s" % (kind, argv, rep, [dflt] + argv, want)
                cmd, rest = dflt, argv
            else:
                cmd, rest = first, argv[1:]
            exp = _expect(rest, has[cmd])
            if exp is None:
                continue
            if exp[0] == "exit":
                if not rep.startswith("err SystemExit"):
                    return "rejects: command %r must reject %r, got %s" % (cmd, rest, rep)
                if exp[1] == "rej" and rep.split()[2:3] == ["0"]:
                    return "rejects: command %r must reject %r (non-zero status), got %s" % (cmd, rest, rep)
                if exp[1] == 0:
                    want = "err SystemExit 0" + ("" if exp[2] is None else " V:" + enc_str(exp[2]))
                    if rep != want:
                        return "accepts: command %r has the %s option in %r: it must print %s and exit with status 0, got %s" % (
                            cmd, "help" if exp[2] is None else "version", rest,
                            "its help" if exp[2] is None else repr(exp[2]), rep)
            else:
                bad = _ns_mismatch(cmd, exp[1], rep)
                if bad:
                    return "accepts: command %r with %r must give %s, got %s (%s)" % (cmd, rest, _fmt_ns(cmd, exp[1]), rep, bad)
    return None


def _is_c19b(case):
    msg = oracle(case, impl(case))
    return msg is not None and msg.startswith("default-internal-name")


def _is_group_finding(case):
    """the failure is there, the case adds an option through a group object, and nothing is wrong once such options
    are read as local to the parser owning the group"""
    if not any(l.startswith("optg ") for l in case["lines"]):
        return False
    rep = impl(case)
    return oracle(case, rep) is not None and oracle(case, rep, group_local=True) is None


KNOWN = {"c19b_internal_name_as_command": _is_c19b, "group_options_not_inherited": _is_group_finding}


# ------------------------------------------------------------------ generators
# names that contain each other, share prefixes, contain '-', '_', digits, upper case; substrings of '-h--help'
NAMES = ["a", "b", "c", "d", "e", "f", "g", "run", "build", "cmd1", "cmd10", "x_y", "opts", "o", "base", "ab", "abc",
         "log", "log-all", "log_all", "lo", "st", "status", "show", "show-all", "Log", "LOG", "x-1", "2fa", "h", "help", "he",
         "hel", "l", "p", "options", "opt"]
# option strings with abbreviation structure (prefixes of each other and of the standard ones)
LONGS = ["--fa", "--fb", "--gc", "--gd", "--alpha", "--alp", "--beta", "--dry-run", "--dry", "--x", "--out", "--output",
         "--in-dir", "--arg-one", "--arg-two", "--arg", "--col", "--verb", "--no", "--he", "--colors",
         # names that command line tools conventionally give a meaning of their own
         "--version", "--about", "--usage", "--build-info", "--debug", "--quiet", "--config", "--num", "--level"]
SHORTS = ["-a", "-b", "-d", "-e", "-o", "-q", "-f", "-g", "-V", "-n", "-Q"]
VERSIONS = ["1.0", "tool-1.2", "v7", "2024.03-rc1"]
CHOICE_SETS = [["lo", "hi"], ["a", "b", "c"], ["1", "2"], ["never", "w1"]]
INTWORDS = ["5", "-3", "007", "1_0", "0", "12", "42", "x1", "3x", "1_", "w"]
POS = ["items", "files"]
WORDS = ["w", "w1", "zz", "always", "never", "auto", "0", "x=y", "items", "-", "", "-1", "-42", "h", "help", "e"]
UNKNOWN = ["--zz", "-z", "--unknown", "--zz=1", "-zf", "--z"]
STD_TOKS = ["-v", "--verbose", "--color", "--no-color", "--color=always", "--color=never", "--color=bad", "--color=auto",
            "-vv", "-vvv", "--verb", "--v", "--c", "--col=never", "--no-c", "--n", "--co", "--colo=1"]
HELPISH = ["-", "--", "", "h", "help", "e", "l", "p", "--h", "--he", "--hel", "-h-", "-h--", "-hx", "--help=1", "he", "lp"]


def _k(base, dest=None, const=None):
    k = base if const is None else "const=" + enc_str(const)
    return k if dest is None else k + "@" + enc_str(dest)


# options that store into one attribute (store_true/store_false pairs, store_const switches, explicit dest=)
def _req(kind):
    b, at, d = kind.partition("@")
    return b + "!" + at + d


FAMILIES = [
    [(_k("flag", "cache"), ["--cache"]), (_k("flagoff", "cache"), ["--no-cache"])],
    [(_k("const", "fmt", "json"), ["--json"]), (_k("const", "fmt", "yaml"), ["-y", "--yaml"]), (_k("value", "fmt"), ["--format"])],
    [(_k("flag", "mode"), ["--fast"]), (_k("flagoff", "mode"), ["--slow"]), (_k("const", "mode", "x"), ["-x"])],
    [(_k("value", "target"), ["--out"]), (_k("value", "target"), ["-t", "--to"])],
    [(_k("flagoff"), ["--quiet"]), (_k("const", None, "7"), ["--seven"])],
]


def _render_decl(rng, name, internal, parents, sloppy):
    s = ("!" if internal else "") + name
    if parents or (sloppy and rng.random() < 0.2):
        ps = list(parents)
        if sloppy:
            if ps and rng.random() < 0.3:
                ps.insert(rng.randrange(len(ps) + 1), rng.choice(ps))       # repeated parent
            if rng.random() < 0.3:
                ps.insert(rng.randrange(len(ps) + 1), rng.choice(["", " ", "\t"]))   # empty piece
            ps = [rng.choice(["", " ", "  ", "\t", "\x0b", "\x1f", "\xa0", " "]) + p + rng.choice(["", " ", " \t", "　", "\x0c"])
                  for p in ps]
        s += ":" + ",".join(ps)
    return s


def _gen_graph(rng, big):
    """list of (name, internal, parents) — parents refer to earlier names"""
    n = rng.choice([1, 2, 2, 3, 3, 4, 4, 5, 5, 6, 7] + ([9, 12] if big else []))
    pool = list(NAMES) + ["n%d" % i for i in range(12)]
    if rng.random() < 0.35:
        # a family of names that are substrings / prefixes of each other
        fam = rng.choice([["log", "log-all", "log_all", "lo", "Log", "LOG"], ["st", "status", "show", "show-all", "a"],
                          ["ab", "abc", "a", "base", "b"], ["h", "help", "he", "hel", "l", "p"], ["cmd1", "cmd10", "opt", "opts", "options"]])
        pool = fam + rng.sample(pool, 6)
        names = []
        for x in pool:
            if x not in names:
                names.append(x)
        names = names[:n]
        rng.shuffle(names)
    else:
        names = rng.sample(pool, n)
    shape = rng.choice(["chain", "forest", "diamond", "random", "random", "dense", "redundant", "flat", "late-arm"])
    decls = []
    for i, nm in enumerate(names):
        prev = names[:i]
        if not prev or shape == "flat":
            parents = []
        elif shape == "chain":
            parents = [prev[-1]]
        elif shape == "forest":
            parents = [rng.choice(prev)] if rng.random() < 0.7 else []
        elif shape == "diamond":
            # a; b:a; c:a; d:b,c ; then repeat on top
            parents = [prev[0]] if i in (1, 2) else (prev[-2:] if i >= 3 else [])
        elif shape == "dense":
            parents = [p for p in prev if rng.random() < 0.7]
        elif shape == "redundant":
            # a parent together with one of that parent's ancestors
            parents = [prev[-1]] + ([rng.choice(prev[:-1])] if len(prev) > 1 else [])
        elif shape == "late-arm":
            # two arms sharing the root, the second arm declared after the first: r; x:r; y:r; y2:y; z:x,y2
            parents = [prev[0]] if i in (1, 2) else ([prev[2]] if i == 3 else ([prev[1], prev[-1]] if i == 4 else [rng.choice(prev)]))
        else:
            parents = [p for p in prev if rng.random() < 0.35]
        rng.shuffle(parents)
        decls.append([nm, rng.random() < 0.3, parents])
    if all(d[1] for d in decls):
        decls[rng.randrange(len(decls))][1] = False
    return decls, shape


def _spec(rng):
    r = rng.random()
    if r < 0.16:
        return rng.choice(["pos*", "pos*", "pos*", "pos1", "pos?", "pos+"]), [rng.choice(POS)]
    strs = [rng.choice(LONGS)] if rng.random() < 0.65 else [rng.choice(SHORTS)]
    if rng.random() < 0.2:
        strs = [rng.choice(SHORTS), rng.choice(LONGS)]
        if rng.random() < 0.3:
            strs.reverse()
    r = rng.random()
    if r < 0.48:
        return "flag", strs
    if r < 0.55:
        return "value=" + enc_str(rng.choice([OBJ, OBJ, "dflt", ""]) or "d"), strs      # default= an object / a string
    if r < 0.61:
        return "ivalue", strs                                                           # type=int
    if r < 0.67:
        return "cvalue=" + "/".join(enc_str(c) for c in rng.choice(CHOICE_SETS)), strs  # choices=[...]
    if r < 0.71:
        return _info_kind(rng), strs
    return "value", strs


def _info_kind(rng):
    """action='version' (with its text) or action='help'"""
    return "version=" + enc_str(rng.choice(VERSIONS)) if rng.random() < 0.6 else "help"


def _abbrev(rng, s):
    """a proper prefix of a long option string (at least '--' + one character)"""
    if s.startswith("--") and len(s) > 3:
        return s[:rng.randrange(3, len(s))]
    return s


def _use(rng, kind, s):
    if s.startswith("--") and rng.random() < 0.25:
        s = _abbrev(rng, s)
    if _base(kind) in VALUE_KINDS:
        w = rng.choice(WORDS[:5])
        if _base(kind) == "ivalue":
            w = rng.choice(INTWORDS)
        elif _base(kind) == "cvalue":
            w = rng.choice(_choices(kind) * 3 + WORDS[:3])
        if s.startswith("--"):
            return [s + "=" + w] if rng.random() < 0.4 else [s, w]
        r = rng.random()
        return [s + w] if r < 0.25 else [s + "=" + w] if r < 0.4 else [s, w]
    return [s]


def _cluster(rng, shorts):
    """-xyz built from the short options in play (flags first, maybe a value option last) and -v"""
    flags = [s for k, s in shorts if _base(k) not in VALUE_KINDS] + ["-v"]
    vals = [s for k, s in shorts if _base(k) in VALUE_KINDS]
    t = "-" + "".join(rng.choice(flags)[1] for _ in range(rng.choice([1, 2, 2, 3])))
    if vals and rng.random() < 0.4:
        t += rng.choice(vals)[1]
        if rng.random() < 0.5:
            return [t + rng.choice(["x", "w1", "=y", "7", "lo"])]
        return [t, rng.choice(WORDS[:4] + ["7", "lo"])] if rng.random() < 0.85 else [t]
    if rng.random() < 0.15:
        t += rng.choice(["z", "h", "-", "=1"])
    return [t]


def _extras(rng, kind):
    """keywords the propagation code copies along: help as text / None / SUPPRESS / '' / omitted, metavar, type, …"""
    if rng.random() < 0.6:
        return ""
    out = [rng.choice(["+help=text", "+help=none", "+help=none", "+help=suppress", "+help=empty"])]
    b = _base(kind)
    if (b in VALUE_KINDS or kind.startswith("pos")) and rng.random() < 0.5:
        out.append("+metavar")          # type= / choices= are kinds of their own (ivalue, cvalue): observable
    if b in ("value", "flag") and "=" not in kind.partition("@")[0] and rng.random() < 0.15 and b == "value":
        out.append("+default=none")
    return " " + " ".join(out)


def _parse_line(argv, twice=False, op=None):
    return " ".join([op or ("parse2" if twice else "parse")] + [enc_str(t) for t in argv])


def _argv_kind(rng):
    """how the argument vector reaches parse_args: a fresh list, the same list object twice, a tuple"""
    r = rng.random()
    return "parse2" if r < 0.15 else "parset" if r < 0.25 else "parse"


CTOR_FAILS = ("unknown-parent", "forward", "self", "dup", "empty", "empty-internal", "no-commands")


def _gen_case(rng, tier, stream):
    big = tier != "quick"
    decls, shape = _gen_graph(rng, big)
    names = [d[0] for d in decls]
    public = [d[0] for d in decls if not d[1]]
    internal = [d[0] for d in decls if d[1]]
    meta = {"kind": stream, "shape": shape}
    sloppy = rng.random() < 0.4
    dstrs = [_render_decl(rng, d[0], d[1], d[2], sloppy) for d in decls]
    dflt = "-"
    if rng.random() < 0.2:
        dflt = enc_str(rng.choice(public))
    sw = "000"
    if rng.random() < 0.12:
        sw = "".join(rng.choice("01") for _ in range(3))
        meta["switches"] = sw
    if stream == "malformed":
        how = rng.choice(["unknown-parent", "forward", "self", "dup", "empty", "empty-internal", "no-commands",
                          "bad-default", "all-internal", "colon-name", "bang-bang"])
        meta["malformed"] = how
        i = rng.randrange(len(dstrs))
        if how == "unknown-parent":
            dstrs[i] += ("," if ":" in dstrs[i] else ":") + "nosuch"
        elif how == "forward":
            dstrs[0] += ("," if ":" in dstrs[0] else ":") + names[-1]
        elif how == "self":
            dstrs[i] += ("," if ":" in dstrs[i] else ":") + names[i]
        elif how == "dup":
            dstrs.insert(rng.randrange(len(dstrs) + 1), rng.choice(["", "!"]) + rng.choice(names))
        elif how == "empty":
            dstrs.insert(rng.randrange(len(dstrs) + 1), rng.choice(["", ":" + names[0], " :"]))
        elif how == "empty-internal":
            dstrs.insert(rng.randrange(len(dstrs) + 1), rng.choice(["!", "!:" + names[0]]))
        elif how == "no-commands":
            dstrs = []
        elif how == "bad-default":
            dflt = enc_str(rng.choice(internal + ["nosuch"]))
        elif how == "all-internal":
            dstrs = [s if s.startswith("!") else "!" + s for s in dstrs]
        elif how == "colon-name":
            dstrs[i] = dstrs[i] + ":" + names[0]          # second ':' belongs to the parent list
        elif how == "bang-bang":
            dstrs[i] = "!" + ("!" + dstrs[i] if not dstrs[i].startswith("!") else dstrs[i])
    lines = ["new " + " ".join([sw, dflt] + [enc_str(s) for s in dstrs]), "deps"]
    if meta.get("malformed") in CTOR_FAILS:
        # the constructor raises: one option and one argv are enough to see that nothing was built
        lines.append("opt * flag " + enc_str("--fa"))
        lines.append(_parse_line([names[0]]))
        return {"lines": lines, "meta": meta}

    # options
    placed = []
    nopt = rng.choice([0, 1, 2, 3, 3, 4, 5, 7])
    used = set()
    the_default = dec_str(dflt) if dflt != "-" else (public[0] if public else None)
    if stream == "free-positional" and the_default:
        # the default command takes free words
        kind = rng.choice(["pos*", "pos*", "pos+", "pos?", "pos1"])
        target = rng.choice([the_default] + [p for d in decls if d[0] == the_default for p in d[2]])
        placed.append((enc_str(target), kind, ["items"]))
        lines.append("opt %s %s %s" % (enc_str(target), kind, enc_str("items")))
    if stream == "shared-dest":
        fam = rng.choice(FAMILIES)
        members = rng.sample(fam, rng.choice([2, len(fam)]) if len(fam) > 2 else 2)
        base_t = rng.choice(names)
        below = [d[0] for d in decls if base_t in d[2]]
        how = rng.choice(["same", "child", "global-first", "global-last", "spread"])
        meta["shared"] = how
        for i, (kind, strs) in enumerate(members):
            if how == "same":
                target = enc_str(base_t)
            elif how == "child":
                target = enc_str(base_t) if i == 0 or not below else enc_str(rng.choice(below))
            elif how == "global-first":
                target = "*" if i == 0 else enc_str(rng.choice(names))
            elif how == "global-last":
                target = "*" if i == len(members) - 1 else enc_str(rng.choice(names))
            else:
                target = enc_str(rng.choice(names))
            if any(s in used for s in strs):
                continue
            used |= set(strs)
            placed.append((target, kind, strs))
            lines.append("opt %s %s%s %s" % (target, kind, _extras(rng, kind), " ".join(enc_str(s) for s in strs)))
    if stream == "required":
        # required=True options on the ArgParser, on parsers and on internal sets; argv below supplies them or not
        for _ in range(rng.choice([1, 1, 2])):
            kind, strs = _spec(rng)
            if kind.startswith("pos") or any(x in used for x in strs):
                continue
            kind = _req("value" if _base(kind) in ("value",) + INFO_KINDS else rng.choice(["value", kind]))
            r = rng.random()
            target = "*" if r < 0.4 else enc_str(rng.choice(internal)) if r < 0.6 and internal else enc_str(rng.choice(names))
            used |= set(strs)
            placed.append((target, kind, strs))
            lines.append("opt %s %s%s %s" % (target, kind, _extras(rng, kind), " ".join(enc_str(s) for s in strs)))
    if stream == "info":
        # help / version actions on owners that have dependents (internal sets, parents), on leaves and on the ArgParser
        owners = [d[0] for d in decls if any(d[0] in e[2] for e in decls)]
        for _ in range(rng.choice([1, 2, 2, 3])):
            _, strs = _spec(rng)
            if strs[0] in POS or any(x in used for x in strs):
                continue
            r = rng.random()
            target = "*" if r < 0.15 else enc_str(rng.choice(owners)) if r < 0.8 and owners else enc_str(rng.choice(names))
            kind = _info_kind(rng)
            used |= set(strs)
            placed.append((target, kind, strs))
            lines.append("opt %s %s%s %s" % (target, kind, _extras(rng, kind), " ".join(enc_str(s) for s in strs)))
    for _ in range(nopt):
        kind, strs = _spec(rng)
        if stream != "conflict" and not kind.startswith("pos"):
            # fresh strings: no conflict can arise (oracle expects success)
            if any(s in used for s in strs):
                continue
        r = rng.random()
        if r < 0.15:
            target = "*"
        elif stream == "malformed" and r < 0.25:
            target = enc_str("nosuch")
        else:
            target = enc_str(rng.choice(names))
        if kind.startswith("pos") and any(k.startswith("pos") for _, k, _ in placed):
            # a second positional only when all are nargs='*' (the modelled shape)
            if rng.random() < 0.9 or kind != "pos*" or any(k.startswith("pos") and k != "pos*" for _, k, _ in placed):
                continue
        used |= set(strs)
        placed.append((target, kind, strs))
        lines.append("opt %s %s%s %s" % (target, kind, _extras(rng, kind), " ".join(enc_str(s) for s in strs)))
    meta["opts"] = len(placed)

    # argv: every (public command, option string) once, with its simplest use
    argvs = []
    pairs = [(c, kind, s) for c in public for (_, kind, strs) in placed if not kind.startswith("pos") for s in strs]
    rng.shuffle(pairs)
    if stream == "shared-dest":
        pairs.sort(key=lambda x: not any(x[2] in strs for fam in FAMILIES for _, strs in fam))
    reqs = [(kind, strs) for (_, kind, strs) in placed if _required(kind)]

    def supply():
        out = []
        for kind, strs in reqs:
            out += _use(rng, kind, rng.choice(strs))
        return out
    for c, kind, s in pairs[: (12 if tier == "quick" else 40)]:
        argvs.append([c] + _use(rng, kind, s) + (supply() if reqs and not _required(kind) and rng.random() < 0.8 else []))
    if reqs:
        for c in public[:5]:
            argvs.append([c] + supply())
            argvs.append([c])
        argvs.append(supply())
    for c in public[:4]:
        argvs.append([c] + [rng.choice(STD_TOKS)])
    # an option in front (no command name): whatever the option is called, the default command gets it
    firsts = [(kind, s) for (_, kind, strs) in placed if not kind.startswith("pos") for s in strs]
    for kind, s in rng.sample(firsts, min(len(firsts), 3)):
        argvs.append(_use(rng, kind, s) + ([rng.choice(WORDS + STD_TOKS)] if rng.random() < 0.3 else []))
    argvs.append([])
    # random argv
    toks_opt = [(kind, s) for (_, kind, strs) in placed if not kind.startswith("pos") for s in strs]
    shorts = [(k, s) for k, s in toks_opt if not s.startswith("--")]
    for _ in range(rng.choice([2, 4, 6]) if tier == "quick" else 12):
        argv = []
        r = rng.random()
        if r < 0.6 and public:
            argv.append(rng.choice(public))
        elif r < 0.63:
            argv.append(rng.choice(["nosuch", "w"] + NAMES[:12]))
        elif r < 0.69:
            # a word derived from a declared name: proper prefix, extension, tail, other case (never a name itself)
            nm = rng.choice(names)
            cand = [nm[:k] for k in range(1, len(nm))] * 2 + [nm + "x", nm + "-all", nm[1:], nm.upper(), nm.capitalize()]
            cand = [c for c in cand if c and c not in names and not c.startswith("-")]
            argv.append(rng.choice(cand) if cand else "w")
        elif r < 0.75 or stream == "free-positional" and r < 0.9:
            argv.append(rng.choice(HELPISH))
        for _ in range(rng.choice([0, 1, 1, 2, 2, 3, 5])):
            r = rng.random()
            if r < 0.42 and toks_opt:
                kind, s = rng.choice(toks_opt)
                argv += _use(rng, kind, s) if rng.random() < 0.9 else [s]
            elif r < 0.5 and shorts:
                argv += _cluster(rng, shorts)
            elif r < 0.66:
                argv.append(rng.choice(STD_TOKS))
                if argv[-1] in ("--color", "--c", "--co") and rng.random() < 0.5:
                    argv.append(rng.choice(["always", "never", "auto", "bad", "1", "--"]))
            elif r < 0.8:
                argv.append(rng.choice(WORDS))
            elif r < 0.85:
                argv.append("--")
            elif r < 0.9:
                argv.append(rng.choice(UNKNOWN))
            elif r < 0.94:
                argv.append(rng.choice(["-h", "--help", "--he", "--h"]))
            else:
                kind, strs = _spec(rng)
                if not kind.startswith("pos"):
                    argv.append(_abbrev(rng, strs[0]) if rng.random() < 0.5 else strs[0])
        argvs.append(argv)
    if stream == "internal-first" and internal:
        o = rng.choice(internal)
        argvs.append([o])
        argvs.append([o, "w"])
    seen = set()
    for argv in argvs:
        if stream != "internal-first" and argv and argv[0] in internal:
            continue
        k = tuple(argv)
        if k in seen:
            continue
        seen.add(k)
        lines.append(_parse_line(argv, op=_argv_kind(rng)))
        r = rng.random()
        if r < 0.08:
            lines.append(" ".join(["lst"] + [enc_str(t) for t in argv]))
        elif r < 0.2:
            lines.append(" ".join(["parsev"] + [enc_str(t) for t in argv]))     # the same vector through sys.argv
    return {"lines": lines, "meta": meta}


def _gen_single(rng, tier):
    """the ArgParser without commands: standard options, add_argument, switches (tie only)"""
    sw = "".join(rng.choice("01") if rng.random() < 0.4 else "0" for _ in range(3))
    lines = ["single " + sw, "deps"]
    placed = []
    used = set()
    for _ in range(rng.choice([0, 1, 2, 3, 4])):
        kind, strs = _spec(rng)
        if kind.startswith("pos") and any(k.startswith("pos") for k, _ in placed):
            continue
        if rng.random() < 0.85 and any(s in used for s in strs):
            continue
        used |= set(strs)
        placed.append((kind, strs))
        target = "*" if rng.random() < 0.92 else enc_str("a")
        lines.append("opt %s %s%s %s" % (target, kind, _extras(rng, kind), " ".join(enc_str(s) for s in strs)))
    toks_opt = [(kind, s) for kind, strs in placed if not kind.startswith("pos") for s in strs]
    shorts = [(k, s) for k, s in toks_opt if not s.startswith("--")]
    argvs = [[], ["-v"], ["--no-color"], ["--color", "never", "-vv"]]
    for _ in range(6 if tier == "quick" else 14):
        argv = []
        for _ in range(rng.choice([0, 1, 2, 2, 3, 4])):
            r = rng.random()
            if r < 0.35 and toks_opt:
                kind, s = rng.choice(toks_opt)
                argv += _use(rng, kind, s)
            elif r < 0.45 and shorts:
                argv += _cluster(rng, shorts)
            elif r < 0.7:
                argv.append(rng.choice(STD_TOKS))
                if argv[-1] == "--color" and rng.random() < 0.5:
                    argv.append(rng.choice(["always", "never", "auto", "bad", "1"]))
            elif r < 0.85:
                argv.append(rng.choice(WORDS))
            elif r < 0.9:
                argv.append("--")
            elif r < 0.95:
                argv.append(rng.choice(UNKNOWN + ["-h", "--he"]))
            else:
                argv.append(rng.choice(LONGS))
        argvs.append(argv)
    seen = set()
    for argv in argvs:
        if tuple(argv) not in seen:
            seen.add(tuple(argv))
            lines.append(_parse_line(argv, op=_argv_kind(rng)))
            r = rng.random()
            if r < 0.1:
                lines.append(" ".join(["lst"] + [enc_str(t) for t in argv]))
            elif r < 0.25:
                lines.append(" ".join(["parsev"] + [enc_str(t) for t in argv]))
    return {"lines": lines, "meta": {"kind": "single", "switches": sw}}


def corpus():
    def case(decls, opts, argvs, dflt="-", kind="corpus", sw="000"):
        lines = ["new " + " ".join([sw, dflt] + [enc_str(d) for d in decls]), "deps"]
        for target, k, strs in opts:
            lines.append("opt %s %s %s" % (target if target == "*" else enc_str(target), k, " ".join(enc_str(s) for s in strs)))
        lines += [_parse_line(a) for a in argvs]
        return {"lines": lines, "meta": {"kind": kind}}
    out = []
    # the diamond of the fixed defect (016eb00) and the redundant parent
    out.append(case(["a", "b:a", "c:a", "d:b,c"], [("a", "flag", ["--fa"]), ("b", "value", ["--fb"]), ("*", "flag", ["-q"])],
                    [["d", "--fa"], ["d", "--fb", "w"], ["c", "--fb", "w"], ["a", "-q"], ["d", "-q", "--color"], []], kind="corpus-diamond"))
    out.append(case(["a", "b:a", "d:a,b"], [("a", "flag", ["--fa"])], [["d", "--fa"], ["b", "--fa"], ["--fa"]], kind="corpus-redundant"))
    # the docstring's example
    out.append(case(["!opts_set1", "cmd1", "cmd2:cmd1,opts_set1"],
                    [("*", "value", ["-s", "--src-dir"]), ("cmd1", "flag", ["-f", "--force"]), ("cmd1", "pos*", ["items"]),
                     ("opts_set1", "flag", ["--gc"])],
                    [["cmd1", "-f", "x", "y"], ["cmd2", "--force", "--gc", "-s", "d"], ["cmd1", "--gc"], ["x", "y"], ["--gc"]],
                    kind="corpus-docstring"))
    # an inherited option makes an abbreviation ambiguous in the descendant only
    out.append(case(["a", "b:a", "c"], [("a", "flag", ["--arg-one"]), ("b", "flag", ["--arg-two"])],
                    [["a", "--arg"], ["b", "--arg"], ["b", "--arg-o"], ["c", "--arg"], ["b", "-h", "--arg"], ["b", "--arg-t"]],
                    kind="corpus-abbrev"))
    # keywords that the propagation copies along, on owners with dependents (diamond), both declaration routes
    c = case(["a", "b:a", "c:a", "d:b,c"], [], [["d", "--fa", "--fb", "x", "--gc", "-q"], ["a", "--fa"], ["c", "--gd"]], kind="corpus-keywords")
    c["lines"][2:2] = ["opt %s flag +help=none %s" % (enc_str("a"), enc_str("--fa")),
                       "opt %s value +help=suppress +metavar %s" % (enc_str("a"), enc_str("--fb")),
                       "opt %s flag +help=text %s" % (enc_str("b"), enc_str("--gc")),
                       "opt * flag +help=none %s" % enc_str("-q"),
                       "opt %s value +help=empty +type %s" % (enc_str("c"), enc_str("--gd"))]
    out.append(c)
    # names inside names, first words inside '-h--help', free positionals on the default command
    out.append(case(["log", "log-all:log", "lo", "all:lo"], [("log", "flag", ["--fa"]), ("lo", "flag", ["--fb"]), ("log", "pos*", ["items"])],
                    [["all", "--fa"], ["all", "--fb"], ["log-all", "--fb"], ["log-all", "--fa"], ["-"], ["--"], [""], ["h"], ["help"],
                     ["--", "x"], ["-", "x"], ["e", "l", "p"]], kind="corpus-names"))
    # help / version actions on an internal set and on a parent: children and grandchildren print and exit 0
    c = case(["!meta", "build:meta", "deploy:build", "clean"], [],
             [["build", "--about"], ["deploy", "-V"], ["deploy", "--usage"], ["deploy", "--build-info"], ["build", "--build-info"],
              ["clean", "--about"], ["deploy", "-V", "--zz"], ["deploy", "--zz", "--usage"], ["deploy", "--jobs", "3", "-V"],
              ["deploy", "--jobs", "x", "-V"], ["--about"]], kind="corpus-info")
    c["lines"][2:2] = ["opt %s version=%s %s %s" % (enc_str("meta"), enc_str("tool-1.2"), enc_str("-V"), enc_str("--about")),
                       "opt %s help +help=text %s" % (enc_str("meta"), enc_str("--usage")),
                       "opt %s ivalue %s" % (enc_str("meta"), enc_str("--jobs")),
                       "opt %s version=%s %s" % (enc_str("build"), enc_str("v7"), enc_str("--build-info"))]
    out.append(c)
    # an option in front, called like something tools treat specially: still the default command's option
    out.append(case(["run", "build:run"], [("run", "flag", ["--version"]), ("*", "flag", ["--about"]), ("build", "flag", ["--usage"])],
                    [["--version"], ["--about"], ["--usage"], ["--version", "--about"], ["build", "--version"], ["--ver"]],
                    kind="corpus-option-first"))
    # any sequence is taken and the caller's object is left alone (6b8603f): tuple, the same list twice, the list afterwards
    c = case(["a", "b:a"], [("a", "flag", ["--fa"]), ("a", "pos*", ["items"])], [], kind="corpus-argv-kinds")
    for op, argv in (("parset", ["--fa"]), ("parset", []), ("parset", ["w"]), ("parset", ["b", "--fa"]), ("lst", ["--fa"]), ("lst", []),
                     ("lst", ["b"]), ("parse2", ["--fa", "w"]), ("parse2", []), ("parsev", ["--fa"])):
        c["lines"].append(_parse_line(argv, op=op))
    out.append(c)
    c = {"lines": ["new 001 - 97 " + enc_str("b:a"), "parset", "lst", "parse2", "single 001", "parset", "lst"],
         "meta": {"kind": "corpus-argv-kinds"}}
    out.append(c)
    return out


GROUP_GRAPHS = [["a", "b:a"], ["!o", "a:o", "b:a"], ["a", "b:a", "c:a", "d:b,c"], ["a", "b", "c:a,b"], ["x", "!o", "a:o", "b:a,x"]]


def _group_cases(rng, tier):
    """an option added through a group object of a command's parser — get_cmd_parser(p).add_mutually_exclusive_group()
    / .add_argument_group() — with children and grandchildren below the owner (known finding: not inherited)"""
    for i in range(10 if tier == "quick" else 40):
        dstrs = rng.choice(GROUP_GRAPHS)
        decls = [_o_decl(d) for d in dstrs]
        owners = [d[0] for d in decls if any(d[0] in e[2] for e in decls)]
        owner = rng.choice(owners)
        grp = "mutex" if i % 2 else "plain"
        s_ = rng.choice(LONGS[:12]) if rng.random() < 0.7 else rng.choice(SHORTS)
        kind = rng.choice(["flag", "flag", "value", "ivalue", "flagoff", _k("const", None, "7"), _info_kind(rng)])
        lines = ["new 000 - " + " ".join(enc_str(d) for d in dstrs),
                 "optg %s %s %s%s %s" % (enc_str(owner), grp, kind, _extras(rng, kind), enc_str(s_))]
        if rng.random() < 0.5:
            lines.append("opt %s flag %s" % (enc_str(rng.choice([d[0] for d in decls])), enc_str("--plain")))
        for name, internal, _, _ in decls:
            if not internal:
                lines.append(_parse_line([name] + _use(rng, kind, s_)))
        lines.append(_parse_line(_use(rng, kind, s_)))
        yield {"lines": lines, "meta": {"kind": "group-" + grp}}


def _c19b_cases():
    def case(decls, opts, argvs):
        lines = ["new " + " ".join(["000", "-"] + [enc_str(d) for d in decls]), "deps"]
        for target, k, strs in opts:
            lines.append("opt %s %s %s" % (enc_str(target), k, " ".join(enc_str(s) for s in strs)))
        lines += [_parse_line(a) for a in argvs]
        return {"lines": lines, "meta": {"kind": "c19b-internal-first"}}
    yield case(["!o", "a:o"], [("a", "pos*", ["items"])], [["o"], ["a", "o"], ["w"]])
    yield case(["!o", "a:o", "b"], [("o", "pos*", ["files"]), ("o", "flag", ["--fa"])], [["o", "--fa"], ["o"]])


WS = [9, 10, 11, 12, 13, 28, 29, 30, 31, 32, 0x85, 0xa0, 0x1680] + list(range(0x2000, 0x200b)) + [
    0x2028, 0x2029, 0x202f, 0x205f, 0x3000]


def _ws_cases(rng, tier):
    """which characters `strip()` removes around a parent: every code point below U+3100 in thorough, the blanks and
    a sample of the others in quick"""
    if tier == "quick":
        cps = WS + [0, 1, 8, 14, 27, 33, 0x200b, 0x200c, 0x2060, 0xfeff, 0x180e] + [rng.randrange(1, 0x3100) for _ in range(120)]
    else:
        cps = [c for c in list(range(0, 0x3100)) + [0xfeff, 0x1d7ce, 0xe0020] if not 0xd800 <= c <= 0xdfff]
    for c in cps:
        yield {"lines": ["new 000 - 97 " + enc_str("b:" + chr(c) + "a" + chr(c)), _parse_line(["b"])],
               "meta": {"kind": "strip-char"}}


def _big_cases(sizes):
    """long parent chains and ladders (construction + inheritance from the far end): depth matters, not only shape"""
    for n in sizes:
        names = [("%04d" % i)[::-1] + "c" for i in range(n)]
        for shape in ("chain", "ladder"):
            decls = []
            for i, nm in enumerate(names):
                if i == 0:
                    decls.append(nm)
                elif shape == "chain" or i < 2:
                    decls.append("%s:%s" % (nm, names[i - 1]))
                else:
                    decls.append("%s:%s,%s" % (nm, names[i - 1], names[i - 2]))     # every step also skips one
            lines = ["new 000 - " + " ".join(enc_str(d) for d in decls),
                     "opt %s flag %s" % (enc_str(names[0]), enc_str("--fa")),
                     "opt %s flag %s" % (enc_str(names[n // 2]), enc_str("--fb")),
                     _parse_line([names[-1], "--fa", "--fb"]), _parse_line([names[n // 2 - 1], "--fb"]),
                     _parse_line(["--fa"])]
            yield {"lines": lines, "meta": {"kind": "big-%s-%d" % (shape, n)}}


def gen_cases(rng, tier):
    n = 5000 if tier == "quick" else 50000
    for c in _c19b_cases():
        yield c
    for c in _big_cases((50, 300, 1200) if tier == "quick" else (50, 300, 1200, 2500)):
        yield c
    for c in _ws_cases(rng, tier):
        yield c
    for i in range(n):
        r = rng.random()
        if r < 0.06:
            yield _gen_single(rng, tier)
            continue
        stream = ("valid" if r < 0.37 else "info" if r < 0.42 else "required" if r < 0.5 else "shared-dest" if r < 0.6 else "free-positional" if r < 0.72
                  else "conflict" if r < 0.82 else "malformed" if r < 0.97 else "internal-first")
        yield _gen_case(rng, tier, stream)
    # last, so that these (known) failures never stand in front of others
    for c in _group_cases(rng, tier):
        yield c
    if tier != "quick":
        for c in search_cases(rng, tier):
            yield c


def search_cases(rng, tier):
    """small exhaustive scope: every DAG on <= 4 commands (parents = any subset of the earlier ones), every
    placement of one flag, every (command, flag) argv; every internal/public marking with >= 1 public"""
    for c in _big_cases((1200, 300, 50)):
        yield c
    names = ["a", "b", "c", "d"]
    for n in (1, 2, 3, 4):
        subsets = []
        for i in range(n):
            subsets.append([list(c) for k in range(i + 1) for c in itertools.combinations(names[:i], k)])
        for parents in itertools.product(*subsets):
            for mask in range(2 ** n - 1):                      # bit set = internal; at least one public
                if n == 4 and mask not in (0, 1, 2, 5):
                    continue
                decls = []
                for i in range(n):
                    decls.append(("!" if mask >> i & 1 else "") + names[i] + (":" + ",".join(parents[i]) if parents[i] else ""))
                public = [names[i] for i in range(n) if not mask >> i & 1]
                lines = ["new 000 - " + " ".join(enc_str(d) for d in decls), "deps"]
                flags = ["--f" + nm for nm in names[:n]]
                for nm, f in zip(names[:n], flags):
                    lines.append("opt %s flag %s" % (enc_str(nm), enc_str(f)))
                lines.append("opt * flag " + enc_str("--all"))
                for c in public:
                    for f in flags + ["--all", "--no-color", "--f"]:
                        lines.append(_parse_line([c, f]))
                lines.append(_parse_line([flags[0]]))
                lines.append(_parse_line([]))
                yield {"lines": lines, "meta": {"kind": "search-exhaustive"}}


# ------------------------------------------------------------------ shrinking, bookkeeping
def shrink(case):
    lines = case["lines"]
    meta = case.get("meta", {})
    parses = [i for i, l in enumerate(lines) if l.startswith("parse")]
    # big steps first: keep a single parse line (and no `deps`), or none at all
    if len(parses) > 1 or "deps" in lines:
        base = [l for l in lines if not l.startswith(("parse", "lst")) and l != "deps"]
        for i in parses:
            yield {"lines": base + [lines[i]], "meta": meta}
        yield {"lines": base, "meta": meta}
    # drop single lines
    for i in range(len(lines) - 1, 0, -1):
        if lines[i].startswith(("parse", "opt", "lst")) or lines[i] == "deps":
            yield {"lines": lines[:i] + lines[i + 1:], "meta": meta}
    if not lines[0].startswith("new "):
        return
    head = lines[0].split()
    decls = head[3:]
    # no switches, no explicit default command
    if head[1] != "000":
        yield {"lines": [" ".join([head[0], "000", head[2]] + decls)] + lines[1:], "meta": meta}
    if head[2] != "-":
        yield {"lines": [" ".join([head[0], head[1], "-"] + decls)] + lines[1:], "meta": meta}
    # drop a declaration nobody refers to
    for i in range(len(decls) - 1, -1, -1):
        nm = _o_decl(dec_str(decls[i]))[0]
        if any(nm in _o_decl(dec_str(d))[2] for d in decls[i + 1:]):
            continue
        if any(l.startswith("opt " + enc_str(nm) + " ") for l in lines):
            continue
        yield {"lines": [" ".join(head[:3] + decls[:i] + decls[i + 1:])] + lines[1:], "meta": meta}
    # drop one parent of one declaration
    for i, d in enumerate(decls):
        ds = dec_str(d)
        if ":" in ds:
            h, par = ds.split(":", 1)
            ps = par.split(",")
            for j in range(len(ps)):
                rest = ps[:j] + ps[j + 1:]
                nd = h + (":" + ",".join(rest) if rest else "")
                yield {"lines": [" ".join(head[:3] + decls[:i] + [enc_str(nd)] + decls[i + 1:])] + lines[1:], "meta": meta}
    # parse once instead of twice, shorten argv
    for i, l in enumerate(lines):
        if l.startswith("parse"):
            op, *toks = l.split()
            if op in ("parse2", "parset", "parsev"):
                yield {"lines": lines[:i] + [" ".join(["parse"] + toks)] + lines[i + 1:], "meta": meta}
            if len(toks) > 2:
                yield {"lines": lines[:i] + [" ".join([op] + toks[:1])] + lines[i + 1:], "meta": meta}
            for j in range(len(toks) - 1, -1, -1):
                yield {"lines": lines[:i] + [" ".join([op] + toks[:j] + toks[j + 1:])] + lines[i + 1:], "meta": meta}


def nontrivial(case, replies):
    if not replies or replies[0] != "ok" or not case["lines"][0].startswith("new "):
        return False
    decls = [_o_decl(dec_str(a)) for a in case["lines"][0].split()[3:]]
    edges = sum(len(d[2]) for d in decls)
    opts = sum(1 for l, r in zip(case["lines"], replies) if l.startswith("opt ") and not l.startswith("opt * ") and r == "ok")
    parses = sum(1 for l in case["lines"] if l.startswith("parse"))
    return edges >= 1 and opts >= 1 and parses >= 2


_ALL_LONG = set(LONGS) | {"--help", "--verbose", "--color", "--no-color"}


def _tok_tags(argv):
    for t in argv[:8]:
        if t == "--":
            yield "tok:--"
        elif t.startswith("--") and t.split("=")[0] not in _ALL_LONG and any(x.startswith(t.split("=")[0]) for x in _ALL_LONG):
            yield "tok:abbreviation"
        elif t in ("", "-"):
            yield "tok:empty-or-dash"
        elif t.startswith("--") and "=" in t:
            yield "tok:--opt=value"
        elif t.startswith("-") and not t.startswith("--") and len(t) > 2 and not t[1:].isdigit():
            yield "tok:-xyz"
        elif t.startswith("-") and t[1:].isdigit():
            yield "tok:negative-number"


def tags(case, replies):
    m = case.get("meta", {})
    yield "stream:" + m.get("kind", "?")
    if "shape" in m:
        yield "shape:" + m["shape"]
    if "shared" in m:
        yield "shared-dest:" + m["shared"]
    if "malformed" in m:
        yield "malformed:" + m["malformed"]
    if "switches" in m:
        yield "switches:" + m["switches"]
    yield "new:" + replies[0]
    for l, r in zip(case["lines"], replies):
        if l.startswith("opt ") or l.startswith("optg "):
            t = l.split()
            if t[0] == "optg":
                yield "opt:via-group:" + t[2]
                t = [t[0], t[1]] + t[3:]
            yield "opt:%s:%s" % (t[2].partition("@")[0].partition("=")[0].rstrip("!"), r)
            if _base(t[2]) in INFO_KINDS and t[1] != "*":
                yield "opt:info-on-" + ("owner-with-dependents" if any(
                    dec_str(t[1]) in _o_decl(dec_str(d))[2] for d in case["lines"][0].split()[3:]) else "leaf")
            if "!" in t[2].partition("@")[0]:
                yield "opt:required"
            if t[2].startswith("value="):
                yield "opt:value-with-default"
            for x in t[3:]:
                if x.startswith("+"):
                    yield "opt:kw:" + x[1:]
        elif l.startswith("lst"):
            yield "lst:" + ("unchanged" if r == "L:" + "/".join(l.split()[1:]) else "changed")
        elif l.startswith("parse"):
            first = r.split(" | ")[0]
            yield l.split()[0] + ":" + " ".join(first.split()[:3] if first.startswith("err") else first.split()[:1])
            argv = [dec_str(x) for x in l.split()[1:]]
            if argv and argv[0].startswith("-") and argv[0] not in ("-", "--", "-h", "--help"):
                yield "argv:option-first"
            if first.startswith("err SystemExit 0 V:"):
                yield "parse:version-printed"
            for t in _tok_tags(argv):
                yield t

LEVEL_TEXT = ("Kernel-checked, on the Lean model the driver executes, for all declaration lists, all histories of successful "
              "add_argument calls and both _no_log settings: (1) declaration syntax read back exactly (decl_syntax). (2) Graph: "
              "eager registration yields exactly the transitive closure of the declared parent relation in every reachable "
              "state; the constructor fails exactly on malformed lists, always with AssertionError; parent order/repetition "
              "irrelevant (closure, build_ok_iff, declare_order_irrelevant). declare_follows_code relates two LEAN definitions: "
              "the executed one-pass `declare` equals the code-shaped parent-by-parent loop `declareByParent`; that the latter "
              "is the Python loop rests on the correspondence. (3) Tables: a parser's specs / option strings are the standard "
              "ones plus those placed on the ArgParser, on the parser or on an ancestor (options_iff, strings_iff, "
              "added_to_all); add_argument fails only on a clash of option strings or an unknown command (add_ok_iff). "
              "(4) Command lines with ONE option, for a public command whose table has no required option and no required "
              "positional (`finishable`): ONE DIRECTION parse_accepts — an option string of the table gives a namespace with its "
              "attribute set, for store_true / store_false / store_const / count (`[cmd, s]`) and value options (`[cmd, s, word]`); "
              "parse_rejects(_short) — `[cmd, --t]` / `[cmd, -x]` is SystemExit(2) when NO option string of the table starts with "
              "`--t` (resp. `-x` is not in the table); abbreviations: a unique extension is read as that option whatever follows "
              "(abbrev_unique), several extensions are an error anywhere before '--' (abbrev_ambiguous). The only IFF is "
              "accepts_iff: for `t = --name` such that every table option it could stand for is a store_true flag, `[cmd, t]` is "
              "parsed iff t is a table string or has exactly one extension. (5) Standard options for such commands: accepted, "
              "-v -> 1, -vv..v -> its length, --no-color -> color False, --color -> None, no_color never returned "
              "(std_accepted, verbose_cluster); `-- w1 w2 ..` goes entirely to a lone nargs='*' positional (dd_words); a "
              "required option in the table makes the bare command exit (required_enforced). (6) Default command: first "
              "public command, inserted for every first word that names no parser (default_is_first_public, "
              "default_cmd_partial, command_dispatch); a second parse_args on the list object the first call modified gives the "
              "same result in both modes (parse_twice); parse_args works on a private copy — tuple = list, the caller's "
              "sequence is unchanged (caller_sequence_untouched; `copiesArgs` is read from the source); an argv whose first "
              "element starts with '-' and is not -h/--help goes to the default command whatever the option is called "
              "(default_cmd_option_first); no_log_file_attr, help_if_no_args, single_mode (--no-color only). "
              "(7) Help / version actions: every option string has one owner in a reachable table (table_unique), so an "
              "option with action='help' / 'version' placed on the ArgParser, the command, a parent or an internal set makes "
              "`[cmd, s, anything…]` end with status 0 and, for version, its text (info_inherited, info_accepted; no "
              "`finishable` needed), while a command not below the owner exits 2 (parse_rejects). Value options: "
              "`[cmd, s, w]` stores int(w) under type=int and exits 2 for a non-integer or a non-member of choices "
              "(parse_accepts). EXCLUDED from the quantifier: the state after an add_argument call that RAISED (e.g. "
              "a:; b:a; c:a; `--x` on c, then `--x` on a -> ArgumentError in c after b was already given `--x`, so b accepts "
              "`--x` although neither b nor an ancestor has it): a failed call is no assignment of an option to a parser; "
              "both sides answer `poisoned` afterwards and the oracle makes no claim. "
              "Standard options and the first-argument test are regenerated from ak/cli_tools.py on every run. Everything "
              "else — in particular every command line with more than one option, value options without the iff, store_false/"
              "store_const/count without a rejection converse beyond parse_rejects, positionals, '=' forms, clusters other "
              "than -vv.. — is established by the correspondence only: a differential run of the compiled model against "
              "the real code (construction outcome, full namespace or SystemExit code per argv, call sequences, sys.argv route) "
              "plus an oracle that computes ancestors from the declarations independently and states acceptance/rejection per "
              "option string (exact strings, -xyz, --opt=value, '--', words, required options; declarations with plain ASCII "
              "blanks included; no claim where an abbreviation is involved, about what --no-color does to `color`, about the "
              "caller's list, about the single-command parser).")
LEVEL_NOTE = ("Known finding group_options_not_inherited: an option added through get_cmd_parser(p).add_mutually_exclusive_group() / "
              ".add_argument_group() bypasses AkArgumentParser.add_argument and reaches no dependent parser "
              "(group_option_not_inherited_counterexample is the kernel-evaluated witness on the model's `addViaGroup`; such "
              "states are outside `Reach`, the oracle reports them, the matcher recognises exactly the cases that are fine once "
              "group options are read as local). default_cmd is `_partial`: the code also keeps a first word that names an internal '!' option set (known finding "
              "c19b; internal_name_gap and default_cmd_internal_name_counterexample state the code's behaviour, "
              "default_cmd_full_if_public_test the full statement under the two-line repair). keywords of add_argument that do not decide the option's kind (help, metavar, type, choices=None, default=None) are carried as opaque data — neither `declare` nor `addOption` inspects them; argparse's scan of one parser is a "
              "modelled function whose agreement with the real argparse is sampled, not proved; model = Python likewise. "
              "Hypotheses kept in the parse-level theorems: `finishable`, no positional named like the option's attribute, "
              "attribute not color/no_color. Trusted: Lean kernel, translator/adapter/oracle in harness/c19.py, argparse.")
TECHNIQUE = ("Lean 4 theorems (induction over the declaration list, transitive closure, option-table invariant over histories, "
             "argparse's token classifier as a specified function) + translator for the standard options and the first-argument "
             "test + correspondence check with call sequences")
