"""C19 — command options are inherited exactly along the declared command graph (ak/cli_tools.py).

A case is one ArgParser: `new` (construction), `deps` (internal dependents map, diagnostic),
`opt` lines (add_argument on the ArgParser `*` or on one command parser) and `parse` lines.
"""
import ast
import contextlib
import io
import itertools
import os

from harness.core import enc_str, dec_str

PROPERTY = "C19"
READY = True
STATEFUL = True
THEOREMS = [
    "C19.std_shape", "C19.decl_syntax",
    "C19.closure", "C19.build_ok_iff", "C19.declare_order_irrelevant",
    "C19.options_iff", "C19.added_to_all", "C19.add_ok_iff",
    "C19.command_dispatch", "C19.parse_accepts", "C19.parse_rejects", "C19.parse_rejects_short", "C19.std_accepted",
    "C19.accepts_iff",
    "C19.default_is_first_public", "C19.default_cmd_partial", "C19.default_cmd_full_if_public_test",
    "C19.internal_name_gap",
    "C19.default_cmd_internal_name_counterexample",
]
RULE = ("one case = one ArgParser: declarations (chains, forests, diamonds, dense DAGs, a parent given together with its own "
        "ancestor, repeated parents, '!' sets; blanks of 13 kinds / empty pieces in the parent list; malformed: "
        "unknown/forward/self parents, duplicate and empty names, no commands, all internal, bad default), 0-7 add_argument "
        "calls (ArgParser itself, public and internal parsers, unknown command; flags, value options, positionals; a stream "
        "with conflicting strings), then argv per (public command, option string) plus random argv (std options, =value "
        "forms, words, unknown options, no command name, unknown first word, -h), 2+ cases with an internal name first "
        "(known finding), every strip() candidate character. non-trivial = a successfully built parser with >= 1 parent "
        "edge, >= 1 option added to a command parser and >= 2 parse lines; distinct by protocol text")
TRUSTED = ["argparse (option matching inside one parser; modelled for exact option strings, --opt=value and words only)"]
ASSUMPTIONS = ["option strings in play are pairwise prefix-free, so no argparse abbreviation applies (hypotheses `hab` of "
               "C19.parse_rejects / C19.accepts_iff; asserted for the generator's pool; the driver answers `ood` otherwise)",
               "argv strings are fresh objects (argparse's mutual-exclusion test compares values with `is`)",
               "after a failed add_argument the ArgParser object is abandoned (both sides answer `poisoned`)"]

HELP_FIRST_DEFAULT = ["-h", "--help"]


# ------------------------------------------------------------------ translator
def _lean_str(s):
    if not all(32 < ord(c) < 127 and c not in "'\\" for c in s):
        raise ValueError("unexpected character in %r" % s)
    return "[" + ", ".join("'%s'" % c for c in s) + "]"


def _lean_list(xs):
    return "[" + ", ".join(xs) + "]"


def _read_source(repo):
    src = open(os.path.join(repo, "ak", "cli_tools.py")).read()
    tree = ast.parse(src)
    cls = [n for n in tree.body if isinstance(n, ast.ClassDef) and n.name == "ArgParser"]
    if len(cls) != 1:
        raise ValueError("class ArgParser not found")
    fns = {n.name: n for n in cls[0].body if isinstance(n, ast.FunctionDef)}
    for need in ("_mk_std_args", "parse_args", "_init_multicmd_parser"):
        if need not in fns:
            raise ValueError("method %s not found" % need)

    # --- _mk_std_args: the add_argument calls, in order
    std, groups = [], set()
    fn = fns["_mk_std_args"]
    pname = fn.args.args[1].arg

    def kw(call, name, default=None):
        for k in call.keywords:
            if k.arg == name:
                return ast.literal_eval(k.value)
        return default

    def visit(stmts, guarded):
        for st in stmts:
            if isinstance(st, ast.If):
                # `if not self._no_log:` — the harness never passes _no_log, the body is executed
                t = st.test
                ok = (isinstance(t, ast.UnaryOp) and isinstance(t.op, ast.Not) and isinstance(t.operand, ast.Attribute)
                      and t.operand.attr == "_no_log")
                if not ok or st.orelse:
                    raise ValueError("unexpected condition in _mk_std_args")
                visit(st.body, True)
            elif isinstance(st, ast.Assign):
                v = st.value
                if (isinstance(v, ast.Call) and isinstance(v.func, ast.Attribute)
                        and v.func.attr == "add_mutually_exclusive_group" and isinstance(v.func.value, ast.Name)
                        and v.func.value.id == pname and len(st.targets) == 1 and isinstance(st.targets[0], ast.Name)
                        and not v.args and not v.keywords):
                    if groups:
                        raise ValueError("more than one mutually exclusive group")
                    groups.add(st.targets[0].id)
                else:
                    raise ValueError("unexpected assignment in _mk_std_args")
            elif isinstance(st, ast.Expr) and isinstance(st.value, ast.Call):
                c = st.value
                if not (isinstance(c.func, ast.Attribute) and c.func.attr == "add_argument"
                        and isinstance(c.func.value, ast.Name)):
                    raise ValueError("unexpected call in _mk_std_args")
                recv = c.func.value.id
                if recv != pname and recv not in groups:
                    raise ValueError("add_argument on an unknown object")
                strings = [ast.literal_eval(a) for a in c.args]
                if not strings or not all(isinstance(s, str) and s.startswith("-") for s in strings):
                    raise ValueError("standard option without option strings")
                known = {"default", "action", "help", "nargs", "choices"}
                if any(k.arg not in known for k in c.keywords):
                    raise ValueError("unexpected keyword in a standard option")
                action, nargs, choices, default = kw(c, "action"), kw(c, "nargs"), kw(c, "choices"), kw(c, "default")
                if action == "count" and nargs is None and choices is None and default == 0:
                    kind = ".count"
                elif action == "store_true" and nargs is None and choices is None and default is None:
                    kind = ".flag"
                elif action is None and nargs == "?" and isinstance(choices, list) and isinstance(default, str):
                    kind = ".optChoice %s %s" % (_lean_list([_lean_str(x) for x in choices]), _lean_str(default))
                else:
                    raise ValueError("standard option of an unmodelled kind: %s" % strings)
                std.append((strings, kind, recv in groups))
            elif isinstance(st, ast.Expr) and isinstance(st.value, ast.Constant):
                pass
            else:
                raise ValueError("unexpected statement in _mk_std_args")
    visit(fn.body, False)

    # --- common_options has argparse's own help option unless add_help=False is passed
    add_help = None
    for node in ast.walk(fns["_init_multicmd_parser"]):
        if (isinstance(node, ast.Assign) and len(node.targets) == 1 and isinstance(node.targets[0], ast.Attribute)
                and node.targets[0].attr == "common_options" and isinstance(node.value, ast.Call)):
            add_help = True
            for k in node.value.keywords:
                if k.arg == "add_help":
                    add_help = bool(ast.literal_eval(k.value))
    if add_help is None:
        raise ValueError("construction of common_options not found")

    # --- parse_args: `for choices in [['-h', '--help'], self.command_parsers]`
    found = None
    for node in ast.walk(fns["parse_args"]):
        if isinstance(node, ast.comprehension) and isinstance(node.iter, ast.List) and len(node.iter.elts) == 2:
            a, b = node.iter.elts
            if isinstance(a, ast.List) and isinstance(b, ast.Attribute) and isinstance(b.value, ast.Name) and b.value.id == "self":
                found = ([ast.literal_eval(x) for x in a.elts], b.attr)
    if found is None:
        raise ValueError("first-argument test of parse_args not found")
    help_first, attr = found
    if attr == "command_parsers":
        all_parsers = True
    elif attr in ("_commands_names", "commands_names", "_command_names", "_public_commands"):
        all_parsers = False
    else:
        raise ValueError("first argument is compared with an unknown collection self.%s" % attr)
    return std, add_help, help_first, all_parsers


def translate(repo):
    std, add_help, help_first, all_parsers = _read_source(repo)
    specs = []
    if add_help:
        specs.append("{ strings := [%s, %s], kind := .help, mutex := false }" % (_lean_str("-h"), _lean_str("--help")))
    for strings, kind, mutex in std:
        specs.append("{ strings := %s, kind := %s, mutex := %s }" % (
            _lean_list([_lean_str(s) for s in strings]), kind, "true" if mutex else "false"))
    body = ("-- GENERATED by harness/c19.py:translate from /repo/ak/cli_tools.py -- do not edit\n"
            "import AkVerif.Model.CliGraph\n"
            "namespace Gen.C19\n"
            "open CliGraph\n"
            "/-- actions every command parser starts with: argparse's help (common_options is built with add_help)\n"
            "and the add_argument calls of `_mk_std_args`, in order -/\n"
            "def std : List OptSpec := [\n  %s ]\n"
            "/-- `for choices in [[...], self.<collection>]` in `parse_args` -/\n"
            "def cfg : Cfg := { std := std, helpFirst := %s, allParsers := %s }\n"
            "end Gen.C19\n" % (",\n  ".join(specs), _lean_list([_lean_str(s) for s in help_first]),
                               "true" if all_parsers else "false"))
    return {"AkVerif/Gen/C19.lean": body}


# ------------------------------------------------------------------ real code
def _mod():
    from ak import cli_tools
    return cli_tools


def _fresh(s):
    """a new str object (never the interned literal argparse holds as a default)"""
    return "".join([c for c in s])


def _show_val(v):
    if v is True:
        return "T"
    if v is False:
        return "F"
    if v is None:
        return "N"
    if isinstance(v, str):
        return "s:" + enc_str(v)
    if isinstance(v, int):
        return "n:%d" % v
    if isinstance(v, list):
        return "l:" + "/".join(enc_str(x) for x in v)
    return "?" + type(v).__name__


def _show_ns(ns):
    return " ".join("%s=%s" % (enc_str(k), _show_val(v)) for k, v in sorted(vars(ns).items()))


class _Session:
    """the adapter: one ArgParser driven by protocol lines"""

    def __init__(self):
        self.p = None
        self.poisoned = False

    def parse(self, toks):
        err, out = io.StringIO(), io.StringIO()
        try:
            with contextlib.redirect_stderr(err), contextlib.redirect_stdout(out):
                ns = self.p.parse_args([_fresh(t) for t in toks])
            return "ok " + _show_ns(ns)
        except SystemExit as e:
            return "err SystemExit %s" % (e.code,)
        except Exception as e:
            return "err " + type(e).__name__

    def line(self, line):
        ct = _mod()
        op, *args = line.split()
        if op == "new":
            self.p, self.poisoned = None, False
            dflt = None if args[0] == "-" else dec_str(args[0])
            cmds = []
            for i, a in enumerate(args[1:]):
                cmds.append((dec_str(a), "help %d" % i if i % 2 else ("help %d" % i, "description %d" % i)))
            try:
                self.p = ct.ArgParser(commands=cmds, default_command=dflt, prog="x")
                return "ok"
            except Exception as e:
                return "err " + type(e).__name__
        if self.p is None:
            return "no-parser"
        if self.poisoned:
            return "poisoned"
        if op == "deps":
            return " ".join(["deps"] + ["%s:%s" % (enc_str(n), "/".join(enc_str(d) for d in q._dependent_parsers))
                                        for n, q in self.p.command_parsers.items()])
        if op == "opt":
            target, kind, strs = args[0], args[1], [dec_str(a) for a in args[2:]]
            try:
                obj = self.p if target == "*" else self.p.get_cmd_parser(dec_str(target))
            except ValueError:
                return "err ValueError"
            kw = {"flag": {"action": "store_true"}, "value": {}, "pos": {"nargs": "*"}}[kind]
            try:
                obj.add_argument(*strs, **kw)
                return "ok"
            except Exception as e:
                self.poisoned = True
                return "err " + type(e).__name__
        if op == "parse":
            return self.parse([dec_str(a) for a in args])
        return "bad-op"


def impl(case):
    s = _Session()
    return [s.line(l) for l in case["lines"]]


def observable(i, line):
    # the dependents map is internal; add_argument's own outcome is not named by observe_at
    # (its effect is observed by the parse lines that follow)
    return not (line.startswith("deps") or line.startswith("opt "))


# ------------------------------------------------------------------ oracle: the property itself
def _o_decl(s):
    """the documented syntax '!name:parent1,parent2' read independently; the last component says whether the
    string is written plainly (no blanks around parents, no empty pieces) — only then the statement speaks about it"""
    head, _, par = s.partition(":")
    internal = head.startswith("!")
    name = head[1:] if internal else head
    parents, plain = [], True
    pieces = par.split(",") if par else []
    if ":" in s and not par:
        plain = False                      # 'name:' with an empty parent list
    for p in pieces:
        if p != p.strip() or not p:
            plain = False
        p = p.strip()
        if p and p not in parents:
            parents.append(p)
    return name, internal, parents, plain


def _o_graph(decl_strs):
    """(decls, valid, anc) — anc[c] = set of proper ancestors, computed from the declarations"""
    decls, seen, valid = [], [], True
    for s in decl_strs:
        name, internal, parents, plain = _o_decl(s)
        if not plain or not name or name in seen or any(p not in seen for p in parents):
            valid = False
        seen.append(name)
        decls.append((name, internal, parents))
    if not decls:
        valid = False
    anc = {}
    if valid:
        for name, _, parents in decls:
            a = set()
            for p in parents:
                a.add(p)
                a |= anc[p]
            anc[name] = a
    return decls, valid, anc


def _std_specs():
    """standard options as the statement names them (color and verbosity), read from a fresh single parser"""
    return [(["-v", "--verbose"], "count", "verbose"), (["--color"], "color", "color"), (["--no-color"], "nocolor", None)]


COLOR_CHOICES = ["auto", "always", "yes", "1", "never", "no", "0"]


def _dest(strs, kind):
    if kind == "pos":
        return strs[0]
    longs = [s for s in strs if s.startswith("--")]
    return (longs[0][2:] if longs else strs[0][1:]).replace("-", "_")


def _expect(rest, acc, all_strings):
    """what the statement implies for the arguments `rest` of a command whose accepted specs are `acc`
    (list of (strings, kind)); returns ('exit',) | ('ns', dict) | None (no claim)"""
    by_str = {}
    for strs, kind in acc:
        if kind != "pos":
            for s in strs:
                by_str[s] = (strs, kind)
    has_pos = [strs[0] for strs, kind in acc if kind == "pos"]
    ns = {}
    for strs, kind in acc:
        d = _dest(strs, kind)
        if kind == "flag":
            ns.setdefault(d, False)
        elif kind == "value":
            ns.setdefault(d, None)
        elif kind == "count":
            ns.setdefault(d, 0)
        elif kind == "color":
            ns.setdefault(d, "auto")
    if len(set(has_pos)) != len(has_pos) or len(has_pos) > 1:
        return None                       # several positionals: argparse's own business
    must_exit = False
    color_seen = nocolor_seen = False
    runs, cur = [], None
    i = 0
    while i < len(rest):
        t = rest[i]
        i += 1
        if t in ("-h", "--help"):
            return ("exit",)
        if not t.startswith("-") or t == "-":
            if cur is None:
                cur = []
                runs.append(cur)
            cur.append(t)
            continue
        cur = None
        name, eq, val = t.partition("=")
        if not t.startswith("--"):
            if len(t) != 2:
                return None
            name, eq, val = t, "", ""
        if name not in all_strings:
            if any(s.startswith(name) for s in all_strings) or len(name) < 3 and not name[1:].isalpha():
                return None               # abbreviation / negative number: outside the claim
            must_exit = True              # an option nobody declared
            continue
        if name not in by_str:
            must_exit = True              # declared elsewhere, not inherited by this command
            continue
        strs, kind = by_str[name]
        d = _dest(strs, kind)
        if kind == "flag":
            if eq:
                must_exit = True
            ns[d] = True
        elif kind == "nocolor":
            if eq:
                must_exit = True
            nocolor_seen = True
        elif kind == "count":
            if eq:
                must_exit = True
            ns[d] = ns.get(d, 0) + 1
        elif kind == "value":
            if eq:
                ns[d] = val
            elif i < len(rest) and (not rest[i].startswith("-") or rest[i] == "-"):
                ns[d] = rest[i]
                i += 1
            else:
                must_exit = True
        elif kind == "color":
            color_seen = True
            if eq:
                v = val
            elif i < len(rest) and (not rest[i].startswith("-") or rest[i] == "-"):
                v = rest[i]
                i += 1
            else:
                v = None
            if v is not None and v not in COLOR_CHOICES:
                must_exit = True
            ns[d] = v
    if color_seen and nocolor_seen:
        must_exit = True
    if len(runs) > 1 or (runs and not has_pos):
        must_exit = True
    if must_exit:
        return ("exit",)
    if has_pos:
        ns[has_pos[0]] = runs[0] if runs else []
    if nocolor_seen:
        ns["color"] = False
    return ("ns", ns)


def _fmt_ns(cmd, ns):
    d = dict(ns)
    d["command"] = cmd
    return "ok " + " ".join("%s=%s" % (enc_str(k), _show_val(v)) for k, v in sorted(d.items()))


def _ns_mismatch(cmd, ns, rep):
    """None when the reply is a namespace holding every attribute the statement predicts with the predicted value
    (further attributes — e.g. of standard options added to the source later — are not the statement's business)"""
    if not rep.startswith("ok"):
        return "no namespace"
    got = dict(item.split("=", 1) for item in rep.split()[1:])
    want = dict(ns)
    want["command"] = cmd
    for k, v in sorted(want.items()):
        if got.get(enc_str(k)) != _show_val(v):
            return "attribute %s is %s, not %s" % (k, got.get(enc_str(k), "absent"), _show_val(v))
    return None


def oracle(case, replies):
    lines = case["lines"]
    if not lines or not lines[0].startswith("new "):
        return None
    args = lines[0].split()[1:]
    dflt = None if args[0] == "-" else dec_str(args[0])
    decl_strs = [dec_str(a) for a in args[1:]]
    decls, valid, anc = _o_graph(decl_strs)
    if not valid:
        return None       # outside the quantifier (malformed, or blanks / empty pieces in a parent list): no claim
    if replies[0] != "ok":
        return "construction: acyclic declaration %r -> %s" % (decl_strs, replies[0])
    names = [n for n, _, _ in decls]
    public = [n for n, internal, _ in decls if not internal]
    if dflt is None:
        dflt = public[0] if public else None
    std = [(s, k) for s, k, _ in _std_specs()]
    has = {n: list(std) for n in names}               # specs each parser must accept, by the statement
    all_strings = set(s for strs, _ in std for s in strs) | {"-h", "--help"}
    sess = None
    alive = True
    for line, rep in zip(lines[1:], replies[1:]):
        op, *a = line.split()
        if op == "opt" and alive:
            target = None if a[0] == "*" else dec_str(a[0])
            kind, strs = a[1], [dec_str(x) for x in a[2:]]
            if target is not None and target not in names:
                continue                               # get_cmd_parser raises; nothing is added
            recv = [n for n in names if target is None or n == target or target in anc[n]]
            conflict = kind != "pos" and any(s in strs for n in recv for ss, k in has[n] if k != "pos" for s in ss)
            if conflict or rep != "ok":
                if not conflict:
                    return "add-option: %s %s on %r is refused (%s) although no receiving parser has these strings" % (
                        kind, strs, target, rep)
                alive = False                          # conflicting placement: no claim about the rest
                continue
            for n in recv:
                has[n].append((strs, kind))
            if kind != "pos":
                all_strings |= set(strs)
        elif op == "parse" and alive:
            argv = [dec_str(x) for x in a]
            first = argv[0] if argv else None
            if first in ("-h", "--help"):
                if not rep.startswith("err SystemExit"):
                    return "help: %r -> %s" % (argv, rep)
                continue
            if first not in public:
                # not a command name: parsed as the default command
                if dflt is None or dflt not in public:
                    continue
                if sess is None:
                    sess = _Session()
                    for l2 in lines:
                        if not l2.startswith("parse"):
                            sess.line(l2)
                want = sess.parse([dflt] + argv)
                if rep != want:
                    # known finding c19b, and nothing else: the first word is the name of an internal '!' option
                    # set, the code exits with 'invalid choice' and the default command would have accepted it
                    c19b = (first in names and first not in public and rep == "err SystemExit 2" and want.startswith("ok "))
                    kind = "default-internal-name" if c19b else "default-command"
                    return "%s: %r -> %s but %r -> %s" % (kind, argv, rep, [dflt] + argv, want)
                cmd, rest = dflt, argv
            else:
                cmd, rest = first, argv[1:]
            exp = _expect(rest, has[cmd], all_strings)
            if exp is None:
                continue
            if exp[0] == "exit":
                if not rep.startswith("err SystemExit"):
                    return "rejects: command %r must reject %r, got %s" % (cmd, rest, rep)
            else:
                bad = _ns_mismatch(cmd, exp[1], rep)
                if bad:
                    return "accepts: command %r with %r must give %s, got %s (%s)" % (cmd, rest, _fmt_ns(cmd, exp[1]), rep, bad)
    return None


def _is_c19b(case):
    msg = oracle(case, impl(case))
    return msg is not None and msg.startswith("default-internal-name")


KNOWN = {"c19b_internal_name_as_command": _is_c19b}


# ------------------------------------------------------------------ generators
NAMES = ["a", "b", "c", "d", "e", "f", "g", "run", "build", "cmd1", "x_y", "opts", "o", "base"]
LONGS = ["--fa", "--fb", "--gc", "--gd", "--alpha", "--beta", "--dry-run", "--x", "--out", "--in-dir"]
SHORTS = ["-a", "-b", "-d", "-e", "-o", "-q"]
POS = ["items", "files"]
WORDS = ["w", "w1", "zz", "always", "never", "auto", "0", "x=y", "items"]
UNKNOWN = ["--zz", "-z", "--unknown", "--zz=1"]
STD_TOKS = ["-v", "--verbose", "--color", "--no-color", "--color=always", "--color=never", "--color=bad", "--color=auto"]


def _check_pool():
    allo = LONGS + SHORTS + ["-v", "--verbose", "--color", "--no-color", "-h", "--help"]
    for x in allo + [u.split("=")[0] for u in UNKNOWN]:
        for y in allo:
            assert x == y or not y.startswith(x), (x, y)


_check_pool()


def _render_decl(rng, name, internal, parents, sloppy):
    s = ("!" if internal else "") + name
    if parents or (sloppy and rng.random() < 0.2):
        ps = list(parents)
        if sloppy:
            if ps and rng.random() < 0.3:
                ps.insert(rng.randrange(len(ps) + 1), rng.choice(ps))       # repeated parent
            if rng.random() < 0.3:
                ps.insert(rng.randrange(len(ps) + 1), rng.choice(["", " ", "\t"]))   # empty piece
            ps = [rng.choice(["", " ", "  ", "\t", "\x0b", "\x1f", "\xa0", "\u2003"]) + p + rng.choice(["", " ", " \t", "\u3000", "\x0c"])
                  for p in ps]
        s += ":" + ",".join(ps)
    return s


def _gen_graph(rng, big):
    """list of (name, internal, parents) — parents refer to earlier names"""
    n = rng.choice([1, 2, 2, 3, 3, 4, 4, 5, 5, 6, 7] + ([9, 12] if big else []))
    pool = list(NAMES) + ["n%d" % i for i in range(12)]
    names = rng.sample(pool, n)
    shape = rng.choice(["chain", "forest", "diamond", "random", "random", "dense", "redundant", "flat"])
    decls = []
    for i, nm in enumerate(names):
        prev = names[:i]
        if not prev or shape == "flat":
            parents = []
        elif shape == "chain":
            parents = [prev[-1]]
        elif shape == "forest":
            parents = [rng.choice(prev)] if rng.random() < 0.7 else []
        elif shape == "diamond":
            # a; b:a; c:a; d:b,c ; then repeat on top
            parents = [prev[0]] if i in (1, 2) else (prev[-2:] if i >= 3 else [])
        elif shape == "dense":
            parents = [p for p in prev if rng.random() < 0.7]
        elif shape == "redundant":
            # a parent together with one of that parent's ancestors
            parents = [prev[-1]] + ([rng.choice(prev[:-1])] if len(prev) > 1 else [])
        else:
            parents = [p for p in prev if rng.random() < 0.35]
        rng.shuffle(parents)
        decls.append([nm, rng.random() < 0.3, parents])
    if all(d[1] for d in decls):
        decls[rng.randrange(len(decls))][1] = False
    return decls, shape


def _spec(rng):
    r = rng.random()
    if r < 0.12:
        return "pos", [rng.choice(POS)]
    strs = [rng.choice(LONGS)] if rng.random() < 0.7 else [rng.choice(SHORTS)]
    if rng.random() < 0.2:
        strs = [rng.choice(SHORTS), rng.choice(LONGS)]
        if rng.random() < 0.3:
            strs.reverse()
    return ("flag" if rng.random() < 0.6 else "value"), strs


def _o_anc(decls):
    anc = {}
    for name, _, parents in decls:
        a = set()
        for p in parents:
            a.add(p)
            a |= anc.get(p, set())
        anc[name] = a
    return anc


def _use(rng, kind, s):
    if kind == "value":
        return [s + "=" + rng.choice(WORDS[:5])] if s.startswith("--") and rng.random() < 0.4 else [s, rng.choice(WORDS[:5])]
    return [s]


def _parse_line(argv):
    return " ".join(["parse"] + [enc_str(t) for t in argv])


def _gen_case(rng, tier, stream):
    big = tier != "quick"
    decls, shape = _gen_graph(rng, big)
    names = [d[0] for d in decls]
    public = [d[0] for d in decls if not d[1]]
    internal = [d[0] for d in decls if d[1]]
    meta = {"kind": stream, "shape": shape}
    sloppy = rng.random() < 0.4
    dstrs = [_render_decl(rng, d[0], d[1], d[2], sloppy) for d in decls]
    dflt = "-"
    if rng.random() < 0.2:
        dflt = enc_str(rng.choice(public))
    if stream == "malformed":
        how = rng.choice(["unknown-parent", "forward", "self", "dup", "empty", "empty-internal", "no-commands",
                          "bad-default", "all-internal", "colon-name", "bang-bang"])
        meta["malformed"] = how
        i = rng.randrange(len(dstrs))
        if how == "unknown-parent":
            dstrs[i] += ("," if ":" in dstrs[i] else ":") + "nosuch"
        elif how == "forward":
            dstrs[0] += ("," if ":" in dstrs[0] else ":") + names[-1]
        elif how == "self":
            dstrs[i] += ("," if ":" in dstrs[i] else ":") + names[i]
        elif how == "dup":
            dstrs.insert(rng.randrange(len(dstrs) + 1), rng.choice(["", "!"]) + rng.choice(names))
        elif how == "empty":
            dstrs.insert(rng.randrange(len(dstrs) + 1), rng.choice(["", ":" + names[0], " :"]))
        elif how == "empty-internal":
            dstrs.insert(rng.randrange(len(dstrs) + 1), rng.choice(["!", "!:" + names[0]]))
        elif how == "no-commands":
            dstrs = []
        elif how == "bad-default":
            dflt = enc_str(rng.choice(internal + ["nosuch"]))
        elif how == "all-internal":
            dstrs = [s if s.startswith("!") else "!" + s for s in dstrs]
        elif how == "colon-name":
            dstrs[i] = dstrs[i] + ":" + names[0]          # second ':' belongs to the parent list
        elif how == "bang-bang":
            dstrs[i] = "!" + ("!" + dstrs[i] if not dstrs[i].startswith("!") else dstrs[i])
    lines = ["new " + " ".join([dflt] + [enc_str(s) for s in dstrs]), "deps"]
    if meta.get("malformed") in ("unknown-parent", "forward", "self", "dup", "empty", "empty-internal", "no-commands"):
        # the constructor raises: one option and one argv are enough to see that nothing was built
        lines.append("opt * flag " + enc_str("--fa"))
        lines.append(_parse_line([names[0]]))
        return {"lines": lines, "meta": meta}

    # options
    placed = []
    nopt = rng.choice([0, 1, 2, 3, 3, 4, 5, 7])
    used = set()
    for _ in range(nopt):
        kind, strs = _spec(rng)
        if stream != "conflict" and kind != "pos":
            # fresh strings: no conflict can arise (oracle expects success)
            if any(s in used for s in strs):
                continue
        r = rng.random()
        if r < 0.15:
            target = "*"
        elif stream == "malformed" and r < 0.25:
            target = enc_str("nosuch")
        else:
            target = enc_str(rng.choice(names))
        if kind == "pos" and any(k == "pos" for _, k, _ in placed):
            continue
        used |= set(strs)
        placed.append((target, kind, strs))
        lines.append("opt %s %s %s" % (target, kind, " ".join(enc_str(s) for s in strs)))
    meta["opts"] = len(placed)

    # argv: every (public command, option string) once, with its simplest use
    argvs = []
    pairs = [(c, kind, s) for c in public for (_, kind, strs) in placed if kind != "pos" for s in strs]
    rng.shuffle(pairs)
    for c, kind, s in pairs[: (12 if tier == "quick" else 40)]:
        argvs.append([c] + _use(rng, kind, s))
    for c in public[:4]:
        argvs.append([c] + [rng.choice(STD_TOKS)])
    argvs.append([])
    # random argv
    toks_opt = [(kind, s) for (_, kind, strs) in placed if kind != "pos" for s in strs]
    for _ in range(rng.choice([2, 4, 6]) if tier == "quick" else 12):
        argv = []
        r = rng.random()
        if r < 0.65 and public:
            argv.append(rng.choice(public))
        elif r < 0.72:
            argv.append(rng.choice(["nosuch", "w"]))
        for _ in range(rng.choice([0, 1, 1, 2, 2, 3, 5])):
            r = rng.random()
            if r < 0.5 and toks_opt:
                kind, s = rng.choice(toks_opt)
                argv += _use(rng, kind, s) if rng.random() < 0.9 else [s]
            elif r < 0.7:
                argv.append(rng.choice(STD_TOKS))
                if argv[-1] == "--color" and rng.random() < 0.5:
                    argv.append(rng.choice(["always", "never", "auto", "bad", "1"]))
            elif r < 0.82:
                argv.append(rng.choice(WORDS))
            elif r < 0.9:
                argv.append(rng.choice(UNKNOWN))
            elif r < 0.95:
                argv.append(rng.choice(["-h", "--help"]))
            else:
                kind, strs = _spec(rng)
                if kind != "pos":
                    argv.append(strs[0])
        argvs.append(argv)
    if stream == "internal-first" and internal:
        o = rng.choice(internal)
        argvs.append([o])
        argvs.append([o, "w"])
    seen = set()
    for argv in argvs:
        if stream != "internal-first" and argv and argv[0] in internal:
            continue
        k = tuple(argv)
        if k in seen:
            continue
        seen.add(k)
        lines.append(_parse_line(argv))
    return {"lines": lines, "meta": meta}


def corpus():
    def case(decls, opts, argvs, dflt="-", kind="corpus"):
        lines = ["new " + " ".join([dflt] + [enc_str(d) for d in decls]), "deps"]
        for target, k, strs in opts:
            lines.append("opt %s %s %s" % (target if target == "*" else enc_str(target), k, " ".join(enc_str(s) for s in strs)))
        lines += [_parse_line(a) for a in argvs]
        return {"lines": lines, "meta": {"kind": kind}}
    out = []
    # the diamond of the fixed defect (016eb00) and the redundant parent
    out.append(case(["a", "b:a", "c:a", "d:b,c"], [("a", "flag", ["--fa"]), ("b", "value", ["--fb"]), ("*", "flag", ["-q"])],
                    [["d", "--fa"], ["d", "--fb", "w"], ["c", "--fb", "w"], ["a", "-q"], ["d", "-q", "--color"], []], kind="corpus-diamond"))
    out.append(case(["a", "b:a", "d:a,b"], [("a", "flag", ["--fa"])], [["d", "--fa"], ["b", "--fa"], ["--fa"]], kind="corpus-redundant"))
    # the docstring's example
    out.append(case(["!opts_set1", "cmd1", "cmd2:cmd1,opts_set1"],
                    [("*", "value", ["-s", "--src-dir"]), ("cmd1", "flag", ["-f", "--force"]), ("cmd1", "pos", ["items"]),
                     ("opts_set1", "flag", ["--gc"])],
                    [["cmd1", "-f", "x", "y"], ["cmd2", "--force", "--gc", "-s", "d"], ["cmd1", "--gc"], ["x", "y"], ["--gc"]],
                    kind="corpus-docstring"))
    return out


def _c19b_cases():
    def case(decls, opts, argvs):
        lines = ["new " + " ".join(["-"] + [enc_str(d) for d in decls]), "deps"]
        for target, k, strs in opts:
            lines.append("opt %s %s %s" % (enc_str(target), k, " ".join(enc_str(s) for s in strs)))
        lines += [_parse_line(a) for a in argvs]
        return {"lines": lines, "meta": {"kind": "c19b-internal-first"}}
    yield case(["!o", "a:o"], [("a", "pos", ["items"])], [["o"], ["a", "o"], ["w"]])
    yield case(["!o", "a:o", "b"], [("o", "pos", ["files"]), ("o", "flag", ["--fa"])], [["o", "--fa"], ["o"]])


WS = [9, 10, 11, 12, 13, 28, 29, 30, 31, 32, 0x85, 0xa0, 0x1680] + list(range(0x2000, 0x200b)) + [
    0x2028, 0x2029, 0x202f, 0x205f, 0x3000]


def _ws_cases(rng, tier):
    """which characters `strip()` removes around a parent: every code point below U+3100 in thorough, the blanks and
    a sample of the others in quick"""
    if tier == "quick":
        cps = WS + [0, 1, 8, 14, 27, 33, 0x200b, 0x200c, 0x2060, 0xfeff, 0x180e] + [rng.randrange(1, 0x3100) for _ in range(120)]
    else:
        cps = [c for c in list(range(0, 0x3100)) + [0xfeff, 0x1d7ce, 0xe0020] if not 0xd800 <= c <= 0xdfff]
    for c in cps:
        yield {"lines": ["new - 97 " + enc_str("b:" + chr(c) + "a" + chr(c)), _parse_line(["b"])],
               "meta": {"kind": "strip-char"}}


def gen_cases(rng, tier):
    n = 5000 if tier == "quick" else 60000
    for c in _c19b_cases():
        yield c
    for c in _ws_cases(rng, tier):
        yield c
    for i in range(n):
        r = rng.random()
        stream = "valid" if r < 0.72 else "conflict" if r < 0.84 else "malformed" if r < 0.97 else "internal-first"
        yield _gen_case(rng, tier, stream)
    if tier != "quick":
        for c in search_cases(rng, tier):
            yield c


def search_cases(rng, tier):
    """small exhaustive scope: every DAG on <= 4 commands (parents = any subset of the earlier ones), every
    placement of one flag, every (command, flag) argv; every internal/public marking with >= 1 public"""
    names = ["a", "b", "c", "d"]
    for n in (1, 2, 3, 4):
        subsets = []
        for i in range(n):
            subsets.append([list(c) for k in range(i + 1) for c in itertools.combinations(names[:i], k)])
        for parents in itertools.product(*subsets):
            for mask in range(2 ** n - 1):                      # bit set = internal; at least one public
                if n == 4 and mask not in (0, 1, 2, 5):
                    continue
                decls = []
                for i in range(n):
                    decls.append(("!" if mask >> i & 1 else "") + names[i] + (":" + ",".join(parents[i]) if parents[i] else ""))
                public = [names[i] for i in range(n) if not mask >> i & 1]
                lines = ["new - " + " ".join(enc_str(d) for d in decls), "deps"]
                flags = ["--f" + nm for nm in names[:n]]
                for nm, f in zip(names[:n], flags):
                    lines.append("opt %s flag %s" % (enc_str(nm), enc_str(f)))
                lines.append("opt * flag " + enc_str("--all"))
                for c in public:
                    for f in flags + ["--all", "--no-color"]:
                        lines.append(_parse_line([c, f]))
                lines.append(_parse_line([flags[0]]))
                lines.append(_parse_line([]))
                yield {"lines": lines, "meta": {"kind": "search-exhaustive"}}


# ------------------------------------------------------------------ shrinking, bookkeeping
def shrink(case):
    lines = case["lines"]
    meta = case.get("meta", {})
    parses = [i for i, l in enumerate(lines) if l.startswith("parse")]
    # big steps first: keep a single parse line (and no `deps`), or none at all
    if len(parses) > 1 or "deps" in lines:
        base = [l for l in lines if not l.startswith("parse") and l != "deps"]
        for i in parses:
            yield {"lines": base + [lines[i]], "meta": meta}
        yield {"lines": base, "meta": meta}
    # drop single lines
    for i in range(len(lines) - 1, 0, -1):
        if lines[i].startswith("parse") or lines[i].startswith("opt") or lines[i] == "deps":
            yield {"lines": lines[:i] + lines[i + 1:], "meta": meta}
    # drop a declaration nobody refers to
    head = lines[0].split()
    decls = head[2:]
    for i in range(len(decls) - 1, -1, -1):
        nm = _o_decl(dec_str(decls[i]))[0]
        if any(nm in _o_decl(dec_str(d))[2] for d in decls[i + 1:]):
            continue
        if any(l.startswith("opt " + enc_str(nm) + " ") for l in lines):
            continue
        yield {"lines": [" ".join(head[:2] + decls[:i] + decls[i + 1:])] + lines[1:], "meta": meta}
    # drop one parent of one declaration
    for i, d in enumerate(decls):
        ds = dec_str(d)
        if ":" in ds:
            h, par = ds.split(":", 1)
            ps = par.split(",")
            for j in range(len(ps)):
                rest = ps[:j] + ps[j + 1:]
                nd = h + (":" + ",".join(rest) if rest else "")
                yield {"lines": [" ".join(head[:2] + decls[:i] + [enc_str(nd)] + decls[i + 1:])] + lines[1:], "meta": meta}
    # no explicit default command
    if head[1] != "-":
        yield {"lines": [" ".join([head[0], "-"] + decls)] + lines[1:], "meta": meta}
    # shorten argv
    for i, l in enumerate(lines):
        if l.startswith("parse"):
            toks = l.split()[1:]
            if len(toks) > 2:
                yield {"lines": lines[:i] + [" ".join(["parse"] + toks[:1])] + lines[i + 1:], "meta": meta}
            for j in range(len(toks) - 1, -1, -1):
                yield {"lines": lines[:i] + [" ".join(["parse"] + toks[:j] + toks[j + 1:])] + lines[i + 1:], "meta": meta}


def nontrivial(case, replies):
    if not replies or replies[0] != "ok":
        return False
    decls = [_o_decl(dec_str(a)) for a in case["lines"][0].split()[2:]]
    edges = sum(len(d[2]) for d in decls)
    opts = sum(1 for l, r in zip(case["lines"], replies) if l.startswith("opt ") and not l.startswith("opt * ") and r == "ok")
    parses = sum(1 for l in case["lines"] if l.startswith("parse"))
    return edges >= 1 and opts >= 1 and parses >= 2


def tags(case, replies):
    m = case.get("meta", {})
    yield "stream:" + m.get("kind", "?")
    if "shape" in m:
        yield "shape:" + m["shape"]
    if "malformed" in m:
        yield "malformed:" + m["malformed"]
    yield "new:" + replies[0]
    for l, r in zip(case["lines"], replies):
        if l.startswith("opt "):
            yield "opt:" + r
        elif l.startswith("parse"):
            yield "parse:" + " ".join(r.split()[:3] if r.startswith("err") else r.split()[:1])


LEVEL_TEXT = ("Kernel-checked for all declaration lists, all histories of add_argument calls and the stated argv shapes, on the "
              "model the driver executes: the documented declaration syntax is read back exactly (decl_syntax); eager registration "
              "yields exactly the transitive closure of the declared parent relation, in every reachable state, and the "
              "constructor fails exactly on malformed lists, always with AssertionError (closure, build_ok_iff, "
              "declare_order_irrelevant); a parser's option table is the standard options plus the options placed on the "
              "ArgParser, on the parser or on one of its ancestors (options_iff, added_to_all); add_argument fails only on "
              "a real clash of option strings or an unknown command (add_ok_iff); `[cmd, option]` is parsed iff the option "
              "is in the command's table, else SystemExit(2) (parse_accepts, parse_rejects(_short), accepts_iff end to end); "
              "the standard options are accepted by every command (std_accepted); argv not starting with the name of a "
              "declared parser is parsed as the default command = first public command (default_cmd_partial, "
              "default_is_first_public, command_dispatch). Standard options and the first-argument test are regenerated "
              "from ak/cli_tools.py on every run. model = code by a differential run (construction outcome, full namespace "
              "or SystemExit code per argv) and an oracle that computes ancestors from the declarations independently.")
LEVEL_NOTE = ("default_cmd is `_partial`: the code also keeps a first word that names an internal '!' option set (known finding "
              "c19b; internal_name_gap and default_cmd_internal_name_counterexample state the code's behaviour, "
              "default_cmd_full_if_public_test the full statement under the two-line repair). argparse's scan of one parser is "
              "modelled, not verified, for exact option strings, --opt=value and words; abbreviations, -xyz clusters and '--' "
              "are outside the model (driver answers `ood`; never generated). Value-option and namespace-content clauses beyond "
              "[cmd, option(, word)] rest on the correspondence only. Trusted: Lean kernel, translator/adapter/oracle in "
              "harness/c19.py, sampled correspondence.")
TECHNIQUE = ("Lean 4 theorems (induction over the declaration list, transitive closure, option-table invariant over histories) + "
             "translator for the standard options and the first-argument test + correspondence check")
