"""C03 — left-recursive grammars are rejected; accepted grammars always terminate (ak/llparser.py)."""
from harness import ll_common as ll

PROPERTY = "C03"
STATEFUL = True
READY = False
THEOREMS = []
RULE = ("one case = one generated grammar (unbiased / mostly non-left-recursive / shaped / LL(1)-ish / hidden-recursion "
        "generators, names permuted), constructed with smart_factorization True and False, each followed by every token "
        "string up to the tier's length plus sampled sentences; the real constructor and parse run under a line-event "
        "budget (sys.settrace); non-trivial = at least one tree and one ParsingError, or the reference test says "
        "left-recursive; distinct by protocol text")
TRUSTED = ["re (lexemes are found by the harness with the tokenizer's own pattern)",
           "sys.settrace line counter as the observable for non-termination (budget 400000 line events per call)"]
ASSUMPTIONS = []
BUDGET = 400000


def impl(case):
    return ll.impl(case, trace_budget=BUDGET)


def oracle(case, replies):
    ok = False
    for line, rep in zip(case["lines"], replies):
        op = line.split()[0]
        if op == "g":
            spec, smart = ll.dec_g(line)
            ok = rep.startswith("ok")
            if rep == "err BudgetExceeded":
                return "constructor-does-not-terminate: budget of %d line events exceeded (smart=%s)" % (BUDGET, smart)
            if ll.clean(spec):
                ref = ll.left_rec(ll.user_grammar(spec))
                if ref and rep != "err GrammarIsRecursive":
                    return "missed-recursion: a symbol reaches itself without consuming a token, constructor says %r (smart=%s)" % (rep, smart)
                if not ref and rep == "err GrammarIsRecursive":
                    return "false-alarm: no symbol reaches itself without consuming a token, GrammarIsRecursive raised (smart=%s)" % smart
        elif op == "p" and ok:
            if rep == "err BudgetExceeded":
                return "parse-does-not-terminate: budget of %d line events exceeded on input %r" % (BUDGET, ll.dec_p(line))
            if not (rep.startswith("tree ") or rep == "err ParsingError"):
                return "parse-raises: %s on input %r" % (rep[:60], ll.dec_p(line))
    return None


def gen_cases(rng, tier):
    if tier == "quick":
        yield from ll.gen_ll_cases(rng, 1500, 3, sentences=12, hidden_share=0.3, diags=())
    else:
        yield from ll.gen_ll_cases(rng, 30000, 4, sentences=20, extra_long=10, hidden_share=0.3, diags=())
        yield from ll.tiny_grammars(rng, limit=20000, inputs_len=4)


def corpus():
    return [ll.witness_case()]


def search_cases(rng, tier):
    yield from ll.gen_ll_cases(rng, 4000 if tier == "quick" else 40000, 2, sentences=5, hidden_share=0.8, diags=())


def nontrivial(case, replies):
    return ll.nontrivial(case, replies) or case.get("meta", {}).get("ref") == "left-recursive"


shrink = ll.shrink
tags = ll.tags
observable = ll.observable

LEVEL_TEXT = "under construction"
LEVEL_NOTE = ""
TECHNIQUE = "Lean 4 theorems + correspondence check"
