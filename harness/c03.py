"""C03 — left-recursive grammars are rejected; accepted grammars always terminate (ak/llparser.py)."""
from harness import ll_common as ll

PROPERTY = "C03"
STATEFUL = True
READY = True
THEOREMS = ["C03.recCheck_iff", "C03.accepted_no_cycle", "C03.user_cycle_iff", "C03.accepted_user_acyclic",
            "C03.rejected_user_cyclic", "C03.later_stages_total", "C03.ctor_recursive_iff", "C03.nullables_total", "C03.ctor_recursive_hyps_met",
            "C03.ctor_recursive_iff_templates", "C03.ctor_grammarError_templates", "C03.accepted_user_acyclic_templates", "C03.stack_bound", "C03.stack_bound_parse",
            "C03.run_terminates", "C03.parse_terminates", "C03.parse_total", "C03.templates_total", "C03.parse_from_total",
            "C03.parse_from_total_templates"]
RULE = ("one case = one generated grammar (unbiased / mostly non-left-recursive / shaped / LL(1)-ish / hidden-recursion / DFS-bookkeeping "
        "generators, names permuted; 15 % grammars with ProdSequence / ListProds / MapProds keys incl. nullable members and items and recursion THROUGH the "
        "templates in both directions - items / members that start with the container again (a cycle unless brackets consume a "
        "token first) and right recursion X -> (container, X) | () behind bracketed and bracket-less containers; list / map delimiters and assign symbols that are (nullable) non-terminals; the reference "
        "left-recursion test runs on the expanded productions; observer methods (print_detailed_descr, descriptions, str, repr, is_ambiguous) between the parses of a "
        "call sequence and parse with keyword arguments (debug, do_cleanup, src_name, start symbol) - any exception other than "
        "ParsingError afterwards is a violation; layered expression-like grammars of 8-40 levels with "
        "exponentially many token-free paths (constructor must give its verdict within the line budget); "
        "keys that derive nothing ([] or only AnyTokenExcept(every token)) anywhere in an alternative, also in front of the symbol itself, in recursive and non-recursive grammars; a non-terminal occurring 2-3 times in one production; long inputs; two threads on one parser "
        "object for every 40th accepted grammar), constructed with smart_factorization True and False, each followed by every token "
        "string up to the tier's length plus sampled sentences; the real constructor and parse run under a line-event "
        "budget (sys.settrace); non-trivial = at least one tree and one ParsingError, or the reference test says "
        "left-recursive; distinct by protocol text; round 8 dimensions: 4 token configurations whose patterns have CONTEXT assertions (`^`, look-behind, \\b; every lexeme rendered at line starts, behind blanks and glued to its neighbour; str and list-of-lines input), ProdSequence templates with an AnyTokenExcept member at the first / a middle / the last position of the argument list (tag seqax), ListProds without delimiter with and without brackets, item nullable or not (tag nodelim), cycles of 1-3 symbols none of which has a base case - token-tailed or epsilon-only, referred to or not, start symbol inside or outside - and their non-recursive twins (generator nobase), long inputs also for containers (sequence, sequence with AnyTokenExcept, 3 list forms, map) of 150 / 990..1100 / 2000 / 5000 items, each long text parsed with do_cleanup=False AND with the default do_cleanup=True when the derivation tree is at most 250 levels deep (tag cleanup:long)")
TRUSTED = ["re (lexemes are found by the harness with the tokenizer's own pattern)",
           "sys.settrace. Observable of 'parse grows its stack without bound / never returns': the depth of the parse stack at "
           "every push is compared with (len(text)+2) * (keys + terminals + 3). C03.stack_bound_parse proves a bound "
           "(|tokens|+1)*B with SOME B that depends on the grammar only; that the concrete B = keys + terminals + 3 used here is "
           "large enough (ranks are positions among the examined symbols) is NOT kernel-checked - a too small value would show "
           "as a false alarm on the unchanged tree. This depth bound replaced the line-event budget as the observable for "
           "parse (the budget gave false alarms on legitimately exponential backtracking); the parse budget 3*10^7 remains as a "
           "backstop only. Observable of 'the constructor gives no verdict': a budget of 10^6 line events of llparser.py for one "
           "constructor call (HEAD needs about 10^5 for the largest generated grammar, 40 levels)"]
ASSUMPTIONS = ["'GrammarIsRecursive is raised exactly when ...' is a theorem at the level of the recursion check and of the user's "
               "dictionary (C03.recCheck_iff + C03.user_cycle_iff: cycle of the factorised dictionary <=> cycle of the user's "
               "productions w.r.t. their least nullable set) and of the constructor (C03.ctor_recursive_iff, with the success of "
               "the stages that raise OTHER exception classes as explicit hypotheses: terminal names / _create_productions / "
               "factorisation asserts -> AssertionError, skip set / part-1 structure check -> GrammarError; the stages between part 1 and "
               "the recursion check - nullables, FIRST, FOLLOW, table - are proved unable to fail, C03.later_stages_total)",
               "template dictionaries: the driver executes LL.constructGN nonull T - the productions the templates generate (T) and the "
               "item symbols of the ListProds templates without delimiter (nonull, 4th part of the `T=` field) are data supplied by "
               "the harness; the stage ListProds.verify_grammar (delimiter-less list with a nullable item -> GrammarError, raised after "
               "_get_nullables and BEFORE the table and the recursion check) is modelled (LL.verifyTemplates) and "
               "C03.ctor_recursive_iff_templates has its success as hypothesis hVT; C03.ctor_grammarError_templates is the other branch. "
               "The property's 'GrammarIsRecursive exactly when left recursive' therefore reads, for such a list: GrammarError wins",
               "the totality theorems ('returns a tree or raises ParsingError', termination, stack bound) are about the RAW parse "
               "(do_cleanup=False). The default parse(text) then runs the clean-up, a recursive walk over the returned tree outside the "
               "model (the list / map tail walk is iterative since /repo 2cdb1cb, the general descent is not): for trees nested deeper "
               "than CPython's recursion limit allows (a few hundred levels) the default call can end in RecursionError although the "
               "raw parse returned a tree; default-cleanup calls (`px c`, compared as 'a result is returned') are issued on short inputs and on the long ones "
               "- containers of 150 / 990..1100 / 2000 / 5000 items, user-written right recursion of 150 tokens - but ONLY when the "
               "derivation tree of the user's grammar (a container = one node) is at most 250 levels deep; on deeper trees a "
               "RecursionError of the default call is CPython's resource limit and is neither generated nor judged",
               "an alternative given as None is the empty alternative and AnyTokenExcept(*names) is the list of its one-token "
               "alternatives when the model sees them (protocol `!` / field AX=); the harness expands AnyTokenExcept itself: the "
               "SET of tokens is the reference's (token groups - synonym sources + synonym and keyword targets), only the order "
               "among them (iteration order of a Python set) is read from the code; the parser is built from the original "
               "None / AnyTokenExcept objects; terminal names containing `__` are not generated; the names listed in AnyTokenExcept are tokens of the parser's "
               "tokenizer (others are a GrammarError of the expansion, which the model does not see)"]
BUDGET = 1000000          # line events of the constructor
PARSE_BUDGET = 30000000    # backstop only; the observable for a run-away parse is the stack bound


def impl(case):
    return ll.impl(case, trace_budget=BUDGET, parse_budget=PARSE_BUDGET)


def oracle(case, replies):
    first_ok = None
    for op, line, rep, ctx in ll.walk(case, replies):
        if ctx is None:
            continue
        smart = ctx["smart"]
        if op == "g":
            spec = ctx["spec"]
            if ctx["ok"] and first_ok is None:
                first_ok = ctx
            if rep == "err BudgetExceeded":
                return "constructor-does-not-terminate: budget of %d line events exceeded (smart=%s)" % (BUDGET, smart)
            if ll.clean(spec):
                ref = ll.left_rec(ctx["g"])
                # a ListProds without delimiter whose item is nullable: the template's own verify_grammar stage raises
                # GrammarError BEFORE the recursion check (such a list is always left recursive); both classes are accepted by
                # the oracle (the correspondence demands the model's answer, LL.constructGN: GrammarError)
                nul = ll.nullable_set(ctx["g"])
                early = any(td["t"] == "list" and td["args"][2] is None and td["args"][1] in nul
                            for td in spec.get("tdefs", {}).values())
                if ref and rep != "err GrammarIsRecursive" and not (early and rep == "err GrammarError"):
                    return "missed-recursion: a symbol reaches itself without consuming a token, constructor says %r (smart=%s)" % (rep, smart)
                if not ref and rep == "err GrammarIsRecursive":
                    return "false-alarm: no symbol reaches itself without consuming a token, GrammarIsRecursive raised (smart=%s)" % smart
        elif op.startswith("obs") and ctx["ok"] and rep != "ok":
            return "observer-raises: %s gives %s" % (op, rep)
        elif op in ll.PARSE_OPS and ctx["ok"]:
            if rep == "err StackBoundExceeded":
                return ("stack-grows-without-bound: the parse stack exceeds (|tokens|+1)*(number of symbols+3) frames "
                        "on input %s" % ll._short(ll.dec_p(line)))
            if rep == "err BudgetExceeded":
                return "parse-does-not-terminate: budget of %d line events exceeded on input %s" % (PARSE_BUDGET, ll._short(ll.dec_p(line)))
            if rep == "skipped-after-overrun":
                continue
            if ll.p_info(line)[0] is not None and rep == "err AssertionError":
                continue                 # start_symbol_name is not a key of prods_map
            if not (rep.startswith("tree ") or rep == "accepted" or rep == "err ParsingError"):
                return "parse-raises: %s on input %s" % (rep[:60], ll._short(ll.dec_p(line)))
    if case.get("meta", {}).get("threads") and first_ok is not None:
        texts = [ll.dec_p(l) for l in case["lines"] if l.split()[0] == "p"][:40:5]
        if texts:
            msg = ll.thread_check(first_ok["spec"], first_ok["smart"], texts)
            if msg:
                return "threads: " + msg
    return None


def gen_cases(rng, tier):
    if tier == "quick":     # (every line of the real parser is traced here: fewer containers, no 5000-item input)
        yield from ll.gen_long_cases(rng, (150, 700), item_sizes=(rng.randint(990, 1100),), big=False,
                                     shapes=("rec-a", "rec-item", "rec-pair", "rec-nest", "list-delim", "map"))
    else:
        yield from ll.gen_long_cases(rng, (150, 700))
    yield from ll.gen_layered_cases(rng, per_level=1 if tier == "quick" else 4)
    if tier == "quick":
        for i, c in enumerate(ll.gen_ll_cases(rng, 1400, 3, sentences=12, hidden_share=0.22, dfs_share=0.18, tmpl_share=0.15,
                                              diags=(), sent_maxlen=5)):
            if i % 40 == 0 and c["meta"].get("ref") == "ok":
                c["meta"]["threads"] = 1
            yield c
        return
    else:
        yield from ll.gen_ll_cases(rng, 30000, 4, sentences=20, hidden_share=0.22, dfs_share=0.18, tmpl_share=0.15, diags=(), sent_maxlen=5)
        yield from ll.tiny_grammars(rng, limit=20000, inputs_len=4)


def corpus():
    return [ll.witness_case()]


def search_cases(rng, tier):
    yield from ll.gen_ll_cases(rng, 4000 if tier == "quick" else 40000, 2, sentences=5, hidden_share=0.45, dfs_share=0.45, diags=(), sent_maxlen=4)


def nontrivial(case, replies):
    return ll.nontrivial(case, replies) or case.get("meta", {}).get("ref") == "left-recursive"


shrink = ll.shrink
tags = ll.tags
observable = ll.observable

LEVEL_TEXT = ("Kernel-checked on the executable model, for ALL grammars and inputs: the recursion check answers "
              "GrammarIsRecursive iff some symbol of the (factorised) dictionary reaches itself behind nullables, for every "
              "visiting order / assignment of names, and never anything else (C03.recCheck_iff), and that holds iff the "
              "productions the user wrote are left recursive (C03.user_cycle_iff, accepted_user_acyclic, "
              "rejected_user_cyclic). At the level of the constructor the iff (C03.ctor_recursive_iff) is conditional ONLY on the stages "
              "that raise other exception classes (terminal names, skip set, _create_productions, factorisation, part-1 structure "
              "check): nullables, FIRST, FOLLOW and the table are proved unable to fail once part 1 passed "
              "(C03.later_stages_total, C03.nullables_total); the remaining hypotheses are satisfiable and hold whenever the "
              "constructor returns a parser (C03.ctor_recursive_hyps_met), so 'accepted => not left recursive' "
              "is unconditional while 'left recursive => GrammarIsRecursive' assumes no AssertionError / GrammarError stage fails first. The same "
              "iff through the template expansion for the constructor the driver executes (LL.constructGN: generated productions "
              "and delimiter-less list items as data + the templates' verify_grammar stage): C03.ctor_recursive_iff_templates / "
              "accepted_user_acyclic_templates (cycle of the EXPANDED dictionary; the expansion itself is data, C05's subject), with "
              "the extra hypothesis that ListProds.verify_grammar passes; when it does not (delimiter-less list, nullable item) the "
              "constructor raises GrammarError before the recursion check (C03.ctor_grammarError_templates) although the expanded "
              "grammar is left recursive - the model follows the code there. Every accepted grammar "
              "terminates on every token list, returns a tree or raises ParsingError, never IndexError (C03.parse_terminates, "
              "C03.parse_total; with an explicit start symbol C03.parse_from_total) and its stack stays below (|tokens|+1)*B "
              "(C03.stack_bound_parse; C03.templates_total for template dictionaries) - no assumption on the input. These are "
              "statements about the raw parse (do_cleanup=False); the default clean-up is a recursive tree walk outside the model, "
              "bounded by CPython's recursion limit for trees deeper than a few hundred levels (see ASSUMPTIONS). "
              "model = code: constructor outcome and parse results compared on generated grammars (names permuted, hidden-"
              "recursion shapes) with the real constructor and parse under a line-event budget; the pre-fix tree 59c8825~1 is "
              "reported as a VIOLATION by oracle and correspondence.")
LEVEL_NOTE = ("Trusted: Lean kernel (axioms propext, Classical.choice, Quot.sound), harness adapter/oracle, sampled "
              "correspondence; observable of a run-away parse = stack depth above the bound of the theorem (sys.settrace), "
              "line budgets only as backstop.")
TECHNIQUE = "Lean 4 theorems (DFS invariant with blackening order as rank; well-founded 4-tuple measure for the stack machine) + differential testing under a step budget"
