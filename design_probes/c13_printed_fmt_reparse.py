import sys
sys.path.insert(0, '/repo')
from ak.ppobj import *
# C13
recs = [(1,"abc"),(22,"defgh")]
t = PPTable(recs, fmt="a:2-5,b!:1-9;3:2", fields=["a","b"])
print("fresh fmt:", str(t.fmt))
s0 = t.ch_text(no_color=True).plain_text()
print(s0)
f = str(t.fmt)
print("printed fmt:", f)
for how in ("setter", "ctor"):
    try:
        if how == "setter":
            t.fmt = f
            print(t.ch_text(no_color=True).plain_text() == s0)
        else:
            t2 = PPTable(recs, fmt=f, fields=["a","b"])
            print(t2.ch_text(no_color=True).plain_text() == s0)
    except Exception as e:
        print(how, type(e).__name__, e)
