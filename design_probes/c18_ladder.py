import sys
sys.path.insert(0, '/repo')
from ak.xlsread import *
from tests.mock_openpyxl import MockedWorkBook
class P(XlsObject):
    _ATTRS = ['y','m','d']; _NUM_ID_ATTRS = 3
wb = MockedWorkBook([("s", [
 "|Year|Mon|Day|",
 "|2000|Jan|01 |",
 "|    |Feb|01 |",
 "|    |   |02 |",
 "|2001|Jan|05 |",
]), ("f", [
 "|Year|Mon|Day|",
 "|2000|Jan|01 |",
 "|2000|Feb|01 |",
 "|2000|Feb|02 |",
 "|2001|Jan|05 |",
])])
rules = {'y': ('Year', cell_str), 'm': ('Mon', cell_str), 'd': ('Day', cell_str)}
for stop in ("blank all", "blank first"):
    a = read_table(wb['s'], P, rules, stop_on=stop, ladder_format=True)
    b = read_table(wb['f'], P, rules, stop_on=stop)
    print(stop, [x.logic_id for x in a], [x.logic_id for x in b])
    print([ (x.get_attr_origin('y'), x.get_attr_origin('m')) for x in a])
