import sys, random, collections
sys.path.insert(0, '/repo')
from ak import llparser
from ak.llparser import LLParser, TElement, ParsingError, GrammarError
TK = r"""(?P<SPACE>\s+)|(?P<WORD>[a-zA-Z_][a-zA-Z0-9_]*)|(?P<NUMBER>[0-9]+)|(?P<COMMA>,)|(?P<BR_OPEN>\[)|(?P<BR_CLOSE>\])"""
SYN = {'COMMA': ',', 'BR_OPEN': '[', 'BR_CLOSE': ']'}
def configs():
    for br in (True, False):
        for dl in (True, False):
            for nullable in ((False, True) if dl else (False,)):
                for afd in ((None, True, False) if (br and dl) else (None, False)):
                    for opt in ((None, True) if br else (None,)):
                        for smart in (True, False):
                            yield (br, dl, nullable, afd, opt, smart)
def mk(cfg):
    br, dl, nullable, afd, opt, smart = cfg
    item_prods = [('WORD',)] + ([('LIST',)] if br else []) + ([None] if nullable else [])
    return LLParser(TK, synonyms=SYN, productions={
        'E': [('LIST', 'NUMBER')],
        'LIST': llparser.ListProds('[' if br else None, 'ITEM', ',' if dl else None, ']' if br else None,
                                   allow_final_delimiter=afd, optional=opt),
        'ITEM': item_prods,
    }, smart_factorization=smart)
def gen_list(rnd, cfg, depth=0):
    br, dl, nullable, afd, opt, smart = cfg
    n = rnd.choice([0, 0, 1, 1, 2, 3, 4])
    items = []
    for _ in range(n):
        k = rnd.random()
        if nullable and k < 0.25: items.append(None)
        elif br and depth < 2 and k < 0.5: items.append(gen_list(rnd, cfg, depth+1))
        else: items.append(rnd.choice(['a', 'bb', 'c']))
    fin = dl and n > 0 and rnd.random() < 0.35
    return ('L', items, fin)
def sp(rnd): return rnd.choice(["", " ", "  ", "\n "])
def render(rnd, node, cfg):
    br, dl, nullable, afd, opt, smart = cfg
    _, items, fin = node
    parts = []
    for it in items:
        if it is None: parts.append("")
        elif isinstance(it, tuple): parts.append(render(rnd, it, cfg))
        else: parts.append(it)
    sep = ("," if dl else " ")
    s = (sp(rnd) + sep + sp(rnd)).join(parts)
    if fin: s += sp(rnd) + "," 
    if br: s = "[" + sp(rnd) + s + sp(rnd) + "]"
    return s
def expected(node, cfg):
    """returns ('ok', value) or ('err',)"""
    br, dl, nullable, afd, opt, smart = cfg
    eff_afd = afd if afd is not None else (dl and br)
    _, items, fin = node
    vals = []
    for it in items:
        if isinstance(it, tuple):
            r = expected(it, cfg)
            if r[0] == 'err': return r
            vals.append(r[1])
        else: vals.append(it)
    if fin:
        if eff_afd: pass
        elif nullable: vals.append(None)
        elif opt and br: pass
        else: return ('err',)
    # textual ambiguities: trailing explicit empty item is indistinguishable from final delimiter / nothing
    nullable = nullable or (bool(opt) and br)
    if fin and not eff_afd and not cfg[2] and nullable:
        vals.append(None)
    if nullable:
        if eff_afd and vals and vals[-1] is None and not fin:
            # "[a, ]" written as items [a, None]: same text as final delimiter
            vals = vals[:-1]
        if br and items == [None] and not fin: vals = []          # "[ ]" is the empty list
        if not br and vals == [None]: vals = []
    return ('ok', vals)
def actual(x):
    if isinstance(x, TElement): return ('TE', x.name, actual(x.value))
    if isinstance(x, list): return [actual(y) for y in x]
    return x
stats = collections.Counter(); shown = collections.Counter()
for cfg in configs():
    try: p = mk(cfg)
    except (GrammarError, AssertionError) as e:
        stats[('ctor', type(e).__name__)] += 1; continue
    for seed in range(1500):
        rnd = random.Random(hash(cfg) * 7919 + seed)
        node = gen_list(rnd, cfg)
        absent = cfg[4] and rnd.random() < 0.15
        text = (sp(rnd) + ("" if absent else render(rnd, node, cfg)) + " 7")
        exp = ('ok', None) if absent else expected(node, cfg)
        try:
            r = p.parse(text)
            lst = r.value[0] if isinstance(r.value, list) and r.value and isinstance(r.value[0], TElement) else r
            got = ('ok', actual(lst.value) if isinstance(lst, TElement) else lst)
        except ParsingError: got = ('err',)
        except Exception as e: got = ('EXC', type(e).__name__, str(e)[:100])
        if got != exp:
            stats['bad'] += 1
            key = cfg[:5]
            if shown[key] < 1 and sum(shown.values()) < 12:
                shown[key] += 1
                print(cfg, repr(text), "EXP", exp, "GOT", got)
        else: stats['ok'] += 1
print(stats)
