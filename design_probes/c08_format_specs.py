import sys, itertools
sys.path.insert(0, '/repo')
from ak.color import CHText, ColorFmt
R = ColorFmt('RED'); 
texts = [CHText(), CHText("ab"), CHText(R("ab"), "c"), CHText("abcdef", R("gh"))]
bad = 0
for t in texts:
    plain = t.plain_text()
    for fill in [None, '*', '0', ' ', '<', 'x', '>']:
        for align in [None, '<', '>', '^']:
            if fill is not None and align is None: continue
            for width in [None, '0', '1', '3', '7', '12', '07']:
                for ty in ['', 's', 'd']:
                    spec = (fill or '') + (align or '') + (width or '') + ty
                    try: a = CHText.strip_colors(format(t, spec))
                    except ValueError: a = 'ValueError'
                    try: b = format(plain, spec)
                    except ValueError: b = 'ValueError'
                    if a != b:
                        bad += 1
                        if bad < 15: print(repr(plain), repr(spec), repr(a), repr(b))
print("bad", bad)
