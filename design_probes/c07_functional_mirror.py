"""Functional mirror of ak.ghist (RGraph incl. component bumps and included_at) - blueprint for Model/Ghist.lean.
Assumes commit times inside the cut-off windows (all components with reported builds are relevant everywhere)."""
import sys, functools
from c06_functional_mirror import branch_key, cmp_items
FAKE_NB = (8888,)*4; FAKE_NM = (9999,)*4
class Bump:
    def __init__(s, from_bns, to_bn, from_rbs, to_rb): s.from_bns, s.to_bn, s.from_rbs, s.to_rb = from_bns, to_bn, from_rbs, to_rb
    def trivial(s):
        if s.to_rb is None: return not s.from_rbs
        return s.to_rb in s.from_rbs
def rgraph(repo_id, commits, heads, comps):
    """commits: id -> dict(parents, tags:[tuple4], match, pins:{comp:(M,m,p)}); heads: name -> id
       comps: {name: result of rgraph for the component}"""
    sys.setrecursionlimit(10000)
    order = sorted(heads, key=functools.cmp_to_key(lambda a, b: cmp_items(branch_key(a), branch_key(b))))
    cvm = {n: g for n, g in comps.items() if g['bn_map']}
    done, visited, selected = set(), {}, {}
    rc, builds = {}, {}
    prev_builds = set()
    counter = [0]; fake = [10**9]
    bn_map_all = {}
    branches = []   # (name, [rbuild iids incl NM])
    first = True
    for name in order:
        head = heads[name]
        bparents, anc, cur, bn_map = {}, {}, [], {}
        rel = set(cvm)
        def is_cur_build(i): return i in builds and builds[i]['type'] != 'NM' and i not in prev_builds
        def maximal(s):
            s = set(s)
            while True:
                extra = {i for i in s if any(i in anc[j] for j in s)}
                if not extra: return s
                s -= extra
        def find_new(heads_):
            new = set()
            def prs_of(ps):
                prs = set()
                for p in ps:
                    if is_cur_build(p): prs.add(p)
                    else: prs |= bparents[p]
                return maximal(prs)
            def bp(r):
                if is_cur_build(r) or r in bparents: return
                for p in reversed(rc[r]['parents']): bp(p)
                bparents[r] = prs_of(rc[r]['parents'])
                if rc[r]['explicit']: new.add(r)
            for h in reversed(heads_): bp(h)
            return new, prs_of(heads_)
        def mk_bumps(c, pb):
            bumps = {}
            for comp, v in (commits[c].get('pins') or {}).items():
                if comp not in cvm or comp not in rel: continue
                key = (v[0], v[1], v[2], v[2])
                ent = cvm[comp]['bn_map'].get(key)
                cur_rb = ent[1] if ent else None
                from_bns, from_rbs = [], set()
                for prb in sorted(pb):
                    pbump = builds[prb]['bumps'].get(comp)
                    if pbump is None: continue
                    from_bns.append(pbump.to_bn)
                    if pbump.to_rb is not None: from_rbs.add(pbump.to_rb)
                    else: from_rbs |= pbump.from_rbs
                if cur_rb is None and from_rbs: cur_rb = max(from_rbs)
                bumps[comp] = Bump(from_bns, key, from_rbs, cur_rb)
            return bumps
        def classify(c):
            if c in done: return []
            if c in visited: return visited[c]
            return [selected[c]]
        def visit(c):
            if c in done or c in visited or c in selected: return classify(c)
            frontier = []
            for p in reversed(commits[c]['parents']):
                for r in visit(p):
                    if r not in frontier: frontier.append(r)
            is_head = c == head
            m = commits[c]['match']
            if not (m or rel or frontier):
                done.add(c); return []
            is_rbuild = False; new = set(); pb = set(); bns = []; bumps = {}
            if commits[c]['tags'] or is_head:
                new, pb = find_new(frontier)
                bns = sorted(commits[c]['tags'])
                if is_head and not bns: bns = [FAKE_NB]
                bumps = mk_bumps(c, pb)
                is_rbuild = bool(m or new or any(not b.trivial() for b in bumps.values()) or len(pb) > 1)
            if m or is_rbuild:
                iid = counter[0]; counter[0] += 1
                rc[iid] = dict(commit=c, parents=list(frontier), explicit=m)
                selected[c] = iid
                if is_rbuild:
                    rcs = set(new); rcs.add(iid)
                    builds[iid] = dict(iid=iid, commit=c, parents=set(pb), rcommits=rcs, type='N', bn=bns[0], bumps=bumps, included_at=[], branch=name)
                    s = set()
                    for p in pb: s.add(p); s |= anc[p]
                    anc[iid] = s
                    cur.append(iid)
            else:
                if frontier: visited[c] = frontier
                else: done.add(c)
            if bns:
                if c in selected and selected[c] in builds:
                    for bn in bns: bn_map[bn] = selected[c]
                else:
                    for prb in sorted(pb):
                        for bn in bns: bn_map[bn] = prb
            return classify(c)
        rheads = visit(head)
        reach = set(); st = list(rheads)
        while st:
            r = st.pop()
            if r not in reach: reach.add(r); st.extend(rc[r]['parents'])
        nm = set() if first else {i for i, r in rc.items() if r['explicit'] and i not in reach}
        pending = {}
        if cur:
            latest = builds[max(cur)]
            for comp, pbump in latest['bumps'].items():
                incl = pbump.to_rb
                if incl is None: continue
                cb = cvm[comp]['builds'][incl]
                cbranch = cvm[comp]['bn_map'][cb['bn']][0]
                lat = max(cvm[comp]['branch_builds'][cbranch])
                b = Bump([pbump.to_bn], cvm[comp]['builds'][lat]['bn'], {incl}, lat)
                if not b.trivial(): pending[comp] = b
        allb = list(cur)
        if nm or pending:
            iid = fake[0]; fake[0] += 1
            builds[iid] = dict(iid=iid, commit=None, parents=({max(cur)} if cur else set()), rcommits=set(nm), type='NM', bn=FAKE_NM, bumps=pending, included_at=[], branch=name)
            allb.append(iid)
        prev_builds |= set(anc.keys())
        first = False
        branches.append((name, allb))
        for bn, rb in bn_map.items(): bn_map_all[bn] = (name, rb)
    branches = [(n, b) for n, b in reversed(branches) if b]
    # included_at registration in components
    for bname, bl in branches:
        for comp, cg in comps.items():
            for i in sorted(bl):
                b = builds[i]
                if b['type'] == 'NM': continue
                bump = b['bumps'].get(comp)
                if bump is None or bump.to_rb is None: continue
                seen = set(); st = [bump.to_rb]
                while st:
                    x = st.pop()
                    if x in bump.from_rbs or x in seen: continue
                    seen.add(x); st.extend(cg['builds'][x]['parents'])
                for x in seen: cg['builds'][x]['included_at'].append((repo_id, bname, b['bn']))
    return dict(bn_map=bn_map_all, builds=builds, rc=rc, branches=branches,
                branch_builds={n: b for n, b in branches})
def summary(g):
    out = {}
    for name, bl in g['branches']:
        l = []
        for i in sorted(bl, reverse=True):
            b = g['builds'][i]
            ty = b['type']
            if ty == 'N' and b['bn'] == FAKE_NB: ty = 'NB'
            bumps = {c: (bp.to_bn[:3], sorted(x[:3] for x in bp.from_bns)) for c, bp in b['bumps'].items()}
            l.append((ty, b['commit'], sorted(g['rc'][r]['commit'] for r in b['rcommits'] if g['rc'][r]['explicit']), bumps, sorted(b['included_at'])))
        out[name] = l
    return out
