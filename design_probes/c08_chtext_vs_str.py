import sys, random
sys.path.insert(0, '/repo')
from ak.color import CHText, ColorFmt
cols = [ColorFmt(None), ColorFmt('RED'), ColorFmt('GREEN'), ColorFmt('RED', bold=True)]
# model: list of (char, colorindex)
def rnd_text(rnd):
    return "".join(rnd.choice("abc xyz") for _ in range(rnd.randint(0,4)))
def cells_of(ch):
    out=[]
    for c in ch.chunks:
        for x in c.text: out.append((x, c.c_prefix))
    return out
def mk(rnd, depth=0):
    """returns (obj, model cells). obj may be CHText or chunk or str"""
    k = rnd.randint(0, 9 if depth<3 else 2)
    if k == 0:
        s = rnd_text(rnd); return s, [(x,"") for x in s]
    if k in (1,2):
        i = rnd.randrange(len(cols)); s = rnd_text(rnd)
        ch = cols[i](s); return ch, [(x, ch.c_prefix) for x in s]
    if k == 3:
        parts = [mk(rnd, depth+1) for _ in range(rnd.randint(0,3))]
        return CHText(*[p[0] for p in parts]), [c for p in parts for c in p[1]]
    if k == 4:
        a = mk(rnd, depth+1); b = mk(rnd, depth+1)
        if isinstance(a[0], str) and isinstance(b[0], str):
            return CHText(a[0]) + b[0], a[1]+b[1]
        return a[0] + b[0], a[1]+b[1]
    if k == 5:
        a = mk(rnd, depth+1); b = mk(rnd, depth+1)
        x = CHText(a[0]); x += b[0]
        return x, a[1]+b[1]
    if k == 6:
        sep = mk(rnd, depth+1)
        if isinstance(sep[0], str): sep = (CHText(sep[0]), sep[1])
        items = [mk(rnd, depth+1) for _ in range(rnd.randint(0,3))]
        cells=[]
        for i,it in enumerate(items):
            if i: cells += sep[1]
            cells += it[1]
        return sep[0].join([it[0] for it in items]), cells
    if k == 7:
        a = mk(rnd, depth+1)
        if isinstance(a[0], str): a = (CHText(a[0]), a[1])
        n = len(a[1])
        def b(): return rnd.choice([None, rnd.randint(-n-2, n+2)])
        s, e = b(), b()
        return a[0][s:e], a[1][s:e]
    if k == 8:
        a = mk(rnd, depth+1)
        if isinstance(a[0], str): a = (CHText(a[0]), a[1])
        n = len(a[1])
        if n == 0: return a
        i = rnd.randint(-n, n-1)
        return a[0][i], [a[1][i]]
    if k == 9:
        a = mk(rnd, depth+1)
        if isinstance(a[0], str): a = (CHText(a[0]), a[1])
        n = len(a[1]); L = rnd.randint(0, n+3)
        m = a[1][:L] + [(" ","")]*(L-n)
        return a[0].fixed_len(L), m
bad=0
for seed in range(200000):
    rnd = random.Random(seed)
    try:
        obj, model = mk(rnd)
    except Exception as e:
        bad+=1
        if bad<5: print(seed, "EXC", type(e).__name__, e)
        continue
    if isinstance(obj, str): continue
    ch = CHText(obj)
    ok = cells_of(ch) == model and len(obj) == len(model) and obj.plain_text() == "".join(c for c,_ in model)
    # invariants
    ok = ok and all(c.text for c in ch.chunks) and all(a.c_prefix != b.c_prefix for a,b in zip(ch.chunks, ch.chunks[1:]))
    # equality with canonical construction
    canon = CHText(*[CHText.Chunk(p, c, "\033[0m" if p else "") for c,p in model])
    ok = ok and (ch == canon) and (canon == ch)
    if not ok:
        bad+=1
        if bad<5: print(seed, repr(obj), model, ch.chunks)
print("bad", bad)
