import sys, random
sys.path.insert(0, '/repo')
from ak import llparser
from ak.llparser import LLParser, TElement
TK = r"""
(?P<SPACE>\s+)
|(?P<COMMENT_EOL>//.*)
|(?P<WORD>[a-zA-Z_][a-zA-Z0-9_]*)
|(?P<COMMA>,)
|(?P<BR_OPEN>\[)
|(?P<BR_CLOSE>\])
|(?P<BR_OPEN_CURL>\{)
|(?P<BR_CLOSE_CURL>\})
|(?P<COLON>:)
"""
SYN = {'COMMA': ',', 'BR_OPEN': '[', 'BR_CLOSE': ']', 'BR_OPEN_CURL': '{', 'BR_CLOSE_CURL': '}', 'COLON': ':', 'COMMENT_EOL': 'COMMENT'}
def mkparser(afd_list, afd_map, smart=True):
    kw = {}
    return LLParser(TK, synonyms=SYN, productions={
        'E': [('VALUE',)],
        'LIST': llparser.ListProds('[', 'VALUE', ',', ']', allow_final_delimiter=afd_list),
        'VALUE': [('WORD',), ('LIST',), ('MAP',)],
        'MAP': llparser.MapProds('{', 'WORD', ':', 'VALUE', ',', '}', allow_final_delimiter=afd_map),
    }, smart_factorization=smart)
def val(rnd, d=0):
    k = rnd.randint(0, 5 if d < 4 else 1)
    if k <= 1: return rnd.choice(['a','bb','c1','dd_'])
    if k in (2,3): return [val(rnd, d+1) for _ in range(rnd.choice([0,0,1,2,3,5]))]
    n = rnd.choice([0,0,1,2,3])
    return [(rnd.choice(['k','k1','kk','z']), val(rnd, d+1)) for _ in range(n)]  # list of pairs = map (may repeat keys)
def ws(rnd):
    return rnd.choice(["", " ", "  ", "\n", "\n  ", " // cmt\n", "\n\n"])
def render(rnd, v, fin_list, fin_map):
    if isinstance(v, str): return v
    if v and isinstance(v[0], tuple) or (v == [] and rnd.random() < 0):
        pass
    if isinstance(v, list) and (len(v) == 0 or not isinstance(v[0], tuple)) and not getattr(v, 'ismap', False):
        items = [render(rnd, x, fin_list, fin_map) for x in v]
        s = "[" + ws(rnd) + ("," + ws(rnd)).join(i + ws(rnd) for i in items)
        if items and fin_list and rnd.random() < 0.5: s += "," + ws(rnd)
        return s + "]"
class M(list): ismap = True
def val2(rnd, d=0):
    k = rnd.randint(0, 5 if d < 4 else 1)
    if k <= 1: return rnd.choice(['a','bb','c1','dd_'])
    if k in (2,3): return [val2(rnd, d+1) for _ in range(rnd.choice([0,0,1,2,3,5]))]
    n = rnd.choice([0,0,1,2,3])
    return M((rnd.choice(['k','k1','kk','z']), val2(rnd, d+1)) for _ in range(n))
def render2(rnd, v, fin_list, fin_map):
    if isinstance(v, str): return v
    if isinstance(v, M):
        items = [k + ws(rnd) + ":" + ws(rnd) + render2(rnd, x, fin_list, fin_map) for k, x in v]
        s = "{" + ws(rnd) + ("," + ws(rnd)).join(i + ws(rnd) for i in items)
        if items and fin_map and rnd.random() < 0.5: s += "," + ws(rnd)
        return s + "}"
    items = [render2(rnd, x, fin_list, fin_map) for x in v]
    s = "[" + ws(rnd) + ("," + ws(rnd)).join(i + ws(rnd) for i in items)
    if items and fin_list and rnd.random() < 0.5: s += "," + ws(rnd)
    return s + "]"
def expect(v):
    if isinstance(v, str): return v
    if isinstance(v, M): return {k: expect(x) for k, x in v}
    return [expect(x) for x in v]
def actual(x):
    if isinstance(x, TElement):
        return ('TE', x.name, actual(x.value))
    if isinstance(x, list): return [actual(y) for y in x]
    if isinstance(x, dict): return {k: actual(y) for k, y in x.items()}
    return x
bad = 0
parsers = {(a, b, s): mkparser(a, b, s) for a in (True, False) for b in (True, False) for s in (True, False)}
for seed in range(20000):
    rnd = random.Random(seed)
    key = (rnd.random()<0.5, rnd.random()<0.5, rnd.random()<0.5)
    p = parsers[key]
    v = val2(rnd)
    if isinstance(v, str): continue
    text = ws(rnd) + render2(rnd, v, key[0], key[1]) + ws(rnd)
    try:
        r = p.parse(text)
        got = actual(r.value)
        # E keeps; r is E with value? figure out
        exp = expect(v)
        ok = (got == exp) or (isinstance(got, list) and len(got)==1 and got[0] == exp) or (isinstance(got, list) and len(got)==1 and isinstance(got[0], tuple) and got[0][2] == exp)
        if ok and isinstance(exp, dict):
            pass
    except Exception as e:
        ok = False; got = f"EXC {type(e).__name__}: {str(e)[:200]}"
    if not ok:
        bad += 1
        if bad < 5: print(seed, key, repr(text), "\nEXP", expect(v), "\nGOT", got)
print("bad", bad)
