import sys, random
sys.path.insert(0, '/repo')
from ak.ppobj import PPTable, PPEnumFieldType
def rv(rnd):
    k = rnd.randint(0, 6)
    if k == 0: return rnd.randint(-5, 100000)
    if k == 1: return None
    if k == 2: return rnd.choice([True, False])
    if k == 3: return rnd.random() * 100
    return "".join(rnd.choice("ab|+- .xyzWQ") for _ in range(rnd.randint(0, 14)))
bad = 0
import collections
kinds = collections.Counter()
for seed in range(20000):
    rnd = random.Random(seed)
    ncols = rnd.randint(1, 4)
    fields = [f"f{i}" for i in range(ncols)]
    nrec = rnd.choice([0, 1, 2, 3, 5, 8, 12])
    use_enum = rnd.random() < 0.4
    enum = PPEnumFieldType({1: "one", 2: ("two", "name_warn"), 30: "thirty"})
    recs = []
    for _ in range(nrec):
        r = [rv(rnd) for _ in range(ncols)]
        if use_enum: r[0] = rnd.choice([1, 2, 30, 7, None, 12345])
        recs.append(tuple(r))
    cols = []
    chosen = [rnd.choice(fields) for _ in range(rnd.randint(1, 4))]
    specs = []
    for f in chosen:
        s = f
        if use_enum and f == "f0" and rnd.random() < 0.7: s += "/" + rnd.choice(["full", "val", "name"])
        if rnd.random() < 0.3: s += "!"
        k = rnd.randint(0, 3)
        if k == 1:
            w = rnd.randint(0, 8); s += f":{w}"; specs.append((w, w))
        elif k == 2:
            a = rnd.randint(0, 6); b = a + rnd.randint(0, 8); s += f":{a}-{b}"; specs.append((a, b))
        else: specs.append((1, 999))
        cols.append(s)
    fmt = ",".join(cols)
    limits = None
    if rnd.random() < 0.5:
        limits = (rnd.randint(0, 4), rnd.randint(0, 4))
    header = rnd.choice([None, "H", "a very long header " * 4])
    footer = rnd.choice([None, "", "F", "a very long footer " * 4])
    try:
        t = PPTable(recs, fmt=fmt, fields=fields, fields_types={"f0": enum} if use_enum else None, limits=limits, header=header, footer=footer)
        lines = [ (l if hasattr(l, 'plain_text') else __import__('ak.color').color.CHText(*l)).plain_text() for l in t.ch_text(no_color=True)]
        whole = t.ch_text(no_color=True).plain_text()
    except Exception as e:
        bad += 1; kinds[type(e).__name__] += 1
        if kinds[type(e).__name__] < 3: print(seed, "EXC", type(e).__name__, str(e)[:200], fmt, recs[:2])
        continue
    errs = []
    if "\n".join(lines) != whole: errs.append("lines!=whole")
    W = len(lines[0])
    if any(len(l) != W for l in lines): errs.append("not rectangular")
    border = lines[0]
    plus = [i for i, c in enumerate(border) if c == '+']
    widths = [b - a - 1 for a, b in zip(plus, plus[1:])]
    if len(widths) != len(chosen): errs.append("ncols")
    for w, (a, b) in zip(widths, specs):
        if not (a <= w <= b): errs.append(("width bounds", w, a, b))
    # body lines: between 2nd and 3rd border
    bidx = [i for i, l in enumerate(lines) if l == border]
    if len(bidx) != 3: errs.append("borders")
    else:
        body = lines[bidx[1]+1:bidx[2]]
        for l in body:
            if l.startswith("|... ") or l.strip("| ") == "": continue
            if any(l[i] != '|' for i in plus): errs.append(("sep misaligned", l))
        nshown = sum(1 for l in body if not (l.startswith("|... ") or l.strip("| ") == ""))
        sk = [l for l in body if l.startswith("|... ")]
        if sk:
            try:
                n = int(sk[0][5:].split()[0])
                if n + nshown != nrec: errs.append(("skipped count", n, nshown, nrec))
            except ValueError:
                kinds['skip line truncated'] += 1
        elif nshown != nrec: errs.append(("records shown", nshown, nrec))
    if errs:
        bad += 1
        for e in errs: kinds[str(e)[:30]] += 1
        if bad < 6: print(seed, fmt, limits, errs, "\n" + whole)
print("bad", bad, kinds)
