import sys, random, json, ast
sys.path.insert(0, '/repo')
from ak.ppobj import PrettyPrinter
ALPH = "abc xyz,:[]{}'#0129_-é"
def rs(rnd, mx=8):
    return "".join(rnd.choice(ALPH) for _ in range(rnd.randint(0, mx)))
def val(rnd, d=0, big=False):
    k = rnd.randint(0, 9 if d < 4 else 5)
    if k == 0: return rs(rnd, 30 if big else 8)
    if k == 1: return rnd.randint(-10**rnd.randint(0,20), 10**rnd.randint(0,20))
    if k == 2: return rnd.choice([0.5, -1.25e-7, 1e22, 3.14, 1/3, 2.0**70, -0.0, 123456.789])
    if k == 3: return rnd.choice([True, False, None])
    if k == 4: return []
    if k == 5: return {}
    if k in (6,7):
        n = rnd.choice([0,1,2,3,5,30,60,120] if big else [1,2,3,4])
        simple = rnd.random() < 0.6
        return [val(rnd, 9 if simple else d+1, big) for _ in range(n)]
    n = rnd.choice([1,2,3,20,40] if big else [1,2,3])
    simple = rnd.random() < 0.6
    return {rs(rnd, 12): val(rnd, 9 if simple else d+1, big) for _ in range(n)}
bad = 0
ppj = PrettyPrinter(fmt_json=True); ppp = PrettyPrinter()
for seed in range(30000):
    rnd = random.Random(seed)
    v = val(rnd, 0, big=seed % 3 == 0)
    try:
        tj = ppj(v, no_color=True).plain_text()
        tp = ppp(v, no_color=True).plain_text()
        lines = "\n".join(l.plain_text() for l in ppj(v, no_color=True))
        okj = json.loads(tj) == v
        okp = ast.literal_eval(tp) == v
        ok = okj and okp and lines == tj and "\033" not in tj
        # sorted keys order check
    except Exception as e:
        ok = False; tj = f"EXC {type(e).__name__} {e}"
    if not ok:
        bad += 1
        if bad < 4: print(seed, repr(v)[:300], "\n", tj[:500])
print("bad", bad)
