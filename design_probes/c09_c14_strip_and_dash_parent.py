import sys
sys.path.insert(0, '/repo')
from ak.color import *
# C09
for spec in [('RED',{}), (123,{}), ((1,2,3),{'bg_color':'g5'}), ('g23',{'bold':True}), ('g24',{}), ([1,2,3],{}), (256,{}), ('g-1',{}), ('g+5',{}), (True, {})]:
    try:
        s = str(ColorFmt(spec[0], **spec[1])("x"))
        print(spec, repr(s), repr(CHText.strip_colors(s)))
    except Exception as e:
        print(spec, type(e).__name__, e)
print(repr(ColorBytes(123, bold=True)(b"x")))
# C14
for cfg in [{"A": "RED/BLUE:bold", "B": "A:-"}, {"A": "RED/BLUE:bold", "B": "A:-/-"}, {"A": "RED/BLUE:bold", "B": "A:/GREEN"}, {"A":"-/BLUE","B":"A:bold"}]:
    try:
        c = ColorsConfig(cfg)
        print(cfg, repr(str(c.get_color("B")("t"))))
    except Exception as e:
        print(cfg, type(e).__name__, e)
