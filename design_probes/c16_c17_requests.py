import sys
sys.path.insert(0, '/repo')
from ak import conn_http
from tests.mock_http import mock_http
reqs = []
with mock_http(reqs):
    c = conn_http.HttpConn("http://h/")
    b = conn_http.BAuthConn(c, "u", "p")
    c.get("a"); b.get("/b", params={"x": "1 2"}); c.get("c", headers={"X-Request-ID": "mine"}); c.get("d", headers={"x-request-id": "mine2"}); b.post("e", data={"k": 1})
for r in reqs:
    print(r.full_url, r.get_method(), r.header_items(), r.data)
