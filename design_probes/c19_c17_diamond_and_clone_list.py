import sys
sys.path.insert(0, '/repo')
from ak import cli_tools
# C19 diamond
try:
    p = cli_tools.ArgParser(commands=[('a','ha'),('b:a','hb'),('c:a','hc'),('d:b,c','hd')])
    print("ok")
except AssertionError as e:
    print("AssertionError", e)
try:
    p = cli_tools.ArgParser(commands=[('a','ha'),('b:a','hb'),('d:a,b','hd')])
    print("ok")
except AssertionError as e:
    print("AssertionError", e)
p = cli_tools.ArgParser(commands=[('!o','ho'),('a:o','ha'),('b','hb')])
p.get_cmd_parser('a').add_argument('items', nargs='*')
try:
    print(p.parse_args(['o']))
except SystemExit as e:
    print("SystemExit", e)
# C17 clone with list
from ak import mcaller_http, conn_http
class MC(mcaller_http.MCallerHttp):
    @mcaller_http.method_http(None)
    def m(self):
        return self.get_conn().get("p")
mc = MC("http://h")
class Ad(conn_http.RequestAdapter):
    def process_req_args(self, ra): ra.path = "/z" + ra.path
try:
    c2 = mc.clone([Ad(), Ad()])
    print(c2.http_conn.adapters)
    c3 = mc.clone(Ad())
    print(c3.http_conn.adapters)
except Exception as e:
    print(type(e).__name__, e)
