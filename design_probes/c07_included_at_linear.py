import sys, random, json, collections
sys.path.insert(0, '/repo')
import logging; logging.disable(logging.CRITICAL)
from ak.ghist import ProjectRepo, ReposCollection, BuildNumData
from tests.mock_git import MockedGitRepo
class StdTestRepo(ProjectRepo):
    _SAVED_BUILD_NUM_SOURCES = ["VERSION", ]
    def _read_saved_build_num_from_file(self, blob, path):
        data = blob.data_stream.read().decode().strip()
        nums = [int(c) for c in data.split('.')]
        if len(nums) == 2: nums.append(None)
        return BuildNumData(*nums)
    def read_components_from_file(self, v_file_path, blob):
        d = json.load(blob.data_stream)
        return {c: [int(n) for n in v.split('.')] for c, v in d.items()}
class AppRepo(StdTestRepo):
    _COMPONENTS_VERSIONS_LOCATIONS = {'lib': 'DEPENDS'}
def run(seed):
    rnd = random.Random(seed)
    # lib: linear commits 1..n on release/10.20
    n = rnd.randint(3, 8)
    lib_lines = ['branch: origin/release/10.20']
    lib_builds = []  # build numbers (== commit id)
    lib_match = {}
    for i in range(n, 0, -1):
        m = rnd.random() < 0.5
        t = rnd.random() < 0.6 or i == 1
        lib_match[i] = m
        if t: lib_builds.append(i)
        lib_lines.append(f"{i}|{'BUG-9' if m else 'zzz'} l{i}" + (f"|tags: build_{i}_release_10_20_success" if t else ""))
    lib_builds.sort()
    # app: branches release/5.1 (base), release/5.2 forks from some commit, linear each
    app_lines = []
    nb = rnd.randint(1, 3)
    commits = {}  # id -> (parent, pin, tagged, branch)
    cid = 0
    branches = []
    pinidx = 0
    heads = {}
    prev_branch_commits = []
    for b in range(nb):
        name = f"release/5.{b+1}"
        if b == 0:
            parent = None; cur_pin_idx = 0
        else:
            parent = rnd.choice(prev_branch_commits)
            cur_pin_idx = commits[parent][1]
        ids = []
        for k in range(rnd.randint(1, 4)):
            cid += 1
            cur_pin_idx = min(len(lib_builds)-1, cur_pin_idx + rnd.choice([0,0,1,1,2]))
            tagged = rnd.random() < 0.5
            commits[cid] = (parent, cur_pin_idx, tagged, name)
            parent = cid; ids.append(cid)
        heads[name] = cid
        branches.append((name, ids))
        prev_branch_commits = ids
    for name, ids in reversed(branches):
        app_lines.append(f"branch: origin/{name}")
        for c in reversed(ids):
            p, pi, tg, _ = commits[c]
            major_minor = name.split('/')[1].replace('.', '_')
            l = f"{c}<-{p if p else 0}|app c{c}" + (f"|tags: build_{c}_release_{major_minor}_success" if tg else "")
            l += '|file:DEPENDS:{"lib": "10.20.%d"}' % lib_builds[pi]
            app_lines.append(l)
    class R2(MockedGitRepo):
        def _mk_commit(self, d, prev):
            c = super()._mk_commit(d, prev)
            c.parents = [p for p in c.parents if p != 0]
            return c
    lib_repo = R2(*lib_lines, name="lib"); app_repo = R2(*app_lines, name="app")
    base = 1_700_000_000
    for r in (lib_repo, app_repo):
        for c in r.all_commits.values(): c.committed_date = base + c.intid
    rc = ReposCollection({'app': AppRepo('app', app_repo, 'origin'), 'lib': StdTestRepo('lib', lib_repo, 'origin')})
    data = dict(rc.make_reports_data("BUG-9"))
    lib_rg = data['lib']
    got = {}
    for rb in lib_rg.branches:
        for b in rb.get_rbuilds_list():
            if b.rcommit is None: continue
            got[b.rcommit.commit.intid] = sorted((str(x[1]), str(x[2])) for x in b.included_at)
    # oracle
    # report-related lib builds: builds (tagged or head) with new matching commits
    rr = []
    last = 0
    lib_build_set = list(lib_builds)
    headc = n
    elig = sorted(set(lib_builds + [headc]))
    for b in elig:
        if any(lib_match[i] for i in range(last+1, b+1)): rr.append(b)
        last = b
    exp = {b: [] for b in rr}
    seen_prev = set()
    for name, ids in branches:
        # ancestors chain of head
        chain = []
        c = heads[name]
        while c: chain.append(c); c = commits[c][0]
        chain.reverse()
        eligb = [c for c in chain if (commits[c][2] or c == heads[name]) and c not in seen_prev]
        for R in rr:
            if R not in lib_builds: continue  # unbuilt lib head cannot be pinned
            for c in eligb:
                if lib_builds[commits[c][1]] >= R:
                    bn = f"5.{name.split('.')[1]}.{c}" if commits[c][2] else "8888.8888.8888"
                    exp[R].append((name, bn)); break
        seen_prev |= set(chain)
    exp = {k: sorted(v) for k, v in exp.items()}
    got2 = {k: v for k, v in got.items()}
    return exp, got2, lib_lines, app_lines
bad = 0
for seed in range(int(sys.argv[1]), int(sys.argv[2])):
    try:
        exp, got, ll, al = run(seed)
    except Exception as e:
        import traceback
        bad += 1
        if bad < 4: print(seed, "EXC", type(e).__name__, e); traceback.print_exc()
        continue
    if exp != got:
        bad += 1
        if bad < 5:
            print("seed", seed); print("\n".join(ll)); print("\n".join(al)); print("EXP", exp); print("GOT", got)
print("bad", bad)
