import sys, signal
sys.path.insert(0, '/repo')
from ak.llparser import LLParser, GrammarIsRecursive
class TO(Exception): pass
def h(*a): raise TO()
signal.signal(signal.SIGALRM, h)
tk = r"""(?P<SPACE>\s+)|(?P<X>x)|(?P<Y>y)|(?P<Z>z)"""
def mk(prods, **kw):
    try:
        return LLParser(tk, productions=prods, **kw)
    except GrammarIsRecursive as e:
        return "REC"
g1 = {'E': [('A','E','X'), ('Y',)], 'A': [('Z',), ()]}
g2 = {'E': [('N','E','X'), ('Y',)], 'N': [('Z',), ()]}
for g in (g1, g2):
    p = mk(g)
    print(type(p).__name__ if p != "REC" else p)
    if p != "REC":
        signal.alarm(2)
        try:
            print(p.parse("y"))
        except BaseException as e:
            print("EXC", type(e).__name__)
        signal.alarm(0)
