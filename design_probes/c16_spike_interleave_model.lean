/-! Spike for C16: every schedule of threads running a well-locked "take a number" program
    hands out distinct, gap-free numbers. -/
namespace Il

/-- abstract instructions extracted from the bytecode of `_generate_request_id` -/
inductive Instr where
  | acq                -- lock.__enter__
  | rel                -- lock.__exit__
  | rd (dst : Nat)     -- local[dst] := counter
  | wr (src : Nat) (k : Nat)   -- counter := local[src] + k
  | nop                -- anything not touching shared state
deriving DecidableEq, Repr

structure Prog where
  code : List Instr
  retLocal : Nat       -- the local whose value is formatted into the id
deriving Repr

/-- per-thread state -/
structure Th where
  pc : Nat
  locals : Nat → Nat
  handed : List Nat     -- numbers returned by completed calls (newest first)
  remaining : Nat       -- how many more calls this thread will make

structure St where
  ctr : Nat
  lock : Option Nat     -- holder
  th : Nat → Th

def setTh (s : St) (i : Nat) (t : Th) : St :=
  { s with th := fun j => if j = i then t else s.th j }

/-- one scheduler choice: thread `i` executes one instruction (or blocks on the lock: no-op) -/
def stepTh (p : Prog) (s : St) (i : Nat) : St :=
  let t := s.th i
  if t.remaining = 0 then s else
  match p.code[t.pc]? with
  | none =>
      -- call finished: record the number, start the next call
      setTh s i { t with pc := 0, handed := t.locals p.retLocal :: t.handed, remaining := t.remaining - 1 }
  | some .acq =>
      match s.lock with
      | none => setTh { s with lock := some i } i { t with pc := t.pc + 1 }
      | some _ => s                      -- blocked
  | some .rel =>
      setTh { s with lock := if s.lock = some i then none else s.lock } i { t with pc := t.pc + 1 }
  | some (.rd d) =>
      setTh s i { t with pc := t.pc + 1, locals := fun x => if x = d then s.ctr else t.locals x }
  | some (.wr src k) =>
      setTh { s with ctr := t.locals src + k } i { t with pc := t.pc + 1 }
  | some .nop => setTh s i { t with pc := t.pc + 1 }

def runSched (p : Prog) (s : St) (sched : List Nat) : St := sched.foldl (stepTh p) s

/-- The shape the translator must find:  nop* ; acq ; rd r ; wr r 1 ; rel ; nop*  with `retLocal = r`
    (extra `nop`s anywhere; a second `rd` into another local is a `nop`-like harmless read and is
    normalised away by the translator). -/
def WellLocked (p : Prog) : Prop :=
  ∃ a r b, p.code = List.replicate a .nop ++ [.acq, .rd r, .wr r 1, .rel] ++ List.replicate b .nop
    ∧ p.retLocal = r

end Il
