import sys
import c01_c02_c03_grammar_fuzz as p1
from c01_c02_c03_grammar_fuzz import *
def gen_grammar(rnd):
    nts = ['E'] + rnd.sample(['A','B','C','D'], rnd.randint(1,4))
    g = {}
    for i, nt in enumerate(nts):
        alts = []
        for _ in range(rnd.randint(1,4)):
            ln = rnd.choice([0,1,2,2,3,3,4])
            p = []
            for k in range(ln):
                if k == 0:
                    # first symbol: terminal or a later nonterminal (avoid left recursion mostly)
                    cands = T*2 + nts[i+1:]*3 + (nts if rnd.random()<0.05 else [])
                else:
                    cands = T*2 + nts
                p.append(rnd.choice(cands))
            alts.append(tuple(p))
        seen=set(); al=[]
        for x in alts:
            if x not in seen: seen.add(x); al.append(x)
        g[nt] = al
    return g
p1.gen_grammar = gen_grammar
dirs = collections.Counter()
for s in range(int(sys.argv[1]), int(sys.argv[2])): p1.run(s)
print(p1.stats)
