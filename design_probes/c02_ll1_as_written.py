import sys, random, collections
sys.argv = [sys.argv[0], '0', '0'] + sys.argv[1:]
import c01_c02_c03_grammar_fuzz as p1, c01_c02_grammar_fuzz_nonleftrec as p2
from c01_c02_c03_grammar_fuzz import *
def first_follow(g, start='E'):
    nul=set(); ch=True
    while ch:
        ch=False
        for n,alts in g.items():
            if n not in nul and any(all(s in nul for s in p) for p in alts): nul.add(n); ch=True
    first={n:set() for n in g}
    def fseq(p):
        r=set()
        for s in p:
            if s in g:
                r|=first[s]
                if s not in nul: return r, False
            else:
                r.add(s); return r, False
        return r, True
    ch=True
    while ch:
        ch=False
        for n,alts in g.items():
            for p in alts:
                r,_=fseq(p)
                if not r<=first[n]: first[n]|=r; ch=True
    follow={n:set() for n in g}; follow[start].add('$')
    ch=True
    while ch:
        ch=False
        for n,alts in g.items():
            for p in alts:
                for i,s in enumerate(p):
                    if s in g:
                        r,allnul=fseq(p[i+1:])
                        if allnul: r=r|follow[n]
                        if not r<=follow[s]: follow[s]|=r; ch=True
    return nul, first, follow, fseq
def is_ll1(g):
    nul, first, follow, fseq = first_follow(g)
    for n,alts in g.items():
        preds=[]
        for p in alts:
            r,allnul=fseq(p)
            if allnul: r=r|follow[n]
            preds.append(r)
        for i in range(len(preds)):
            for j in range(i+1,len(preds)):
                if preds[i]&preds[j]: return False
    return True
cnt=collections.Counter()
a,b=int(sys.argv[3]),int(sys.argv[4])
for seed in range(a,b):
    rnd=random.Random(seed)
    g=p2.gen_grammar(rnd)
    if left_rec(g): continue
    ll1=is_ll1(g)
    for smart in (True,False):
        try:
            p=LLParser(TK, productions={k:list(v) for k,v in g.items()}, smart_factorization=smart)
        except Exception as e:
            cnt['ctor_exc_'+type(e).__name__]+=1; continue
        amb=p.is_ambiguous()
        cnt[(ll1, amb)]+=1
        if ll1 and amb:
            if cnt['shown']<5:
                cnt['shown']+=1
                print(seed, g, smart)
                for k,v in p.parse_table.items():
                    if len(v)!=1: print("  ", k, [r.production for r in v])
print(cnt)
