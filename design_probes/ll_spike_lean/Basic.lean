/-! Spike: model of LLParser.parse main loop and its soundness invariant (C01). -/
namespace LL

variable {σ : Type} [DecidableEq σ]

structure Tok (σ : Type) where
  name : σ
  val : String

inductive Tree (σ : Type) where
  | leaf (name : σ) (val : String)
  | node (name : σ) (children : List (Tree σ))

def Tree.name : Tree σ → σ
  | .leaf n _ => n
  | .node n _ => n

def Tree.children : Tree σ → List (Tree σ)
  | .leaf _ _ => []
  | .node _ cs => cs

def Tree.yield : Tree σ → List (Tok σ)
  | .leaf n v => [⟨n, v⟩]
  | .node _ cs => (cs.map Tree.yield).flatten

def yieldL (ts : List (Tree σ)) : List (Tok σ) := (ts.map Tree.yield).flatten

@[simp] theorem yield_node (n : σ) (cs : List (Tree σ)) : (Tree.node n cs).yield = yieldL cs := by
  simp [Tree.yield, yieldL]

@[simp] theorem yieldL_nil : yieldL ([] : List (Tree σ)) = [] := rfl
@[simp] theorem yieldL_append (a b : List (Tree σ)) : yieldL (a ++ b) = yieldL a ++ yieldL b := by
  simp [yieldL]
@[simp] theorem yieldL_single (t : Tree σ) : yieldL [t] = t.yield := by simp [yieldL]

/-- What `parse` consults: terminals, the parse table, the set of suffix symbols. -/
structure Cfg (σ : Type) where
  isTerm : σ → Bool
  table : σ → σ → Option (List (List σ))
  isSuffix : σ → Bool

structure Frame (σ : Type) where
  sym : σ
  start : Nat
  cur : Nat
  alts : List (List σ)
  idx : Nat
  vals : List (Tree σ)

inductive Res (σ : Type) where
  | cont (st : List (Frame σ))
  | done (t : Tree σ)
  | fail
  | stuck

/-- roll-back: nearest frame (from the top) with an untried alternative -/
def backtrack : List (Frame σ) → Res σ
  | [] => .fail
  | f :: rest =>
    if f.idx + 1 < f.alts.length then
      .cont ({ f with vals := [], cur := f.start, idx := f.idx + 1 } :: rest)
    else backtrack rest

/-- children of the node built for production `prod` from matched `vals` (suffix spliced) -/
def splice (G : Cfg σ) (prod : List σ) (vals : List (Tree σ)) : List (Tree σ) :=
  match prod.getLast?, vals.getLast? with
  | some s, some v => if G.isSuffix s then vals.dropLast ++ v.children else vals
  | _, _ => vals

def step (G : Cfg σ) (toks : List (Tok σ)) : List (Frame σ) → Res σ
  | [] => .stuck
  | top :: rest =>
    match top.alts[top.idx]? with
    | none => .stuck
    | some prod =>
      if top.vals.length = prod.length then
        let t := Tree.node top.sym (splice G prod top.vals)
        match rest with
        | [] => match t.children.head? with
                | some r => .done r
                | none => .stuck
        | parent :: rest' =>
          .cont ({ parent with vals := parent.vals ++ [t], cur := top.cur } :: rest')
      else
        match prod[top.vals.length]?, toks[top.cur]? with
        | some c, some tok =>
          if G.isTerm c then
            if tok.name = c then
              .cont ({ top with vals := top.vals ++ [Tree.leaf c tok.val], cur := top.cur + 1 } :: rest)
            else backtrack (top :: rest)
          else
            match G.table c tok.name with
            | some alts =>
              .cont ({ sym := c, start := top.cur, cur := top.cur, alts := alts, idx := 0, vals := [] }
                      :: top :: rest)
            | none => backtrack (top :: rest)
        | _, _ => .stuck

inductive Out (σ : Type) where
  | tree (t : Tree σ)
  | parsingError
  | stuck
  | outOfFuel

def run (G : Cfg σ) (toks : List (Tok σ)) : Nat → List (Frame σ) → Out σ
  | 0, _ => .outOfFuel
  | fuel + 1, st =>
    match step G toks st with
    | .cont st' => run G toks fuel st'
    | .done t => .tree t
    | .fail => .parsingError
    | .stuck => .stuck

/-! ### Soundness -/

/-- grammars: `U` the user's, `P` the factorised one actually used by the table -/
structure Gram (σ : Type) where
  prods : σ → List (List σ)

/-- flattened expansions of a suffix symbol -/
inductive Flat (G : Cfg σ) (P : Gram σ) : σ → List σ → Prop where
  | base {s p} : p ∈ P.prods s → (∀ l, p.getLast? = some l → G.isSuffix l = false) → Flat G P s p
  | step {s pre s' e} : pre ++ [s'] ∈ P.prods s → G.isSuffix s' = true → Flat G P s' e →
      Flat G P s (pre ++ e)

structure FactOK (G : Cfg σ) (U P : Gram σ) : Prop where
  /-- suffix symbols occur only in last position -/
  inner : ∀ s p, p ∈ P.prods s → ∀ x ∈ p.dropLast, G.isSuffix x = false
  plain : ∀ s p, G.isSuffix s = false → p ∈ P.prods s →
      (∀ l, p.getLast? = some l → G.isSuffix l = false) → p ∈ U.prods s
  grp : ∀ s pre s' e, G.isSuffix s = false → pre ++ [s'] ∈ P.prods s → G.isSuffix s' = true →
      Flat G P s' e → pre ++ e ∈ U.prods s
  suffNT : ∀ s, G.isSuffix s = true → G.isTerm s = false

structure TableWF (G : Cfg σ) (P : Gram σ) : Prop where
  sub : ∀ X t alts, G.table X t = some alts → alts ≠ [] ∧ ∀ p ∈ alts, p ∈ P.prods X

/-- validity of a (possibly suffix-rooted) tree -/
def Valid (G : Cfg σ) (U P : Gram σ) : Tree σ → Prop
  | .leaf n _ => G.isTerm n = true
  | .node n cs =>
      (∀ c ∈ cs, Valid G U P c ∧ G.isSuffix c.name = false) ∧
      (if G.isSuffix n then Flat G P n (cs.map Tree.name) else cs.map Tree.name ∈ U.prods n)
termination_by t => sizeOf t
decreasing_by
  simp_wf
  have := List.sizeOf_lt_of_mem ‹c ∈ cs›
  omega

end LL
