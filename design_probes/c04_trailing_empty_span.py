import sys
sys.path.insert(0, '/repo')
from ak.llparser import LLParser
def walk(e, text, d=0):
    print(" "*d, e.name, e.span, repr(e.get_orig_text(text)) if e.start_pos else None)
    if not e.is_leaf():
        for c in e.value: walk(c, text, d+1)
for smart in (True, False):
    p = LLParser(r"""(?P<SPACE>\s+)|(?P<WORD>[a-z]+)|(?P<NUM>[0-9]+)|(?P<SEMI>;)""",
        productions={'E': [('A','SEMI')], 'A': [('WORD','NUM'), ('WORD',)], }, smart_factorization=smart)
    text = "ab    ;"
    print(smart, p.prods_map.keys())
    walk(p.parse(text, do_cleanup=False), text)
p = LLParser(r"""(?P<SPACE>\s+)|(?P<WORD>[a-z]+)|(?P<NUM>[0-9]+)|(?P<SEMI>;)""",
    productions={'E': [('A','SEMI')], 'A': [('WORD','OPT')], 'OPT': [('NUM',), ()]})
walk(p.parse(text, do_cleanup=False), text)
text = "ab  \n\n  ;"
walk(p.parse(text, do_cleanup=False), text)
