import sys, random, itertools
sys.path.insert(0, '/repo')
import logging
logging.disable(logging.CRITICAL)
from ak.ghist import ProjectRepo, ReposCollection, BuildNumData, RBuild
from tests.mock_git import MockedGitRepo

class StdTestRepo(ProjectRepo):
    _SAVED_BUILD_NUM_SOURCES = ["VERSION", ]
    def _read_saved_build_num_from_file(self, blob, path):
        data = blob.data_stream.read().decode().strip()
        nums = [int(chunk) for chunk in data.split('.')]
        if len(nums) == 2: nums.append(None)
        return BuildNumData(*nums)

def gen(rnd, n, nbr):
    # commits 1..n, parents lower ids. returns descr lines
    parents = {}
    for i in range(1, n+1):
        if i == 1 or rnd.random() < 0.08:
            ps = []
        else:
            k = 1 if rnd.random() < 0.7 else 2
            cands = list(range(max(1, i-5), i))
            ps = sorted(rnd.sample(cands, min(k, len(cands))), reverse=True)
        parents[i] = ps
    match = {i: rnd.random() < 0.4 for i in parents}
    tag = {i: rnd.random() < 0.3 for i in parents}
    heads = {}
    names = ['master'] + [f'release/{j}.{k}' for j, k in [(1,2),(1,10),(2,0),(10,1)]]
    rnd.shuffle(names)
    for nm in names[:nbr]:
        heads[nm] = rnd.randint(1, n)
    return parents, match, tag, heads

def build_repo(parents, match, tag, heads):
    lines = []
    # MockedGitRepo parses reversed; branch line must follow (in reversed order) its head commit => in forward order branch line precedes the head commit line.
    byhead = {}
    for nm, h in heads.items(): byhead.setdefault(h, []).append(nm)
    for i in sorted(parents, reverse=True):
        for nm in byhead.get(i, []):
            lines.append(f"branch: origin/{nm}")
        ps = parents[i]
        idp = f"{i}<-{','.join(map(str,ps))}" if ps else f"{i}<-"
        msg = f"BUG-7 c{i}" if match[i] else f"other c{i}"
        t = f"|tags: build_{i}_release_1_1_success" if tag[i] else ""
        lines.append(f"{idp}|{msg}{t}")
    return lines

class Repo2(MockedGitRepo):
    def _mk_commit(self, commit_descr, prev_commit):
        chunks = commit_descr.split('|')
        if chunks[0].strip().endswith('<-'):
            # root commit
            c = super()._mk_commit(chunks[0].strip()[:-2] + "<-0|" + "|".join(chunks[1:]), prev_commit)
            c.parents = []
            return c
        return super()._mk_commit(commit_descr, prev_commit)

def anc(parents, h):
    seen = set(); st = [h]
    while st:
        x = st.pop()
        if x in seen: continue
        seen.add(x); st.extend(parents[x])
    return seen

def run(seed, n=10, nbr=2):
    rnd = random.Random(seed)
    parents, match, tag, heads = gen(rnd, n, nbr)
    lines = build_repo(parents, match, tag, heads)
    repo = Repo2(*lines, name="r")
    base = 1_700_000_000
    for c in repo.all_commits.values():
        c.committed_date = base + c.intid * 10
    class RC(ReposCollection):
        _REPOS_TYPES = {'r': StdTestRepo}
    rc = RC({'r': StdTestRepo('r', repo, 'origin')})
    data = rc.make_reports_data("BUG-7")
    _, rg = data[0]
    out = {}
    for rb in rg.branches:
        bl = []
        for b in rb.get_rbuilds_list():
            kind = {0:'N',1:'NB',2:'NM'}[b.build_type]
            if b.build_num.is_fake_not_built(): kind = 'NB'
            bc = b.rcommit.commit.intid if b.rcommit else None
            bl.append((kind, bc, sorted(r.commit.intid for r in b.rcommits.values() if r.is_explicit)))
        out[rb.branch_name] = bl
    return parents, match, tag, heads, out, lines

def keyf(nm):
    if nm == 'master': return (1, [])
    a = nm.split('/')[1].split('.')
    return (0, [int(x) for x in a])

def check(parents, match, tag, heads, out):
    errs = []
    order = sorted(heads, key=keyf)
    prevanc = set()
    prev_listed = set()
    for nm in order:
        h = heads[nm]
        A = anc(parents, h)
        builds = {c for c in A if (tag[c] or c == h) and c not in prevanc}
        got = out.get(nm, [])
        listed = {}
        nm_listed = []
        for kind, bc, cs in got:
            if kind == 'NM':
                nm_listed += cs
                continue
            if bc not in builds:
                errs.append((nm, 'build not eligible', bc))
            for c in cs:
                listed.setdefault(c, []).append(bc)
        for c, bs in listed.items():
            if not match[c]: errs.append((nm, 'nonmatching', c))
            if c not in A: errs.append((nm, 'unreachable listed', c))
            if len(bs) > 1: errs.append((nm, 'listed twice', c, bs))
        for c in A:
            if not match[c]: continue
            cont = {b for b in builds if c in anc(parents, b)}
            if cont:
                if c not in listed: errs.append((nm, 'missing', c, sorted(cont)))
                else:
                    b = listed[c][0]
                    if b not in cont: errs.append((nm, 'wrong build', c, b))
                    else:
                        ab = anc(parents, b) - {b}
                        if any(b2 in ab for b2 in cont): errs.append((nm, 'not earliest', c, b, sorted(cont)))
            else:
                if c in listed: errs.append((nm, 'listed w/o build', c))
            if c in nm_listed: errs.append((nm, 'reachable under NM', c))
        exp_nm = {c for c in prevanc if match[c] and c not in A}
        if sorted(nm_listed) != sorted(exp_nm):
            errs.append((nm, 'NM mismatch', sorted(nm_listed), sorted(exp_nm)))
        prevanc |= A
    return errs

if __name__ == '__main__':
    nbad = 0
    for seed in range(int(sys.argv[1]), int(sys.argv[2])):
        try:
            parents, match, tag, heads, out, lines = run(seed, n=int(sys.argv[3]) if len(sys.argv)>3 else 8, nbr=int(sys.argv[4]) if len(sys.argv)>4 else 2)
        except Exception as e:
            print(seed, "EXC", type(e).__name__, e); nbad += 1; continue
        errs = check(parents, match, tag, heads, out)
        if errs:
            nbad += 1
            if nbad <= 6:
                print("seed", seed); print("\n".join(lines)); print(out); print(errs)
    print("bad", nbad)
