import sys, random, itertools
sys.path.insert(0, '/repo')
from ak.ghist import ProjectRepo, ReposCollection
def mk(deps):
    repos = {}
    for name, ds in deps.items():
        cls = type("R_"+name, (ProjectRepo,), {'_COMPONENTS_VERSIONS_LOCATIONS': {d: 'DEPENDS' for d in ds}})
        class FakeGit:
            remotes = {}
        repos[name] = cls(name, FakeGit(), 'origin')
    return repos
def has_cycle(deps):
    names = set(deps)
    color = {}
    def dfs(u):
        color[u] = 1
        for v in deps[u]:
            if v not in names: continue
            if color.get(v) == 1: return True
            if v not in color and dfs(v): return True
        color[u] = 2
        return False
    return any(dfs(u) for u in deps if u not in color)
bad = 0
rnd = random.Random(1)
for it in range(20000):
    n = rnd.randint(1, 6)
    names = [chr(97+i) for i in range(n)]
    deps = {a: [b for b in names + ['zz'] if rnd.random() < 0.25] for a in names}
    order = names[:]; rnd.shuffle(order)
    d2 = {k: deps[k] for k in order}
    try:
        rc = ReposCollection(mk(d2))
        res = ('ok', rc.sorted_repos)
    except ValueError as e:
        res = ('cycle', str(e))
    except Exception as e:
        res = ('EXC', type(e).__name__, str(e))
    cyc = has_cycle(deps)
    ok = True
    if res[0] == 'EXC': ok = False
    elif cyc != (res[0] == 'cycle'): ok = False
    elif res[0] == 'ok':
        pos = {r: i for i, r in enumerate(res[1])}
        if set(pos) != set(names): ok = False
        for a in names:
            for b in deps[a]:
                if b in pos and pos[b] > pos[a]: ok = False
    if not ok:
        bad += 1
        if bad < 5: print(deps, res, cyc)
print("bad", bad)
