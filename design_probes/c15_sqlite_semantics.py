import sys, random, sqlite3
sys.path.insert(0, '/repo')
from ak.mtd_sql import SqlMethod, SqlOrCondition
print(sqlite3.sqlite_version)
VALS_I = [None, 0, 1, 2, 5, -3]
VALS_T = [None, "", "a", "A", "ab", "a%", "a_b", "it's", "x'; DROP TABLE t;--", "%", "b"]
def like(pat, s):
    # sqlite LIKE: case-insensitive ASCII, % and _
    import re
    rx = "".join(".*" if c == "%" else "." if c == "_" else re.escape(c) for c in pat)
    return re.fullmatch(rx, s, re.I | re.S) is not None
def cmp3(op, a, b):
    if a is None or b is None: return None
    ta, tb = isinstance(a, str), isinstance(b, str)
    if ta != tb:
        lt = not ta  # numbers < text
        r = {'=': False, '!=': True, '<': lt, '>': not lt, '<=': lt, '>=': not lt}[op]
        return r
    return {'=': a == b, '!=': a != b, '<': a < b, '>': a > b, '<=': a <= b, '>=': a >= b}[op]
def sem(cond, row):
    if isinstance(cond, tuple) and cond[0] == 'OR':
        rs = [sem(c, row) for c in cond[1]]
        if any(r is True for r in rs): return True
        if any(r is None for r in rs): return None
        return False
    f, op, v = cond
    x = row[f]
    op = op.upper()
    if op in ('=', '!=') and v is None: op = 'IS NULL' if op == '=' else 'IS NOT NULL'
    if op in ('=', '!=') and isinstance(v, (list, tuple)): op = 'IN' if op == '=' else 'NOT IN'
    if op == 'IS NULL': return x is None
    if op == 'IS NOT NULL': return x is not None
    if op in ('IN', 'NOT IN'):
        vs = list(v)
        if not vs: r = False
        else:
            rs = [cmp3('=', x, y) for y in vs]
            r = True if any(q is True for q in rs) else (None if any(q is None for q in rs) else False)
        if op == 'NOT IN': r = None if r is None else (not r)
        return r
    if op in ('LIKE', 'NOT LIKE'):
        if x is None: return None
        r = like(v, str(x))
        return (not r) if op == 'NOT LIKE' else r
    return cmp3(op, x, v)
def gen_cond(rnd, depth=0):
    if depth == 0 and rnd.random() < 0.2:
        return ('OR', [gen_cond(rnd, 1) for _ in range(rnd.randint(0, 3))])
    f = rnd.choice(['a', 'b', 'c'])
    vals = VALS_I if f == 'a' else VALS_T
    k = rnd.randint(0, 5)
    if k == 0: return (f, rnd.choice(['=', '!=', '<', '>', '<=', '>=']), rnd.choice([v for v in vals if v is not None]))
    if k == 1: return (f, rnd.choice(['=', '!=']), None)
    if k == 2: return (f, rnd.choice(['IN', 'NOT IN', 'in', '=', '!=']), rnd.choice([list, tuple])(rnd.sample(vals, rnd.randint(0, 3))))
    if k == 3: return (f, rnd.choice(['IS NULL', 'IS NOT NULL']), None)
    if k == 4 and f != 'a': return (f, rnd.choice(['LIKE', 'NOT LIKE']), rnd.choice(["a%", "%", "_", "A_", "%'%", "a\\%"]))
    return (f, rnd.choice(['IN', 'NOT IN']), set(rnd.sample([v for v in vals], rnd.randint(0, 3))))
def to_arg(c):
    if c[0] == 'OR': return SqlOrCondition(*[to_arg(x) for x in c[1]])
    return c
bad = 0
for seed in range(20000):
    rnd = random.Random(seed)
    conn = sqlite3.connect(":memory:")
    conn.execute("CREATE TABLE t(id INTEGER PRIMARY KEY, a, b, c)")
    rows = []
    for i in range(rnd.randint(0, 6)):
        r = {'id': i, 'a': rnd.choice(VALS_I), 'b': rnd.choice(VALS_T), 'c': rnd.choice(VALS_T)}
        rows.append(r); conn.execute("INSERT INTO t VALUES (?,?,?,?)", (r['id'], r['a'], r['b'], r['c']))
    conds = [gen_cond(rnd) for _ in range(rnd.randint(0, 3))]
    args = [to_arg(c) for c in conds]
    if rnd.random() < 0.3: args.insert(rnd.randint(0, len(args)), None)
    kw = {}
    if rnd.random() < 0.3:
        kw['a'] = rnd.choice(VALS_I); conds.append(('a', '=', kw['a']))
    try:
        got = SqlMethod("SELECT id, a, b, c FROM t", order_by="id").list(conn, *args, **kw)
        gids = [r.id for r in got]
    except Exception as e:
        gids = f"EXC {type(e).__name__} {e}"
    exp = [r['id'] for r in rows if all(sem(c, r) is True for c in conds)]
    if gids != exp:
        bad += 1
        if bad < 6: print(seed, conds, kw, rows, "\nEXP", exp, "GOT", gids)
print("bad", bad)
