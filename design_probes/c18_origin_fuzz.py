import sys, random, collections
sys.path.insert(0, '/repo')
from ak.xlsread import *
class WS:
    def __init__(self, title, rows):
        self.title = title
        self.rows = [[Cell(self, r, c, v) for c, v in enumerate(row)] for r, row in enumerate(rows)]
    def iter_rows(self): return iter(self.rows)
class Cell:
    def __init__(self, ws, r, c, v):
        self.parent = ws; self.value = v; self.coordinate = f"{chr(65+c)}{r+1}"; self.r=r; self.c=c
class Obj(XlsObject):
    _ATTRS = ['id', 'name', 'flag', 'marks', 'ext']
    _NUM_ID_ATTRS = 1
def gen(rnd):
    known = ['Id', 'Name', 'Flag']
    rng = [f"m{i}" for i in range(rnd.randint(0, 3))]
    unknown_before = [f"u{i}" for i in range(rnd.randint(0, 2))]
    cols = known[:]
    rnd.shuffle(cols)
    opt_flag = rnd.random() < 0.3
    if opt_flag: cols.remove('Flag')
    # place range group as a contiguous block of unknown titled columns; blank-titled cols around
    layout = []
    pos = rnd.randint(0, len(cols))
    layout = cols[:pos] + ([""] if rnd.random()<0.3 else []) + rng + ([""] if rnd.random()<0.3 else []) + cols[pos:]
    if rnd.random() < 0.3: layout = [""] * rnd.randint(1,2) + layout   # leading blank columns
    ncol = len(layout)
    nblank = rnd.randint(0, 2)
    rows = [[None]*ncol for _ in range(nblank)]
    rows.append([t if t else None for t in layout])
    ndata = rnd.randint(0, 6)
    data = []
    for i in range(ndata):
        row = []
        for t in layout:
            if t == 'Id': v = rnd.choice([i+1, i+1, None]) if rnd.random()<0.9 else None
            elif t == 'Name': v = rnd.choice(["ann", " bob ", None, 5])
            elif t == 'Flag': v = rnd.choice(['v', None, 1, '', 'True', False])
            elif t.startswith('m'): v = rnd.choice(['v', None, '', 1])
            else: v = rnd.choice([None, "x", "zz"])
            row.append(v)
        data.append(row)
    rows += data
    if rnd.random() < 0.5:
        rows.append([None]*ncol)
        rows.append(["trailing"] + [None]*(ncol-1))
    rules = {'id': ('Id', cell_int), 'name': ('Name', cell_str),
             'flag': ('Flag', cell_bool, {'default_val': False}) if opt_flag else ('Flag', cell_bool),
             'marks': ('*', cell_range_set, {'default_val': set}) if not rng else ('*', cell_range_set),
             'ext': None}
    return layout, rows, rules, nblank, bool(rng)
def conv(attr, cell):
    ct = {'id': cell_int, 'name': cell_str, 'flag': cell_bool}[attr]
    return ct.val_from_cell(cell)
def is_empty(v): return v is None or str(v).strip() == ""
stats = collections.Counter()
for seed in range(20000):
    rnd = random.Random(seed)
    layout, rows, rules, nblank, has_rng = gen(rnd)
    stop = rnd.choice(["blank all", "blank first"])
    ws = WS("s 1", rows)
    try:
        objs = list(iter_table(ws, Obj, rules, stop_on=stop))
    except ValueError as e:
        stats['ValueError'] += 1; continue
    except Exception as e:
        stats['EXC ' + type(e).__name__] += 1
        if stats['EXC ' + type(e).__name__] < 3: print(seed, type(e).__name__, e, layout, rows[:4])
        continue
    # expected number of data rows
    title_idx = nblank
    exp_rows = []
    for r in range(title_idx+1, len(rows)):
        row = rows[r]
        if stop == 'blank first':
            if is_empty(row[0]): break
        elif all(is_empty(v) for v in row): break
        exp_rows.append(r)
    ok = len(objs) == len(exp_rows)
    for o, r in zip(objs, exp_rows):
        if o is None:
            # key empty
            idc = layout.index('Id'); 
            if rows[r][idc] is not None: ok = False
            continue
        for attr in ('id', 'name', 'flag'):
            org = o.get_attr_origin(attr)
            if org == "<skipped column>":
                if getattr(o, attr) != False: ok = False
                continue
            c = ord(org[0]) - 65; rr = int(org[1:]) - 1
            if rr != r: ok = False
            if layout[c] != {'id':'Id','name':'Name','flag':'Flag'}[attr]: ok = False
            if conv(attr, ws.rows[rr][c]) != getattr(o, attr): ok = False
        # marks
        exp_marks = set()
        # range = first run of unknown titled columns
        known = {'Id','Name','Flag'}
        run = []; inr = False
        for ci, t in enumerate(layout):
            notr = (not t) or t in known
            if notr:
                if inr: break
                continue
            inr = True; run.append(ci)
        for ci in run:
            if cell_bool.val_from_cell(ws.rows[r][ci]): exp_marks.add(layout[ci])
            if o.get_attr_origin('marks', layout[ci]) != ws.rows[r][ci].coordinate: ok = False
        if o.marks != exp_marks: ok = False
        if o.ext is not None: ok = False
    stats['ok' if ok else 'bad'] += 1
    if not ok and stats['bad'] < 4:
        print(seed, stop, layout, rows, [None if o is None else (o.id, o.name, o.flag, o.marks) for o in objs], exp_rows)
print(stats)
