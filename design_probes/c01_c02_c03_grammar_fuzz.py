import sys, random, itertools, signal, collections
sys.path.insert(0, '/repo')
from ak.llparser import LLParser, GrammarIsRecursive, GrammarError, ParsingError, Error
class TO(Exception): pass
def h(*a): raise TO()
signal.signal(signal.SIGALRM, h)
TK = r"""(?P<SPACE>\s+)|(?P<a>a)|(?P<b>b)|(?P<c>c)"""
T = ['a','b','c']
def gen_grammar(rnd):
    nts = ['E'] + rnd.sample(['A','B','C','D'], rnd.randint(0,3))
    g = {}
    for nt in nts:
        alts = []
        for _ in range(rnd.randint(1,4)):
            ln = rnd.choice([0,1,1,2,2,3,4])
            alts.append(tuple(rnd.choice(T+nts) for _ in range(ln)))
        # dedupe keep order
        seen=set(); al=[]
        for x in alts:
            if x not in seen: seen.add(x); al.append(x)
        g[nt] = al
    return g
def left_rec(g):
    # nullable
    nul=set(); ch=True
    while ch:
        ch=False
        for n,alts in g.items():
            if n not in nul and any(all(s in nul for s in p) for p in alts): nul.add(n); ch=True
    edges = {n:set() for n in g}
    for n,alts in g.items():
        for p in alts:
            for s in p:
                if s in g:
                    edges[n].add(s)
                    if s not in nul: break
                else: break
    # cycle?
    for s in g:
        seen=set(); st=list(edges[s])
        while st:
            x=st.pop()
            if x==s: return True
            if x in seen: continue
            seen.add(x); st.extend(edges[x])
    return False
def derives(g, start, w, memo=None):
    # CYK-ish memo recognizer for general CFG without left-rec issues: use Earley-simple via memo on (sym, i, j) with fixpoint guard
    n=len(w)
    from functools import lru_cache
    sys.setrecursionlimit(10000)
    inprog=set()
    memo={}
    def sym(s,i,j):
        if s not in g: return j==i+1 and w[i]==s
        k=(s,i,j)
        if k in memo: return memo[k]
        if k in inprog: return False
        inprog.add(k)
        r=any(seq(p,0,i,j) for p in g[s])
        inprog.discard(k); memo[k]=r
        return r
    def seq(p,pi,i,j):
        if pi==len(p): return i==j
        if pi==len(p)-1: return sym(p[pi],i,j)
        return any(sym(p[pi],i,k) and seq(p,pi+1,k,j) for k in range(i,j+1))
    return sym(start,0,n)
def check_tree(g, t, toks):
    # returns list of leaves or raises
    leaves=[]
    def rec(e):
        if e.name not in g:
            assert e.is_leaf(), ("terminal not leaf", e.name)
            leaves.append(e.name); return
        if e.value is None:
            assert () in g[e.name], ("empty not allowed", e.name)
            return
        sig = tuple(c.name for c in e.value)
        assert sig in g[e.name], ("bad prod", e.name, sig)
        for c in e.value: rec(c)
    rec(t)
    assert t.name=='E'
    assert leaves==list(toks), ("leaves", leaves, toks)
stats=collections.Counter()
def run(seed):
    rnd=random.Random(seed)
    g=gen_grammar(rnd)
    lr=left_rec(g)
    for smart in (True, False):
        try:
            signal.alarm(2)
            p=LLParser(TK, productions={k:list(v) for k,v in g.items()}, smart_factorization=smart)
            signal.alarm(0)
            rec=False
        except GrammarIsRecursive: signal.alarm(0); rec=True
        except GrammarError as e: signal.alarm(0); stats['gerr']+=1; return
        except TO: print("CTOR TIMEOUT", seed, g); return
        if rec != lr:
            stats['rec_mismatch']+=1
            if stats['rec_mismatch']<4: print("REC MISMATCH", seed, g, "ctor says", rec, "ref", lr, smart)
            if not rec: continue
        if rec: stats['rec']+=1; continue
        amb=p.is_ambiguous()
        for n in range(0,5):
            for w in itertools.product(T, repeat=n):
                text=" ".join(w)
                try:
                    signal.alarm(2)
                    t=p.parse(text, do_cleanup=False)
                    signal.alarm(0)
                    ok=True
                except ParsingError: signal.alarm(0); ok=False
                except TO:
                    stats['timeout']+=1
                    if stats['timeout']<4: print("TIMEOUT", seed, g, w)
                    continue
                except Exception as e:
                    signal.alarm(0)
                    stats['exc']+=1
                    if stats['exc']<6: print("EXC", seed, g, w, type(e).__name__, e, smart)
                    continue
                if ok:
                    try: check_tree(g,t,w)
                    except AssertionError as e:
                        stats['c01']+=1
                        if stats['c01']<6: print("C01 FAIL", seed, g, w, e, smart)
                ref=derives(g,'E',w)
                if ok and not ref:
                    stats['accept_nonmember']+=1
                    if stats['accept_nonmember']<4: print("ACCEPT NONMEMBER", seed, g, w)
                if not amb and ref and not ok:
                    stats['c02']+=1
                    if stats['c02']<6: print("C02 FAIL reject member", seed, g, w, smart)
                stats['parses']+=1
        stats['amb' if amb else 'll1']+=1
for s in range(int(sys.argv[1]), int(sys.argv[2])): run(s)
print(stats)
