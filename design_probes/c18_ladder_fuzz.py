import sys, random, collections
sys.path.insert(0, '/repo')
from ak.xlsread import *
from c18_origin_fuzz import WS, Cell, is_empty
class O(XlsObject):
    _ATTRS = ['a', 'b', 'c', 'd']; _NUM_ID_ATTRS = 2
rules = {'a': ('A', cell_str), 'b': ('B', cell_str), 'c': ('C', cell_str), 'd': ('D', cell_str)}
st = collections.Counter()
for seed in range(20000):
    rnd = random.Random(seed)
    lead = rnd.randint(0, 1)
    titles = [None]*lead + ['A', 'B', 'C', 'D']
    if rnd.random() < 0.3: titles.insert(lead + rnd.randint(1, 3), 'X')
    n = rnd.randint(0, 7)
    rows = [list(titles)]
    for i in range(n):
        k = rnd.choice([0, 0, 1, 2, 3])   # number of blank leading cells
        row = []
        for j, t in enumerate(titles):
            if t is None: row.append(None)
            else:
                idx = j - lead
                row.append(None if (idx < k and i > 0) else rnd.choice(["p", "q", "r", None if idx >= 2 else "s", " "]))
        rows.append(row)
    if rnd.random() < 0.4: rows.insert(rnd.randint(1, len(rows)), [None]*len(titles))
    stop = rnd.choice(["blank all", "blank first"])
    # fill: data rows up to the end rule evaluated on the raw sheet
    filled = [list(r) for r in rows]
    prev = None
    for r in range(1, len(rows)):
        raw = rows[r]
        if stop == 'blank first':
            if is_empty(raw[0]): break
        elif all(is_empty(v) for v in raw): break
        if prev is not None:
            for j in range(lead, len(raw)):
                if is_empty(filled[r][j]): filled[r][j] = filled[prev][j]
                else: break
        prev = r
    try:
        a = list(iter_table(WS("s", rows), O, rules, stop_on=stop, ladder_format=True))
        b = list(iter_table(WS("s", filled), O, rules, stop_on=stop))
    except Exception as e:
        st['EXC ' + type(e).__name__] += 1
        if st['EXC ' + type(e).__name__] < 3: print(seed, type(e).__name__, e, rows)
        continue
    va = [None if o is None else tuple(getattr(o, x) for x in O._ATTRS) for o in a]
    vb = [None if o is None else tuple(getattr(o, x) for x in O._ATTRS) for o in b]
    ok = va == vb
    ws = WS("s", rows)
    for o in a:
        if o is None: continue
        for x in O._ATTRS:
            org = o.get_attr_origin(x); c = ord(org[0]) - 65; r = int(org[1:]) - 1
            if cell_str.val_from_cell(ws.rows[r][c]) != getattr(o, x): ok = False
    st['ok' if ok else 'bad'] += 1
    if not ok and st['bad'] < 4: print(seed, stop, rows, va, vb)
print(st)
