import sys, collections
from c06_random_histories_oracle import *
cnt = collections.Counter()
ex = {}
for seed in range(0, 3000):
    n = 6 + seed % 6; nbr = 1 + seed % 3
    try:
        parents, match, tag, heads, out, lines = run(seed, n=n, nbr=nbr)
    except Exception as e:
        cnt[('EXC', type(e).__name__)] += 1; ex.setdefault(('EXC', type(e).__name__), (seed, str(e)[:200])); continue
    errs = check(parents, match, tag, heads, out)
    order = sorted(heads, key=keyf)
    # is some head inside previous branch history?
    inside = False
    pa = set()
    for nm in order:
        if heads[nm] in pa: inside = True
        pa |= anc(parents, heads[nm])
    kinds = {(e[1], inside) for e in errs}
    for k in kinds:
        cnt[k] += 1
        if k not in ex: ex[k] = (seed, lines, out, errs)
    if not errs: cnt[('ok', inside)] += 1
for k, v in sorted(cnt.items(), key=str): print(k, v)
for k, v in ex.items():
    if k[0] != 'ok' and (len(k)<2 or k[1] is False or k[0]=='EXC'):
        print("=====", k)
        if k[0]=='EXC': print(v); continue
        print(v[0]); print("\n".join(v[1])); print(v[2]); print(v[3])
