import sys, random, itertools
sys.path.insert(0, '/repo')
from ak.color import ColorsConfig, ColorFmt
COLS = ['RED', 'GREEN', 'BLUE', '12', '(1,2,3)', 'g5', '']
MODS = ['bold', 'no_bold', 'underline', 'no_underline', 'blink', 'crossed', 'faint']
def gen(rnd):
    n = rnd.randint(1, 6)
    ids = [f"S{i}" if rnd.random()<0.6 else f"G{i}.X" for i in range(n)]
    descs = {}
    for i, sid in enumerate(ids):
        parent = None
        if rnd.random() < 0.6:
            cands = ids[:i] + (['MISSING'] if rnd.random()<0.2 else []) + ['TEXT', 'NAME']
            parent = rnd.choice(cands)
        parts = []
        col = None
        if rnd.random() < 0.6 or parent is None:
            fg = rnd.choice(COLS if parent else COLS[:-1] + ['-'])
            if rnd.random() < 0.5:
                bg = rnd.choice(COLS if parent else COLS[:-1] + ['-'])
                col = f"{fg}/{bg}"
            else: col = fg
        mods = ",".join(rnd.sample(MODS, rnd.randint(0, 2)))
        s = ":".join(x for x in [parent, col, mods] if x is not None and (x != "" or x is col))
        if s.endswith(":"): s = s[:-1]
        descs[sid] = s
    return descs
def result(conf, ids):
    return {i: str(conf.get_color(i)("t")) for i in ids}
bad = 0; exc = 0
for seed in range(5000):
    rnd = random.Random(seed)
    descs = gen(rnd)
    ids = list(descs) + ['TEXT', 'MISSING', 'NAME']
    try:
        ref = ColorsConfig(dict(descs))
    except Exception as e:
        exc += 1
        if exc < 4: print(seed, "EXC", type(e).__name__, str(e)[:100], descs)
        continue
    rref = result(ref, ids)
    for trial in range(6):
        items = list(descs.items()); rnd.shuffle(items)
        k = rnd.randint(0, len(items))
        init = dict(items[:k]); rest = items[k:]
        c = ColorsConfig(init)
        while rest:
            m = rnd.randint(1, len(rest))
            c.add_new_items(dict(rest[:m]), "later"); rest = rest[m:]
        r = result(c, ids)
        # explicit wins: built-ins registered in ctor before later items => ids colliding with built-ins differ; we have none
        if r != rref:
            bad += 1
            if bad < 4: print(seed, descs, "\nREF", rref, "\nGOT", r, init)
            break
print("bad", bad, "exc", exc)
