import sys, gc
sys.path.insert(0, '/repo')
from ak.ppobj import *
from ak.color import *
ft = PPEnumFieldType({1: ("one", "name_good"), 2: ("two", "name_warn")})
recs = [(1, 1), (2, 2)]
def render(conf):
    t = PPTable(recs, fields=["a", "st"], fields_types={"st": ft})
    return str(t.ch_text(colors_conf=conf))
confA = ColorsConfig({"TEXT": "RED", "WARN": "BLUE", "NAME": "CYAN"})
a = render(confA)
del confA
gc.collect()
confB = ColorsConfig({"TEXT": "GREEN", "WARN": "YELLOW", "NAME": "MAGENTA"})
b = render(confB)
confB2 = ColorsConfig({"TEXT": "GREEN", "WARN": "YELLOW", "NAME": "MAGENTA"})
ft2 = PPEnumFieldType({1: ("one", "name_good"), 2: ("two", "name_warn")})
t = PPTable(recs, fields=["a", "st"], fields_types={"st": ft2})
b_fresh = str(t.ch_text(colors_conf=confB2))
print(b == b_fresh)
print(repr(b.split("\n")[3]))
print(repr(b_fresh.split("\n")[3]))
