"""Functional mirror of ak.ghist RGraph (single repo, no components) in the style of the planned Lean model."""
import sys
def branch_key(name):
    # BranchName sort items for 'origin/<name>' ; master gets sentinel prefix
    ref = "origin/" + ("master" if name == "master" else name)
    s = ref
    for ch in "/.-_": s = s.replace(ch, ' ')
    items = []
    for ch in s.split():
        try: items.append(int(ch))
        except ValueError: items.append(ch)
    if name == "master": items = ["zzzzzzzzzzzzzz"] + items
    return items
def cmp_items(a, b):
    for x, y in zip(a, b):
        xi, yi = isinstance(x, int), isinstance(y, int)
        if xi and yi: r = x - y
        elif xi: r = -1
        elif yi: r = 1
        else: r = (x > y) - (x < y)
        if r: return r
    return len(a) - len(b)
import functools
def model(parents, match, tag, heads):
    sys.setrecursionlimit(10000)
    order = sorted(heads, key=functools.cmp_to_key(lambda a, b: cmp_items(branch_key(a), branch_key(b))))
    done, visited, selected = set(), {}, {}
    rc = {}       # iid -> dict(commit, parents, explicit)
    builds = {}   # iid -> dict(commit, parents(set of iid), rcommits(set), type)
    prev_builds = set()
    counter = [0]; fake = [10**9]
    out = []
    first = True
    for name in order:
        head = heads[name]
        bparents, anc, cur = {}, {}, []
        def is_cur_build(i): return i in builds and i not in prev_builds
        def maximal(s):
            s = set(s)
            while True:
                extra = {i for i in s if any(i in anc[j] for j in s)}
                if not extra: return s
                s -= extra
        def find_new(heads_):
            new = set()
            def bp(r):
                if is_cur_build(r) or r in bparents: return
                for p in reversed(rc[r]['parents']): bp(p)
                bparents[r] = prs_of(rc[r]['parents'])
                if rc[r]['explicit']: new.add(r)
            def prs_of(ps):
                prs = set()
                for p in ps:
                    if is_cur_build(p): prs.add(p)
                    else: prs |= bparents[p]
                return maximal(prs)
            for h in reversed(heads_): bp(h)
            return new, prs_of(heads_)
        def classify(c):
            if c in done: return []
            if c in visited: return visited[c]
            return [selected[c]]
        def visit(c):
            if c in done or c in visited or c in selected: return classify(c)
            frontier = []
            for p in reversed(parents[c]):
                for r in visit(p):
                    if r not in frontier: frontier.append(r)
            is_head = c == head
            if not (match[c] or frontier):
                done.add(c); return []
            is_rbuild = False; new = set(); pb = set()
            if tag[c] or is_head:
                new, pb = find_new(frontier)
                is_rbuild = bool(match[c] or new or len(pb) > 1)
            if match[c] or is_rbuild:
                iid = counter[0]; counter[0] += 1
                rc[iid] = dict(commit=c, parents=list(frontier), explicit=match[c])
                selected[c] = iid
                if is_rbuild:
                    rcs = set(new)
                    rcs.add(iid)
                    builds[iid] = dict(commit=c, parents=set(pb), rcommits=rcs, type='N' if tag[c] else 'NB')
                    a = {}
                    s = set()
                    for p in pb: s.add(p); s |= anc[p]
                    anc[iid] = s
                    cur.append(iid)
            else:
                visited[c] = frontier
            return classify(c)
        rheads = visit(head)
        # not merged (repaired semantics)
        reach = set(); st = list(rheads)
        while st:
            r = st.pop()
            if r not in reach: reach.add(r); st.extend(rc[r]['parents'])
        nm = set() if first else {i for i, r in rc.items() if r['explicit'] and i not in reach}
        blist = [(builds[i]['type'], builds[i]['commit'], sorted(rc[r]['commit'] for r in builds[i]['rcommits'] if rc[r]['explicit'])) for i in sorted(cur, reverse=True)]
        if nm: blist.insert(0, ('NM', None, sorted(rc[r]['commit'] for r in nm)))
        prev_builds |= set(anc.keys())
        first = False
        if blist: out.append((name, blist))
    return dict(reversed(out)), [n for n, _ in reversed(out)]
