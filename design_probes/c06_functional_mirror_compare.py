import sys
sys.argv = [sys.argv[0]] + sys.argv[1:]
import c06_random_histories_oracle as g1  # point sys.path at a tree with the C06 repair applied
import c06_functional_mirror as gm, collections
cnt = collections.Counter()
for seed in range(int(sys.argv[1]), int(sys.argv[2])):
    n = 6 + seed % 11; nbr = 1 + seed % 5
    parents, match, tag, heads, out, lines = g1.run(seed, n=n, nbr=nbr)
    mo, order = gm.model(parents, match, tag, heads)
    if mo != out or list(out.keys()) != order:
        cnt['diff'] += 1
        if cnt['diff'] < 4:
            print(seed); print("\n".join(lines)); print("REAL", out); print("MODEL", mo)
    else: cnt['same'] += 1
print(cnt)
