import sys, random, json, collections, logging
REPO = sys.argv[3] if len(sys.argv) > 3 else '/tmp/scratch/repo'
sys.path.insert(0, REPO)
logging.disable(logging.CRITICAL)
from ak.ghist import ProjectRepo, ReposCollection, BuildNumData
from tests.mock_git import MockedGitRepo
import c07_functional_mirror as gm2
class StdTestRepo(ProjectRepo):
    _SAVED_BUILD_NUM_SOURCES = ["VERSION", ]
    def _read_saved_build_num_from_file(self, blob, path):
        nums = [int(c) for c in blob.data_stream.read().decode().strip().split('.')]
        if len(nums) == 2: nums.append(None)
        return BuildNumData(*nums)
    def read_components_from_file(self, v_file_path, blob):
        d = json.load(blob.data_stream)
        return {c: [int(n) for n in v.split('.')] for c, v in d.items()}
class AppRepo(StdTestRepo):
    _COMPONENTS_VERSIONS_LOCATIONS = {'lib': 'DEPENDS'}
class R2(MockedGitRepo):
    def _mk_commit(self, d, prev):
        c = super()._mk_commit(d, prev)
        c.parents = [p for p in c.parents if p != 0]
        return c
def gen_repo(rnd, nbr_max, base_names, with_pins=None, pmerge=0.15):
    """returns commits dict, heads; branches fork from earlier commits; occasional merges"""
    commits = {}; heads = {}
    cid = 0
    allc = []
    nbr = rnd.randint(1, nbr_max)
    names = base_names[:nbr]
    for bi, name in enumerate(names):
        parent = rnd.choice(allc) if allc and rnd.random() < 0.85 else None
        n = rnd.randint(1, 4)
        for k in range(n):
            cid += 1
            ps = [parent] if parent else []
            if parent and allc and rnd.random() < pmerge:
                o = rnd.choice(allc)
                if o != parent: ps.append(o)
            commits[cid] = dict(parents=ps, tagbranch=name, tagged=rnd.random() < 0.5, match=rnd.random() < 0.4)
            parent = cid; allc.append(cid)
        heads[name] = cid
    return commits, heads
def ver_of(name):  # 'release/10.20' -> (10,20)
    if name == 'master': return (99, 0)
    a, b = name.split('/')[1].split('.')
    return (int(a), int(b))
def lines_of(commits, heads, pins=None):
    byhead = collections.defaultdict(list)
    for n, h in heads.items(): byhead[h].append(n)
    lines = []
    for c in sorted(commits, reverse=True):
        for n in byhead.get(c, []): lines.append(f"branch: origin/{n}")
        d = commits[c]
        ps = ",".join(map(str, d['parents'])) if d['parents'] else "0"
        l = f"{c}<-{ps}|{'BUG-9' if d['match'] else 'zzz'} c{c}"
        if d['tagged']:
            M, m = ver_of(d['tagbranch'])
            l += f"|tags: build_{c}_release_{M}_{m}_success"
        if pins is not None:
            v = pins[c]
            l += '|file:DEPENDS:{"lib": "%d.%d.%d"}' % v
        lines.append(l)
    return lines
def anc(commits, c):
    s = set(); st = [c]
    while st:
        x = st.pop()
        if x not in s: s.add(x); st.extend(commits[x]['parents'])
    return s
def run(seed):
    rnd = random.Random(seed)
    lib, lheads = gen_repo(rnd, int(__import__('os').environ.get('LIBBR','2')), ['release/10.20', 'release/10.21', 'master'], pmerge=0.1)
    first = min(lib); lib[first]['tagged'] = True
    app, aheads = gen_repo(rnd, 3, ['release/5.1', 'release/5.2', 'master'])
    # pins: choose lib builds; non-decreasing (by lib commit id) along every path
    lib_builds = sorted(c for c in lib if lib[c]['tagged'])
    pins = {}
    for c in sorted(app):
        lo = max([pins_idx for pins_idx in (pins.get(p, (0,))[0:1][0] if False else 0 for p in [])] + [0])
        lo = 0
        for p in app[c]['parents']: lo = max(lo, app[p]['pin_idx'])
        idx = min(len(lib_builds)-1, lo + rnd.choice([0, 0, 1, 1, 2]))
        app[c]['pin_idx'] = idx
        b = lib_builds[idx]
        M, m = ver_of(lib[b]['tagbranch'])
        pins[c] = (M, m, b)
    lib_repo = R2(*lines_of(lib, lheads), name="lib"); app_repo = R2(*lines_of(app, aheads, pins), name="app")
    base = 1_700_000_000
    for r in (lib_repo, app_repo):
        for c in r.all_commits.values(): c.committed_date = base + c.intid
    order = [('app', AppRepo('app', app_repo, 'origin')), ('lib', StdTestRepo('lib', lib_repo, 'origin'))]
    if rnd.random() < 0.5: order.reverse()
    rcoll = ReposCollection(dict(order))
    data = dict(rcoll.make_reports_data("BUG-9"))
    real = {}
    for rid, rg in data.items():
        out = {}
        for rb in rg.branches:
            l = []
            for b in rb.get_rbuilds_list():
                ty = {0: 'N', 1: 'NB', 2: 'NM'}[b.build_type]
                if b.build_num.is_fake_not_built(): ty = 'NB'
                bumps = {c: (bp.to_buildnum.as_tuple()[:3], sorted(x.as_tuple()[:3] for x in bp.from_build_nums)) for c, bp in b.bumps.items()}
                l.append((ty, b.rcommit.commit.intid if b.rcommit else None,
                          sorted(r.commit.intid for r in b.rcommits.values() if r.is_explicit), bumps,
                          sorted((x[0], str(x[1]), x[2].as_tuple()) for x in b.included_at)))
            out[rb.branch_name] = l
        real[rid] = out
    # model
    def mc(commits, pins=None):
        d = {}
        for c, x in commits.items():
            M, m = ver_of(x['tagbranch'])
            d[c] = dict(parents=x['parents'], tags=[(M, m, c, c)] if x['tagged'] else [], match=x['match'],
                        pins={'lib': pins[c]} if pins else None)
        return d
    gl = gm2.rgraph('lib', mc(lib), lheads, {})
    ga = gm2.rgraph('app', mc(app, pins), aheads, {'lib': gl})
    model = {'lib': gm2.summary(gl), 'app': gm2.summary(ga)}
    return real, model, lines_of(lib, lheads), lines_of(app, aheads, pins)
if __name__ == '__main__':
    cnt = collections.Counter()
    for seed in range(int(sys.argv[1]), int(sys.argv[2])):
        try:
            real, model, ll, al = run(seed)
        except Exception as e:
            import traceback
            cnt['EXC ' + type(e).__name__] += 1
            if cnt['EXC ' + type(e).__name__] < 3: print(seed); traceback.print_exc()
            continue
        if real != model:
            cnt['diff'] += 1
            if cnt['diff'] < 4:
                print("seed", seed); print("\n".join(ll)); print("--"); print("\n".join(al))
                for rid in ('lib', 'app'):
                    if real[rid] != model[rid]: print(rid, "REAL ", real[rid]); print(rid, "MODEL", model[rid])
        else: cnt['same'] += 1
    print(cnt)
