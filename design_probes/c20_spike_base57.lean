namespace ShortUuid

def B : Nat := 57
def LEN : Nat := 22

/-- `_int_to_str` loop: little-endian base-57 digits, no padding. -/
def digits (fuel : Nat) (n : Nat) : List Nat :=
  match fuel with
  | 0 => []
  | fuel+1 => if n = 0 then [] else (n % B) :: digits fuel (n / B)

/-- Horner evaluation over the reversed string = little-endian value. -/
def value : List Nat → Nat
  | [] => 0
  | d :: ds => d + B * value ds

def pad (ds : List Nat) : List Nat := ds ++ List.replicate (LEN - ds.length) 0

def encode (n : Nat) : List Nat := pad (digits n n)

theorem value_replicate_zero (k : Nat) : value (List.replicate k 0) = 0 := by
  induction k with
  | zero => rfl
  | succ k ih => simp [List.replicate, value, ih]

theorem value_append_zeros (ds : List Nat) (k : Nat) :
    value (ds ++ List.replicate k 0) = value ds := by
  induction ds with
  | nil => simpa [value] using value_replicate_zero k
  | cons d ds ih => simp [value, ih]

theorem value_digits (fuel n : Nat) (h : n ≤ fuel) : value (digits fuel n) = n := by
  induction fuel generalizing n with
  | zero => simp [digits, value]; omega
  | succ f ih =>
    unfold digits
    split
    · simp [value]; omega
    · rename_i hn
      have : n / B ≤ f := by
        have : n / B < n := Nat.div_lt_self (by omega) (by decide)
        omega
      rw [value, ih _ this]
      have := Nat.mod_add_div n B
      omega

theorem decode_encode (n : Nat) : value (encode n) = n := by
  unfold encode pad
  rw [value_append_zeros, value_digits n n (Nat.le_refl _)]

theorem digits_lt (fuel n : Nat) : ∀ d ∈ digits fuel n, d < B := by
  induction fuel generalizing n with
  | zero => simp [digits]
  | succ f ih =>
    unfold digits
    split
    · simp
    · intro d hd
      simp at hd
      rcases hd with h | h
      · subst h; exact Nat.mod_lt _ (by decide)
      · exact ih _ _ h

theorem digits_length (fuel n k : Nat) (h : n < B ^ k) : (digits fuel n).length ≤ k := by
  induction fuel generalizing n k with
  | zero => simp [digits]
  | succ f ih =>
    unfold digits
    split
    · simp
    · rename_i hn
      cases k with
      | zero => simp at h; omega
      | succ k =>
        simp
        apply ih
        rw [Nat.pow_succ] at h
        exact Nat.div_lt_of_lt_mul (by rw [Nat.mul_comm]; exact h)

theorem two128_lt : 2 ^ 128 < B ^ LEN := by decide

theorem encode_length (n : Nat) (h : n < 2 ^ 128) : (encode n).length = LEN := by
  have h1 : (digits n n).length ≤ LEN := digits_length n n LEN (Nat.lt_trans h two128_lt)
  unfold encode pad
  simp
  omega

end ShortUuid
#print axioms ShortUuid.decode_encode
#print axioms ShortUuid.encode_length
