"""C07 spec oracle on general parent DAGs: included_at(R) for branch P = minimal own builds of P whose pin contains R."""
import sys, collections
sys.argv = [sys.argv[0]] + sys.argv[1:]
import c07_functional_mirror_compare as gm2_cmp, c07_functional_mirror as gm2
from c06_functional_mirror import branch_key, cmp_items
import functools, random
def check(seed):
    rnd = random.Random(seed)
    # regenerate inputs exactly as gm2_cmp.run does, but keep the raw structures
    real, model, ll, al = gm2_cmp.run(seed)
    return real, ll, al
def parse_lines(lines):
    commits = {}; heads = {}
    pend = []
    for l in lines:
        if l.startswith('branch:'):
            pend.append(l.split('origin/')[1]); continue
        ch = l.split('|')
        cid, ps = ch[0].split('<-')
        cid = int(cid); ps = [int(x) for x in ps.split(',') if int(x) != 0]
        tags = [c for c in ch if c.startswith('tags:')]
        pins = [c for c in ch if c.startswith('file:DEPENDS:')]
        pin = None
        if pins:
            import json
            v = json.loads(pins[0][len('file:DEPENDS:'):])['lib']
            pin = tuple(int(x) for x in v.split('.'))
        commits[cid] = dict(parents=ps, tagged=bool(tags), match='BUG-9' in ch[1], pin=pin)
        for n in pend: heads[n] = cid
        pend = []
    return commits, heads
def anc(commits, c):
    s = set(); st = [c]
    while st:
        x = st.pop()
        if x not in s: s.add(x); st.extend(commits[x]['parents'])
    return s
bad = 0; tot = 0; nonempty = 0
for seed in range(int(sys.argv[1]), int(sys.argv[2])):
    real, ll, al = check(seed)
    lib, lheads = parse_lines(ll); app, aheads = parse_lines(al)
    # lib report builds from the real output: commit ids of normal builds (tagged) per branch
    lib_rb = {}   # commit -> set of ancestor rbuild commits (inclusive) in lib rbuild graph ~ git ancestry restricted to reported builds
    reported = set()
    for br, bl in real['lib'].items():
        for ty, c, cs, bumps, inc in bl:
            if c is not None: reported.add(c)
    # latest reported lib build contained in version v=(M,m,c): nearest reported ancestors-or-self of commit c
    def to_rb(c):
        # set of maximal reported builds among ancestors-or-self (normally one)
        A = anc(lib, c)
        R = {r for r in reported if r in A}
        return {r for r in R if not any(r in anc(lib, r2) and r != r2 for r2 in R)}
    def contains(pinc, R):
        return any(R in anc(lib, t) for t in to_rb(pinc))
    order = sorted(aheads, key=functools.cmp_to_key(lambda a, b: cmp_items(branch_key(a), branch_key(b))))
    seen = set()
    exp = collections.defaultdict(set)
    for name in order:
        A = anc(app, aheads[name])
        elig = {c for c in A - seen if app[c]['tagged'] or c == aheads[name]}
        for R in reported:
            if not lib[R]['tagged']: continue   # unbuilt lib head has no version to pin
            cont = {c for c in elig if contains(app[c]['pin'][2], R)}
            mins = {c for c in cont if not any(c2 in anc(app, c) and c2 != c for c2 in cont)}
            for c in mins:
                exp[R].add((name, c if app[c]['tagged'] else 'NB'))
        seen |= A
    got = collections.defaultdict(set)
    for br, bl in real['lib'].items():
        for ty, c, cs, bumps, inc in bl:
            for (rid, pbr, bn) in inc:
                got[c].add((pbr, bn[3] if bn[0] != 8888 else 'NB'))
    tot += 1
    if any(exp.values()): nonempty += 1
    if dict(exp) != dict(got):
        bad += 1
        if bad < 4:
            print("seed", seed); print("\n".join(ll)); print('--'); print("\n".join(al)); print("EXP", dict(exp)); print("GOT", dict(got))
print("bad", bad, "of", tot, "nonempty", nonempty)
