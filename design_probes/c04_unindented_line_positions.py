import sys
sys.path.insert(0, '/repo')
from ak import llparser
from ak.llparser import LLParser

# C04: un-indented lines
p = LLParser(r"""(?P<SPACE>\s+)|(?P<WORD>[a-z]+)|(?P<NUM>[0-9]+)""",
    productions={'E': [('WORD','E'), ('NUM','E'), ()]})
text = "ab 12\ncd\n\n  ef"
toks = list(p.tokenizer.tokenize(text, "t"))
for t in toks: print(t)
r = p.parse(text, do_cleanup=False)
def walk(e, d=0):
    print(" "*d, e.name, e.span, repr(e.get_orig_text(text)) if e.start_pos else None)
    if not e.is_leaf():
        for c in e.value: walk(c, d+1)
walk(r)
