#!/usr/bin/env python3
"""writes seeded/RESULTS.md from the last_run entries of seeded/*/meta.json"""
import json, os
S = "/verif/seeded"
rows = []
for name in sorted(os.listdir(S)):
    mp = os.path.join(S, name, "meta.json")
    if not os.path.exists(mp):
        continue
    m = json.load(open(mp))
    lr = m.get("last_run", {})
    first = ""
    np_ = os.path.join(S, name, "notes.md")
    if os.path.exists(np_):
        for line in open(np_):
            line = line.strip().lstrip("#").strip()
            if line:
                first = line[:140]
                break
    rows.append((name, m["property"], lr.get("verdict", "not run"), lr.get("how", ""), lr.get("repo_head", ""), first))
with open(os.path.join(S, "RESULTS.md"), "w") as f:
    f.write("# Seeded breaking changes and what the checks say about them\n\n"
            "Each change was written by a fresh sub-agent that saw only the property text and a scratch worktree of /repo.\n"
            "Confirmed by `tools/run_seeded.py --full`: the patch applies to /repo HEAD, the unedited suite passes with it,\n"
            "the demonstration fails with it and passes without it; then `./check Cxx --tier quick` was run against the patched tree.\n\n"
            "| change | property | verdict | replay | /repo HEAD | first line of notes |\n|---|---|---|---|---|---|\n")
    for r in rows:
        f.write("| %s | %s | %s | %s | %s | %s |\n" % r)
    n = len(rows); c = sum(1 for r in rows if r[2] == "CAUGHT")
    f.write("\n%d changes, %d caught (%d with a concrete replay).\n" % (n, c, sum(1 for r in rows if r[2] == "CAUGHT" and r[3] == "concrete replay")))
    rulings = []
    for name in sorted(os.listdir(S)):
        mp = os.path.join(S, name, "meta.json")
        if os.path.exists(mp):
            m = json.load(open(mp))
            if m.get("ruling"):
                rulings.append((name, m["ruling"]))
    if rulings:
        f.write("\n## Rulings (changes that are not caught with a concrete replay by their own property's check)\n\n")
        for name, r in rulings:
            f.write("* **%s** — %s\n" % (name, r))
print("written", len(rows))
