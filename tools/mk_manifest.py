#!/venv/bin/python
"""Regenerates MANIFEST.json from the harness modules (harness/cXX.py with READY != False)."""
import json, os, sys
VERIF = os.path.dirname(os.path.dirname(os.path.abspath(__file__)))
sys.path.insert(0, VERIF)
sys.path.insert(0, "/repo")
from harness import core

props = [json.loads(l) for l in open(os.path.join(VERIF, "properties.jsonl"))]
ready = core.all_ready()
checks, na = [], []
for p in props:
    pid = p["id"]
    if pid in ready:
        m = core.load_module(pid)
        checks.append({
            "property_id": pid,
            "quick_cmd": "./check %s --tier quick" % pid,
            "thorough_cmd": "./check %s --tier thorough" % pid,
            "evidence_file": "evidence/%s.json" % pid,
            "replay_cmd_template": "./check %s --replay {path}" % pid,
            "engine": "lean-proof+correspondence",
            "level_claimed": {"category": "proof", "text": getattr(m, "LEVEL_TEXT", "Lean 4 theorems about an executable model of the anchored code, tied to the code by a correspondence check (details in DESIGN.md §10)"), "design_ref": "DESIGN.md §5 " + pid},
            "level_note": getattr(m, "LEVEL_NOTE", "Trusted: Lean kernel (axioms propext, Classical.choice, Quot.sound), harness adapter/oracle, sampled correspondence."),
            "technique": getattr(m, "TECHNIQUE", "Lean 4 theorems on an executable model + correspondence check against the real code"),
        })
    else:
        reason = "check not built yet (model and theorems planned in DESIGN.md §5 %s); not claimed until it runs" % pid
        try:
            m = core.load_module(pid)
            reason = getattr(m, "NOT_READY_REASON", reason)
        except Exception:
            pass
        na.append({"property_id": pid, "reason": reason})
man = {
    "version": 1,
    "setup_cmd": "./check --setup",
    "hooks": {"guard": "AK_PY_VERIF", "enable": "none needed: the real code is driven in-process through its public API",
              "baseline_off_cmd": "cd /repo && /venv/bin/python -m pytest -q -p no:cacheprovider",
              "source_commits": [], "add_only": True},
    "engines": [{"name": "lean-proof+correspondence", "path": "lean/ harness/ check",
                 "serves_properties": ready,
                 "kind_free_text": "Lean 4 executable models and kernel-checked theorems; translator for constants/tables; "
                                   "differential (correspondence) check of the model's compiled driver against the real code; "
                                   "property oracle on the real code for replays"}],
    "checks": checks,
    "notes": "See DESIGN.md. known_findings.json lists repaired defects (fix: commits in /repo).",
    "not_applicable": na,
}
json.dump(man, open(os.path.join(VERIF, "MANIFEST.json"), "w"), indent=1)
print("MANIFEST.json: %d checks, %d not claimed" % (len(checks), len(na)))
