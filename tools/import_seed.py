#!/usr/bin/env python3
"""copies a seeded change produced by a sub-agent (/tmp/seed_Cxx_out/m<i>) into /verif/seeded/Cxx-m<i>/"""
import json, os, shutil, sys
for pid in sys.argv[1:]:
    for i in range(1, 40):
        src = "/tmp/seed_%s_out/m%d" % (pid, i)
        if not os.path.exists(os.path.join(src, "patch.diff")):
            continue
        dst = "/verif/seeded/%s-m%d" % (pid, i)
        os.makedirs(dst, exist_ok=True)
        for f in ("patch.diff", "demo.py", "notes.md"):
            if os.path.exists(os.path.join(src, f)):
                shutil.copy(os.path.join(src, f), dst)
        meta_p = os.path.join(dst, "meta.json")
        meta = json.load(open(meta_p)) if os.path.exists(meta_p) else {}
        meta.update({"property": pid,
                     "origin": "written by a fresh sub-agent that was given only the property text and a scratch worktree of /repo (nothing from /verif)",
                     "needs_to_manifest": "see notes.md",
                     "confirmed_by": "tools/run_seeded.py --full (patch applies to HEAD, unedited suite passes with it, demo fails with it and passes without it); result below"})
        json.dump(meta, open(meta_p, "w"), indent=1)
        print("imported", dst)
