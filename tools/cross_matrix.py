#!/venv/bin/python
"""Runs the checks of the *other* properties anchored in the same source file against each seeded change:
which checks alarm on a change that was written to break a different property?
    tools/cross_matrix.py [name-regex]
Prints one line per (seed, other property) and writes seeded/CROSS.md."""
import json, os, re, subprocess, sys, time
VERIF = os.path.dirname(os.path.dirname(os.path.abspath(__file__)))
S = os.path.join(VERIF, "seeded")
GROUPS = [{"C01", "C02", "C03", "C04", "C05"}, {"C06", "C07"}, {"C08", "C09", "C10", "C12", "C14"},
          {"C10", "C11", "C12", "C13"}, {"C16", "C17"}]
FILES = {"ak/llparser.py": GROUPS[0], "ak/ghist.py": GROUPS[1], "ak/color.py": GROUPS[2], "ak/ppobj.py": GROUPS[3],
         "ak/conn_http.py": GROUPS[4], "ak/mcaller_http.py": {"C17"}, "ak/mcaller.py": {"C17"}}

def sh(cmd, **kw):
    try:
        p = subprocess.run(cmd, stdout=subprocess.PIPE, stderr=subprocess.STDOUT, text=True, **kw)
        return p.returncode, p.stdout
    except subprocess.TimeoutExpired:
        return 124, "TIMEOUT"

pat = re.compile(sys.argv[1]) if len(sys.argv) > 1 else None
rows = []
touched = set()
for name in sorted(os.listdir(S)):
    d = os.path.join(S, name)
    if not os.path.exists(os.path.join(d, "patch.diff")) or (pat and not pat.search(name)):
        continue
    own = json.load(open(os.path.join(d, "meta.json")))["property"]
    files = set(re.findall(r"^\+\+\+ b/(\S+)", open(os.path.join(d, "patch.diff")).read(), re.M))
    others = set()
    for f in files:
        others |= FILES.get(f, set())
    others.discard(own)
    if not others:
        continue
    wt = "/tmp/wt_cross_%s_%d" % (name, os.getpid())
    sh(["git", "-C", "/repo", "worktree", "add", "--detach", wt, "HEAD"])
    try:
        if sh(["git", "-C", wt, "apply", os.path.join(d, "patch.diff")])[0] != 0:
            continue
        for pid in sorted(others):
            t0 = time.time()
            rc, out = sh([os.path.join(VERIF, "check"), pid], env=dict(os.environ, AK_PY_REPO=wt), timeout=1800)
            touched.add(pid)
            v = [l for l in out.split("\n") if l.startswith("VIOLATION")]
            kind = "quiet" if rc == 0 else ("ALARM(no-failing-input-found)" if v and all("no-failing" in x for x in v) else ("ALARM(concrete)" if v else "rc=%d" % rc))
            why = ""
            if rc == 1:
                m = re.search(r'"oracle": "([^"]{0,160})', "".join(open(os.path.join(VERIF, x.split("replay=")[1].split()[0])).read() for x in v[:1] if "replay=" in x))
                why = m.group(1) if m else ""
            rows.append((name, own, pid, kind, "%.0fs" % (time.time() - t0), why))
            print("%-8s breaks %s | check %s: %-30s %s %s" % rows[-1], flush=True)
    finally:
        sh(["git", "-C", "/repo", "worktree", "remove", "--force", wt])
for pid in sorted(touched):
    sh([os.path.join(VERIF, "check"), pid])
with open(os.path.join(S, "CROSS.md"), "a") as f:
    f.write("\n## run of %s\n\n| change | written against | other check | verdict | time | oracle message |\n|---|---|---|---|---|---|\n" % time.strftime("%Y-%m-%d %H:%M"))
    for r in rows:
        f.write("| %s | %s | %s | %s | %s | %s |\n" % r)
