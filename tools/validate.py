#!/usr/bin/env python3
"""validates MANIFEST.json and evidence/*.json against the schemas (run with python3-vt)"""
import json, glob, sys, jsonschema
ok = True
def v(path, schema):
    global ok
    try:
        jsonschema.validate(json.load(open(path)), json.load(open(schema)))
        print("valid  ", path)
    except Exception as e:
        ok = False
        print("INVALID", path, str(e)[:300])
v("MANIFEST.json", "/root/.vp/MANIFEST.schema.json")
for f in sorted(glob.glob("evidence/*.json")):
    v(f, "/root/.vp/EVIDENCE.schema.json")
sys.exit(0 if ok else 1)
