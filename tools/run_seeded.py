#!/venv/bin/python
"""Runs the checks against the seeded breaking changes kept in /verif/seeded/<name>/.

For each directory with patch.diff + meta.json ({"property": "Cxx", ...}): a scratch worktree of /repo's HEAD
is created under /tmp, the patch applied there, (optionally) the repo's test suite and the demonstration
are run, then `AK_PY_REPO=<worktree> ./check Cxx --tier quick`; the worktree is removed afterwards.
    tools/run_seeded.py [--full] [name ...]      --full also runs pytest and the demo
Afterwards the check is re-run against /repo so that the generated Lean files are back in step.
"""
import json, os, subprocess, sys, time

VERIF = os.path.dirname(os.path.dirname(os.path.abspath(__file__)))
SEEDED = os.path.join(VERIF, "seeded")


def sh(cmd, **kw):
    try:
        p = subprocess.run(cmd, stdout=subprocess.PIPE, stderr=subprocess.STDOUT, text=True, **kw)
    except subprocess.TimeoutExpired as e:
        return 124, "TIMEOUT after %ss" % e.timeout
    return p.returncode, p.stdout


def main():
    args = [a for a in sys.argv[1:] if not a.startswith("--")]
    full = "--full" in sys.argv
    names = args or sorted(d for d in os.listdir(SEEDED) if os.path.exists(os.path.join(SEEDED, d, "patch.diff")))
    rows, touched = [], set()
    for name in names:
        d = os.path.join(SEEDED, name)
        meta = json.load(open(os.path.join(d, "meta.json")))
        pid = meta["property"]
        wt = "/tmp/wt_seed_%s_%d" % (name, os.getpid())
        sh(["git", "-C", "/repo", "worktree", "add", "--detach", wt, "HEAD"])
        try:
            rc, out = sh(["git", "-C", wt, "apply", os.path.join(d, "patch.diff")])
            if rc != 0:
                rows.append((name, pid, "PATCH DOES NOT APPLY", out.strip()[-200:]))
                continue
            extra = ""
            if full:
                rc, out = sh(["/venv/bin/python", "-m", "pytest", "-q", "-p", "no:cacheprovider", "-x"], cwd=wt)
                extra += "pytest:%s " % ("pass" if rc == 0 else "FAIL")
                demo = os.path.join(d, "demo.py")
                if os.path.exists(demo):
                    rc, out = sh(["/venv/bin/python", demo], env=dict(os.environ, REPO=wt, PYTHONPATH=wt), timeout=300)
                    extra += "demo-with-change:%s " % ("fails(as it should)" if rc != 0 else "PASSES(!)")
                    rc, out = sh(["/venv/bin/python", demo], env=dict(os.environ, REPO="/repo", PYTHONPATH="/repo"), timeout=600)
                    extra += "demo-clean:%s " % ("passes" if rc == 0 else "FAILS(!)")
            t0 = time.time()
            rc, out = sh([os.path.join(VERIF, "check"), pid, "--tier", "quick"], env=dict(os.environ, AK_PY_REPO=wt), timeout=3600)
            touched.add(pid)
            viol = [l for l in out.split("\n") if l.startswith("VIOLATION")]
            verdict = "CAUGHT" if rc == 1 and viol else ("MISSED" if rc == 0 else "ERROR rc=%d" % rc)
            how = ""
            if viol:
                how = "no-failing-input-found" if all("no-failing-input-found" in v for v in viol) else "concrete replay"
            rows.append((name, pid, verdict, "%s %s(%.0fs)" % (how, extra, time.time() - t0)))
            meta["last_run"] = {"verdict": verdict, "how": how, "details": extra.strip(),
                                "violation_lines": viol[:3], "repo_head": sh(["git", "-C", "/repo", "rev-parse", "--short", "HEAD"])[1].strip()}
            json.dump(meta, open(os.path.join(d, "meta.json"), "w"), indent=1)
            print("%s  %s  %-8s %s" % rows[-1], flush=True)
            if verdict.startswith("ERROR"):
                print(out[-1500:])
        finally:
            sh(["git", "-C", "/repo", "worktree", "remove", "--force", wt])
    for pid in sorted(touched):   # bring Gen files back in step with /repo
        sh([os.path.join(VERIF, "check"), pid, "--tier", "quick"])
    w = max(len(r[0]) for r in rows) if rows else 10
    for r in rows:
        print("%-*s  %s  %-8s %s" % (w, r[0], r[1], r[2], r[3]))
    return 0 if all(r[2] == "CAUGHT" for r in rows) else 1


if __name__ == "__main__":
    sys.exit(main())
