import AkVerif.Model.Proto
import AkVerif.Model.Table
import AkVerif.Model.TableFmt
open Ak Ak.Proto Table

/-- the live table with the arguments it was built from, and the string last returned by `str` -/
structure St where
  tbl : Option (Tbl × CtorArgs) := none
  last : Option (List Char) := none
  /-- a sibling table built from the live table's format object with other records -/
  sib : Option (Tbl × CtorArgs) := none

def noTable : String := "err NoTable"

def doSet (s : St) (fmt : Option (List Char)) : St × String :=
  match s.tbl, fmt with
  | some (t, a), some f =>
    match applySetter t f with
    | .ok t' => ({ s with tbl := some (t', a) }, "ok")
    | .error e => (s, "err " ++ e.name)
  | _, _ => (s, noTable)

/-- `PPTable(records, fmt=f, fields=…, fields_types=…, fields_titles=…, header=…, footer=…)` -/
def doCtor (s : St) (fmt : Option (List Char)) : St × String :=
  match s.tbl, fmt with
  | some (_, a), some f =>
    -- the literal call: the same `fields` argument as the table was built with (none for a field-less table)
    let a' : CtorArgs := { a with fmt := some f, limits := none, skip := none }
    match mkTable a' with
    | .ok t' => ({ s with tbl := some (t', a') }, "ok")
    | .error e => (s, "err " ++ e.name)
  | _, _ => (s, noTable)

def showOptCps : Option (List Char) → String
  | some s => "some:" ++ showCps s
  | none => "none"

def showPCol (p : PCol) : String :=
  "(" ++ showCps p.fieldName ++ " " ++ showOptCps p.modifier ++ " " ++ (if p.breakBy then "1" else "0") ++ " "
    ++ showOptCps p.valuePath ++ " " ++ (match p.width with
      | .unspec => "None None"
      | .hidden => "-1 -1"
      | .range a b => toString a ++ " " ++ toString b) ++ ")"

def showOptInt : Option Int → String
  | some i => toString i
  | none => "None"

/-- what `_PPTableParsedFmt(fmt)` holds (diagnostic line) -/
def showPFmt (p : PFmt) : String :=
  (match p.cols with
    | .keep => "keep"
    | .all => "all"
    | .explicit cs => "cols " ++ " ".intercalate (cs.map showPCol))
  ++ " ; " ++ (match p.vis with
    | none => "None"
    | some (a, b) => showOptInt a ++ ":" ++ showOptInt b)

def handle (s : St) (line : String) : St × String :=
  match splitWs line with
  | ["reset"] => ({}, "ok")
  | ["parse", f] =>
    match parseCps f with
    | some cs => (s, showExcept showPFmt (parseFmt cs))
    | none => (s, "bad-op")
  | "new" :: spec =>
    match Wire.parseSpec spec with
    | some a =>
      match mkTable a with
      | .ok t => ({ tbl := some (t, a), last := none }, "ok")
      | .error e => ({}, "err " ++ e.name)
    | none => ({}, "bad-op")
  | ["str"] =>
    match s.tbl with
    | some (t, _) => let f := fmtToStr t.fmt; ({ s with last := some f }, "ok " ++ showCps f)
    | none => (s, noTable)
  | ["print"] =>
    match s.tbl with
    | some (t, a) =>
      match render t with
      | .ok (t', ls) => ({ s with tbl := some (t', a) }, "ok " ++ Wire.showLines ls)
      | .error e => ({ s with tbl := none }, "err " ++ e.name)   -- a failed print ends the history
    | none => (s, noTable)
  | ["set", f] => doSet s (parseCps f)
  | ["setlast"] => match s.last with
    | some f => doSet s (some f)
    | none => (s, noTable)
  | "setsub" :: how :: idxs =>   -- table.fmt = <some of its own reported column descriptions, no limits>
    match s.tbl, idxs.mapM (·.toNat?), (if how = "v" then some false else if how = "p" then some true else none) with
    | some (t, _), some (i :: is), some plain => doSet s (some (subFmtStr t.fmt (i :: is) plain))
    | none, some (_ :: _), some _ => (s, noTable)
    | _, _, _ => (s, "bad-op")
  | "newobj" :: rest =>   -- a table whose format is built from ReprColumn objects (no parser involved)
    match Wire.splitAt rest with
    | [spec, q] =>
      match Wire.parseSpec spec, Wire.parseDirect q with
      | some a, some (cols, lims) =>
        match mkTableDirect a cols lims with
        | .ok t => ({ tbl := some (t, a), last := none }, "ok")
        | .error e => ({}, "err " ++ e.name)
      | _, _ => ({}, "bad-op")
    | _ => ({}, "bad-op")
  | "sib" :: rest =>   -- PPTable(records2, fmt_obj=table.fmt, …): a second table from the same format object
    match s.tbl, Wire.parseRest rest with
    | some (t, a), some r =>
      let u := mkTableFromFmt t.fmt r.records r.limits r.skip r.header r.footer
      ({ s with sib := some (u, { a with records := r.records, header := r.header, footer := r.footer }) }, "ok")
    | none, some _ => (s, noTable)
    | _, none => (s, "bad-op")
  | ["swap"] =>        -- the sibling becomes the live table and vice versa
    match s.tbl, s.sib with
    | some l, some b => ({ s with tbl := some b, sib := some l }, "ok")
    | _, _ => (s, noTable)
  | ["setlim", x, y] =>   -- table.fmt.set_limits((x, y))
    let lim (t : String) : Option (Option Int) := if t = "n" then some none else (parseInt t).map some
    match s.tbl, lim x, lim y with
    | some (t, a), some p, some q => ({ s with tbl := some (setLimits t p q, a) }, "ok")
    | none, some _, some _ => (s, noTable)
    | _, _, _ => (s, "bad-op")
  | "rmcols" :: names =>   -- table.remove_columns([...])
    match s.tbl, names.mapM parseCps with
    | some (t, a), some ns => ({ s with tbl := some (removeCols t ns, a) }, "ok")
    | none, some _ => (s, noTable)
    | _, none => (s, "bad-op")
  | ["ctorobj"] =>   -- PPTable(records, fmt_obj=table.fmt, header=…, footer=…)
    match s.tbl with
    | some (t, a) => ({ s with tbl := some (mkTableFromFmt t.fmt t.records none none a.header a.footer, a) }, "ok")
    | none => (s, noTable)
  | ["ctor", f] => doCtor s (parseCps f)
  | ["ctorlast"] => match s.last with
    | some f => doCtor s (some f)
    | none => (s, noTable)
  | _ => (s, "bad-op")

def main : IO Unit := runS handle {}
