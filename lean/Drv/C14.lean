import AkVerif.Model.Proto
import AkVerif.Model.ColorsConf
import AkVerif.Model.ColorsConfGlobal
import AkVerif.Gen.C14
/-!
Line protocol of C14 (stateful; `reset` starts a new case).

```
new <0|1> <cfg>                         ColorsConfig(cfg, no_color=…): configuration #n, becomes the target -> ok | err E
use <i>                                 configuration #i is the target of add/reg/pal/get/ids/rep/glob -> ok
add <cfg>                               conf.add_new_items(flat dict, "later")        -> ok | err E
reg <name> <cfg>                        conf.register_color_conf_component(cfg, name) -> ok | err E
cls <k>[@<name>] <parents|none> <accessors|none> <cfg|nodefaults>   define palette class k -> ok
pal <k> <0|1>                           P_k(conf, no_color=…), every accessor rendered -> ok a=prefix;… | err E
sub <k> <j> <0|1>                       P_k(conf, nc).get_sub_palette(P_j) (k declared `cls k+`) -> ok a=prefix;… | err E
get <id>                                conf.get_color(id)                            -> ok <prefix>
ids                                     sorted ids with R(esolved)/U(nresolved)       -> ok id:R;…
rep                                     conf.make_report(): per id status and colour  -> ok id:R:prefix;id:U:-;…
gpal                                    conf.get_palette(), the result is kept as #n  -> ok a=prefix;…
gread <n> <id>                          kept palette #n: its accessors and palette[id] -> ok a=prefix;…|prefix
glob                                    set_global_colors_config(conf)                -> ok | err E
syn <k>                                 P_k(synced=True) (conf must be the global one) -> ok a=prefix;… | err E
sget <k>                                accessor attributes of that synced palette now -> ok a=prefix;…
```
`<cfg>` is a dict: `( key value key value … )`, value = `s:<cps>` (string) | `x` (other type) | dict;
keys, ids and names are comma-separated code points (`-` = empty).  After an `err` reply the
configuration is in a half-updated state that is not modelled: every later line answers `dead`.
-/
open Ak Ak.Proto ColorsConf

structure DrvState where
  world : MWorld
  cur : Nat            -- the configuration the lines without an index act on
  dead : Bool
  classes : List ClassDef
  compound : List Nat := []   -- classes derived from `CompoundPalette` (they cannot be synced)
  kept : List (Nat × Snap) := []   -- `KWorld.kept`: kept results of `get_palette()` (the model's state, see `stepK`)

def cpsOfChars (cs : List Char) : Option Str :=
  if cs = ['-'] then some [] else
  (splitOn ',' cs).mapM fun t => (parseDigits 0 false t).map Char.ofNat

def cpsOf (s : String) : Option Str := cpsOfChars s.toList

mutual
def parseCfg : Nat → List String → Option (Cfg × List String)
  | 0, _ => none
  | fuel + 1, toks =>
    match toks with
    | [] => none
    | t :: r =>
      if t = "x" then some (.other, r)
      else if t = "(" then
        match parseItems fuel r with
        | some (items, r') => some (.dict items, r')
        | none => none
      else match t.toList with
        | 's' :: ':' :: v => (cpsOfChars v).map fun s => (.str s, r)
        | _ => none
def parseItems : Nat → List String → Option (CfgItems × List String)
  | 0, _ => none
  | fuel + 1, toks =>
    match toks with
    | [] => none
    | t :: r =>
      if t = ")" then some (.nil, r)
      else match cpsOf t with
        | none => none
        | some k =>
          match parseCfg fuel r with
          | none => none
          | some (v, r') =>
            match parseItems fuel r' with
            | none => none
            | some (rest, r'') => some (.cons k v rest, r'')
end

/-- a whole token list that is exactly one dict -/
def cfgOfTokens (toks : List String) : Option Cfg :=
  match parseCfg (toks.length + 1) toks with
  | some (.dict items, []) => some (.dict items)
  | _ => none

def parseAccessors (s : String) : Option (List (Str × Id)) :=
  if s = "none" then some [] else
  (s.splitOn ";").mapM fun p =>
    match p.splitOn "=" with
    | [a, b] => match cpsOf a, cpsOf b with
      | some a, some b => some (a, b)
      | _, _ => none
    | _ => none

def parseParents (s : String) : Option (List Nat) :=
  if s = "none" then some [] else (s.splitOn ",").mapM (·.toNat?)

def insertSnap (x : Str × Id × Str) : Snap → Snap
  | [] => [x]
  | y :: ys => if strLt y.1 x.1 then y :: insertSnap x ys else x :: y :: ys

def showSnap (s : Snap) : String :=
  let sorted := s.foldr insertSnap []
  if sorted.isEmpty then "ok none" else
  "ok " ++ ";".intercalate (sorted.map fun (a, _, f) => showCps a ++ "=" ++ showCps f)

def showIds (m : SMap) : String :=
  let ids := sortIds (m.map (·.1))
  if ids.isEmpty then "ok none" else
  "ok " ++ ";".intercalate (ids.map fun id =>
    showCps id ++ ":" ++ (match lookup m id with | some ⟨_, _, some _⟩ => "R" | _ => "U"))

/-- what `make_report()` shows per id: resolved or not, and the formatter applied to the description -/
def showReport (m : SMap) : String :=
  let ids := sortIds (m.map (·.1))
  if ids.isEmpty then "ok none" else
  "ok " ++ ";".intercalate (ids.map fun id =>
    match lookup m id with
    | some ⟨_, _, some r⟩ => showCps id ++ ":R:" ++ showCps r.fmt
    | _ => showCps id ++ ":U:-")

def bool01 (s : String) : Option Bool :=
  if s = "0" then some false else if s = "1" then some true else none

def isFlat : Cfg → Bool
  | .dict items => go items
  | _ => false
where go : CfgItems → Bool
  | .nil => true
  | .cons _ (.str _) rest => go rest
  | .cons _ _ _ => false

/-- one operation of the model (`stepK`) on the state of the case -/
def doK (st : DrvState) (w : MWorld) (op : KOp) : DrvState × String :=
  match stepK st.classes ⟨w, st.kept⟩ op with
  | .ok (k', ⟨none, _⟩) => ({ st with world := k'.m, kept := k'.kept }, "ok")
  | .ok (k', ⟨some s, none⟩) => ({ st with world := k'.m, kept := k'.kept }, showSnap s)
  | .ok (k', ⟨some s, some f⟩) => ({ st with world := k'.m, kept := k'.kept }, showSnap s ++ "|" ++ showCps f)
  | .error e => ({ st with dead := true }, "err " ++ e.name)

def doOp (st : DrvState) (w : MWorld) (op : MOp) : DrvState × String := doK st w (.m op)

def handle (st : DrvState) (line : String) : DrvState × String :=
  match splitWs line with
  | ["reset"] => (⟨⟨[], [], none, []⟩, 0, false, [], [], []⟩, "ok")
  | "cls" :: k :: ps :: accs :: cfg =>
    -- `k` or `k@<name>`: the Python name of the class (no meaning in the model: a class is its index)
    -- a `+` after the index: the class derives from `CompoundPalette` (with an empty `SUB_PALETTES_MAP`)
    let ktok := ((k.splitOn "@").head?.getD "").toList
    let isCompound := ktok.contains '+'
    match parseDigits 0 false (ktok.filter (· ≠ '+')), parseParents ps, parseAccessors accs with
    | some k, some ps, some accs =>
      let dflt : Option (Option Cfg) :=
        if cfg = ["nodefaults"] then some none else (cfgOfTokens cfg).map some
      match dflt with
      | some d =>
        if k ≠ st.classes.length ∨ ps.any (fun p => p ≥ k) then (st, "bad-op") else
        let accessors := accs.foldl (fun a kv => dictSet a kv.1 kv.2)
          [(['t', 'e', 'x', 't'], Gen.C14.dfltId)]
        ({ st with classes := st.classes ++ [⟨ps, d, accessors⟩],
                   compound := if isCompound then k :: st.compound else st.compound }, "ok")
      | none => (st, "bad-op")
    | _, _, _ => (st, "bad-op")
  | cmd :: args =>
    if st.dead then (st, "dead") else
    let w := st.world
    match cmd, args with
    | "new", nc :: cfg =>
      match bool01 nc, cfgOfTokens cfg with
      | some nc, some cfg =>
        -- one more configuration; it becomes the target of the following lines
        doOp { st with cur := w.confs.length } w (.new nc cfg)
      | _, _ => (st, "bad-op")
    | "use", [i] =>
      match i.toNat? with
      | some i => if i < w.confs.length then ({ st with cur := i }, "ok") else (st, "bad-op")
      | none => (st, "bad-op")
    | "add", cfg =>
      match w.confs[st.cur]?, cfgOfTokens cfg with
      | some _, some cfg => if isFlat cfg then doOp st w (.on st.cur (.add (flatten cfg))) else (st, "bad-op")
      | _, _ => (st, "bad-op")
    | "reg", name :: cfg =>
      match w.confs[st.cur]?, cpsOf name, cfgOfTokens cfg with
      | some _, some name, some cfg => doOp st w (.on st.cur (.reg name cfg))
      | _, _, _ => (st, "bad-op")
    | "pal", [k, nc] =>
      match w.confs[st.cur]?, k.toNat?, bool01 nc with
      | some _, some k, some nc =>
        if k < st.classes.length then doOp st w (.on st.cur (.pal k nc)) else (st, "bad-op")
      | _, _, _ => (st, "bad-op")
    | "sub", [k, j, nc] =>
      -- `P_k(conf, nc).get_sub_palette(P_j)` for a compound class k: the compound palette is obtained from the
      -- configuration (as `pal k nc`), and it hands out `P_j(conf, nc)` (as `pal j nc`); the sub-palette it remembers
      -- lives as long as the compound palette object, i.e. as long as the configuration's cache entry
      match w.confs[st.cur]?, k.toNat?, j.toNat?, bool01 nc with
      | some _, some k, some j, some nc =>
        -- (a no-colour compound palette is one object per class that stays bound to the configuration it was first
        -- built for: with several configurations its sub-palettes belong to that one — not modelled)
        if k < st.classes.length ∧ j < st.classes.length ∧ st.compound.contains k ∧ (nc = false ∨ w.confs.length ≤ 1) then
          match doOp st w (.on st.cur (.pal k nc)) with
          | (st1, r) => if st1.dead then (st1, r) else doOp st1 st1.world (.on st.cur (.pal j nc))
        else (st, "bad-op")
      | _, _, _, _ => (st, "bad-op")
    | "get", [id] =>
      match w.confs[st.cur]?, cpsOf id with
      | some c, some id => (st, "ok " ++ showCps (getColor c id))
      | _, _ => (st, "bad-op")
    | "ids", [] =>
      match w.confs[st.cur]? with
      | some c => (st, showIds c.map)
      | none => (st, "bad-op")
    | "rep", [] =>
      match w.confs[st.cur]? with
      | some c => (st, showReport c.map)
      | none => (st, "bad-op")
    | "gpal", [] =>
      match w.confs[st.cur]? with
      | some _ => doK st w (.gpal st.cur)
      | none => (st, "bad-op")
    | "gread", [h, id] =>
      match h.toNat?, cpsOf id with
      | some n, some id =>
        match st.kept[n]? with
        | some (i, _) => if (w.confs[i]?).isSome then doK st w (.gread n id) else (st, "bad-op")
        | none => (st, "bad-op")
      | _, _ => (st, "bad-op")
    | "glob", [] =>
      match w.confs[st.cur]? with
      | some _ => doOp st w (.setGlobal st.cur)
      | none => (st, "bad-op")
    | "syn", [k] =>
      match k.toNat? with
      | some k =>
        if k < st.classes.length ∧ w.confs ≠ [] ∧ !st.compound.contains k then
          -- before the first `glob` the palette shows another configuration's colours: nothing to compare
          if w.glob.isSome then doOp st w (.syn k) else ((doOp st w (.syn k)).1, "ok pre-global")
        else (st, "bad-op")
      | none => (st, "bad-op")
    | "sget", [k] =>
      match k.toNat? with
      | some k =>
        if (cacheGet w.synced k).isSome ∧ w.glob.isSome then doOp st w (.sget k) else (st, "bad-op")
      | none => (st, "bad-op")
    | _, _ => (st, "bad-op")
  | [] => (st, "bad-op")

def main : IO Unit := runS handle (⟨⟨[], [], none, []⟩, 0, false, [], [], []⟩ : DrvState)
