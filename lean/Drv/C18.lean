import AkVerif.Model.Proto
import AkVerif.Model.Xls
import AkVerif.Gen.C18
/-!
Driver of C18. One request per sheet:

  `read <a|f> <0|1> <numId> <probe> <titles> <rules> <sheet>`

* strings are code points joined by `.` (`-` = empty string)
* `<a|f>` end rule (blank all / blank first), `<0|1>` ladder, `<probe>` a range key asked of every
  attribute, `<titles>` `,`-joined strings: the range keys asked of every ranged attribute
* rule: `e:<D>` | `c:<str>:<ct>:<D|~>` | `r:<d|s>:<ct>:<0|1>`, joined by `;` (`-` = no rules);
  default `D`: a `V` (constant), `k<n>` (a counter starting at `n`), `K<n>` (such a counter shared with
  optional attributes of the rule set whose columns are present: they never call it), `l` (`list`)
* `readx …`: the rules field holds several rule sets `<numId>!<rules>` joined by `+`
  (`XlsTableReader(rules_1, …)`); reply: one token per row, the results of the rule sets joined by `&`
* `readr …`: as `readx`; the real code reads with the reader object of the previous `readx` / `readr` line
  (the model is a function of the request: a reader keeps nothing from one table to the next)
* `V`: `N` | `i<int>` | `s<str>` | `bT` | `bF`
* sheet: rows joined by `/`, cells joined by `,`; cell `_` | `i<int>` | `t<str>`; `-` = row without
  cells, `=` = sheet without rows. Coordinates are the usual ones (`mkSheet`).

  `fill <a|f> <sheet>` — reply: the cells of `fillSheet` of that sheet, as their coordinates
  (rows joined by `/`, cells by `,`) or `err:IndexError` (diagnostic line: ties the specification
  of the ladder theorem to the filled sheet the oracle builds; the real code is not involved)

Reply to `read`: one token per yielded result (`None` or the attributes joined by `|`, each
`<value>^<origin>^<probe origin>[^<key>=<origin>,…]`), then `end` or `err:<Exception>`.
-/
open Ak Ak.Proto Xls

def splitCh (sep : Char) (s : List Char) : List (List Char) := splitOnChar sep s

def natOf (s : List Char) : Option Nat := (String.ofList s).toNat?
def intOf (s : List Char) : Option Int := parseInt (String.ofList s)

def parseStr (s : List Char) : Option (List Char) :=
  if s = ['-'] then some [] else (splitCh '.' s).mapM fun t => (natOf t).map Char.ofNat

def showStr (s : List Char) : String :=
  if s.isEmpty then "-" else ".".intercalate (s.map fun c => toString c.toNat)

def parseV : List Char → Option StdV
  | ['N'] => some .none
  | ['b', 'T'] => some (.bool true)
  | ['b', 'F'] => some (.bool false)
  | 'i' :: r => (intOf r).map .int
  | 's' :: r => (parseStr r).map .str
  | _ => none

def showRes : Except Err (List Char) → String
  | .ok s => "o" ++ showStr s
  | .error e => "E" ++ e.name

def sortDedup (l : List (List Char)) : List (List Char) :=
  (sortCps l).foldr (fun x acc => match acc with
    | y :: _ => if x = y then acc else x :: acc
    | [] => [x]) []

def showV : StdV → String
  | .none => "N"
  | .bool true => "bT"
  | .bool false => "bF"
  | .int n => "i" ++ toString n
  | .str s => "s" ++ showStr s
  | .list l => "L[" ++ ";".intercalate (l.map showStr) ++ "]"
  | .set l => "T[" ++ ";".intercalate ((sortDedup l).map showStr) ++ "]"

/-- a default: a literal (`lambda: value`), `k<n>` = `itertools.count(n).__next__`, `l` = `list` -/
def parseD : List Char → Option (Nat → StdV)
  | ['l'] => some fun _ => .list []
  | 'k' :: r => (intOf r).map fun n => fun k => .int (n + k)
  | 'K' :: r => (intOf r).map fun n => fun k => .int (n + k)   -- a sequence shared with attributes read from cells
  | v => (parseV v).map fun x => fun _ => x

def parseRule (s : List Char) : Option (Rule StdV) :=
  match splitCh ':' s with
  | [['e'], v] => (parseD v).map .ext
  | [['c'], t, ct, d] =>
    match parseStr t, natOf ct, (if d = ['~'] then some none else (parseD d).map some) with
    | some t, some ct, some d => if t = ['*'] then none else some (.col t ct d)
    | _, _, _ => none
  | [['r'], k, ct, o] =>
    match (if k = ['d'] then some RangeKind.dict else if k = ['s'] then some RangeKind.set else none),
          natOf ct, (if o = ['1'] then some true else if o = ['0'] then some false else none) with
    | some k, some ct, some o => some (.range k ct o)
    | _, _, _ => none
  | _ => none

def parseCell : List Char → Option Val
  | ['_'] => some .blank
  | 'i' :: r => (intOf r).map .int
  | 't' :: r => (parseStr r).map .text
  | _ => none

def parseSheet (s : List Char) : Option (List (List Val)) :=
  if s = ['='] then some [] else
  (splitCh '/' s).mapM fun r => if r = ['-'] then some [] else (splitCh ',' r).mapM parseCell

def showVal : AVal StdV → String
  | .plain v => showV v
  | .dict items =>
    "D[" ++ ";".intercalate ((sortDedup (items.map (·.1))).map fun k =>
      showStr k ++ "=" ++ (match dictGet items k with | some v => showV v | none => "?")) ++ "]"
  | .set keys => "S[" ++ ";".intercalate ((sortDedup keys).map showStr) ++ "]"

def isRanged : Origin → Bool
  | .range _ => true
  | _ => false

def showAttr (probe : Key) (keys : List Key) (a : AVal StdV × Origin) : String :=
  let base := showVal a.1 ++ "^" ++ showRes (attrOrigin a.2 none) ++ "^" ++ showRes (attrOrigin a.2 (some probe))
  if isRanged a.2 then
    base ++ "^" ++ ",".intercalate (keys.map fun k => showStr k ++ "=" ++ showRes (attrOrigin a.2 (some k)))
  else base

def showObj (probe : Key) (keys : List Key) : Option (Obj StdV) → String
  | none => "None"
  | some o => if o.attrs.isEmpty then "obj" else "|".intercalate (o.attrs.map (showAttr probe keys))

/-- which entry point: `read` = iter_table, `readt` = read_table, `readm` = TableReader.read_list -/
def viaOf : List Char → Option Nat
  | ['r','e','a','d'] => some 0
  | ['r','e','a','d','t'] => some 1
  | ['r','e','a','d','m'] => some 2
  | ['r','e','a','d','x'] => some 3
  | ['r','e','a','d','r'] => some 3   -- the same reader object reads another table: a function of the request alone
  | _ => none

/-- rule sets of a multi-object reader: `<numId>!<rules>` joined by `+` -/
def parseSets (s : List Char) : Option (List (Nat × List (Rule StdV))) :=
  (splitCh '+' s).mapM fun t =>
    match splitCh '!' t with
    | [n, rules] =>
      match natOf n, (if rules = ['-'] then some [] else (splitCh ';' rules).mapM parseRule) with
      | some n, some rs => some (n, rs)
      | _, _ => none
    | _ => none

def outOf (r : Except Err (List (Option (Obj StdV)))) : Out StdV :=
  match r with
  | .ok objs => ⟨objs, none⟩
  | .error e => ⟨[], some e⟩

def handle (line : String) : String :=
  match (splitWs line).map String.toList with
  | [op, stop, ladder, numId, probe, titles, rulesTxt, sheet] =>
    match viaOf op with
    | none => "bad-op"
    | some 3 =>
      -- `readx`: XlsTableReader with several rule sets; the `numId` field is ignored, one token per row:
      -- the results of the rule sets joined by `&`
      match (if stop = ['a'] then some Stop.blankAll else if stop = ['f'] then some Stop.blankFirst else none),
            (if ladder = ['1'] then some true else if ladder = ['0'] then some false else none),
            parseStr probe, (if titles = ['='] then some [] else (splitCh ',' titles).mapM parseStr),
            parseSets rulesTxt, parseSheet sheet with
      | some stop, some ladder, some probe, some keys, some sets, some rows =>
        let out := iterTableM stdConv ⟨stop, ladder, sets⟩ (mkSheet rows)
        " ".intercalate (out.rows.map (fun res =>
            if res.isEmpty then "row" else "&".intercalate (res.map (showObj probe (sortDedup keys)))) ++
          [match out.err with | none => "end" | some e => "err:" ++ e.name])
      | _, _, _, _, _, _ => "bad-op"
    | some via =>
    match (if stop = ['a'] then some Stop.blankAll else if stop = ['f'] then some Stop.blankFirst else none),
          (if ladder = ['1'] then some true else if ladder = ['0'] then some false else none),
          natOf numId, parseStr probe,
          (if titles = ['='] then some [] else (splitCh ',' titles).mapM parseStr),
          (if rulesTxt = ['-'] then some [] else (splitCh ';' rulesTxt).mapM parseRule),
          parseSheet sheet with
    | some stop, some ladder, some numId, some probe, some keys, some rules, some rows =>
      let cfg : Cfg StdV := ⟨stop, ladder, numId, rules, []⟩
      let out := match via with
        | 0 => iterTable stdConv cfg (mkSheet rows)
        | 1 => outOf (readTable stdConv cfg (mkSheet rows))
        | _ => outOf (readList stdConv numId rules (mkSheet rows))
      -- `after:<i>=<V>,…`: what the factories of optional attributes read from cells give on their next call
      -- (a shared sequence `K<n>` belongs to the attribute that takes it: not reported here)
      let sharedIdx := ((splitCh ';' rulesTxt).zipIdx.filter fun (t, _) =>
        match splitCh ':' t with
        | [_, _, _, 'K' :: _] => true
        | _ => false).map (·.2)
      let unused := (unusedDefaults (titlesOf (mkSheet rows)) 0 rules).filter fun iv => !sharedIdx.contains iv.1
      " ".intercalate (out.objs.map (showObj probe (sortDedup keys)) ++
        (if unused.isEmpty then [] else
          ["after:" ++ ",".intercalate (unused.map fun iv => toString iv.1 ++ "=" ++ showV iv.2)]) ++
        [match out.err with | none => "end" | some e => "err:" ++ e.name])
    | _, _, _, _, _, _, _ => "bad-op"
  | [['f','i','l','l'], stop, sheet] =>
    -- the sheet the ladder theorem speaks about (`fillSheet`), as the coordinates of its cells
    match (if stop = ['a'] then some Stop.blankAll else if stop = ['f'] then some Stop.blankFirst else none),
          parseSheet sheet with
    | some stop, some rows =>
      match fillSheet stop (mkSheet rows) with
      | .error e => "err:" ++ e.name
      | .ok s' =>
        if s'.isEmpty then "=" else
        "/".intercalate (s'.map fun r =>
          if r.isEmpty then "-" else ",".intercalate (r.map fun c => String.ofList c.coord))
    | _, _ => "bad-op"
  | _ => "bad-op"

def main : IO Unit := run handle
